#!/usr/bin/env python3
"""Validate MANIFEST.json and evidence/*.json against the task schemas (uses the tooling venv's jsonschema)."""
import json, sys, glob
import jsonschema
ms = json.load(open('/root/.vp/MANIFEST.schema.json'))
es = json.load(open('/root/.vp/EVIDENCE.schema.json'))
ok = True
try:
    jsonschema.validate(json.load(open('/verif/MANIFEST.json')), ms); print('MANIFEST ok')
except Exception as e:
    ok = False; print('MANIFEST INVALID', str(e)[:500])
for f in sorted(glob.glob('/verif/evidence/*.json')):
    try:
        jsonschema.validate(json.load(open(f)), es); print(f, 'ok')
    except Exception as e:
        ok = False; print(f, 'INVALID', str(e)[:500])
sys.exit(0 if ok else 1)
