#!/bin/sh
# Builds the verification harness from files on disk only (offline).
set -e
cd "$(dirname "$0")/harness"
export CARGO_NET_OFFLINE=true
cargo build --release -p pcv_core -p pcv_schema
cargo build --profile plain -p pcv_core
# prime the Miri sysroot and the interpreted build of the core worker (used by C04, C05, C11)
CARGO_TARGET_DIR="$PWD/target-miri" MIRIFLAGS="-Zmiri-disable-isolation" cargo +nightly miri run --release -p pcv_core -- NOOP || echo "setup: miri priming failed (miri stages will report inconclusive)"
