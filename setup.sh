#!/bin/sh
# Builds the verification harness from files on disk only (offline).
set -e
cd "$(dirname "$0")/harness"
export CARGO_NET_OFFLINE=true
cargo build --release -p pcv_core -p pcv_schema
cargo build --profile plain -p pcv_core
# on its own: postcard-schema with `alloc` and without `use-std` (stage alloc of C14)
cargo build --release -p pcv_alloc
# prime the Miri sysroots (host and the 32-bit target of stage miri32) and the interpreted builds of the workers
CARGO_TARGET_DIR="$PWD/target-miri" MIRIFLAGS="-Zmiri-disable-isolation" cargo +nightly miri run --release -p pcv_core -- NOOP || echo "setup: miri priming failed (miri stages will report inconclusive)"
cargo +nightly miri setup --target i686-unknown-linux-gnu || echo "setup: miri sysroot for i686 failed (miri32 stages will report inconclusive)"
cargo +nightly miri setup --target s390x-unknown-linux-gnu || echo "setup: miri sysroot for s390x failed (miribe stages will report inconclusive)"
CARGO_TARGET_DIR="$PWD/target-miri" MIRIFLAGS="-Zmiri-disable-isolation" cargo +nightly miri run --release -p pcv_core --target i686-unknown-linux-gnu -- NOOP || echo "setup: miri32 priming failed"
