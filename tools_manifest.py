#!/usr/bin/env python3
"""Regenerates /verif/MANIFEST.json from the table below (kept in one place so the
manifest is always complete and valid).  BUILT lists the properties whose checks exist."""
import json, subprocess


HOOK_COMMITS = subprocess.run(
    ["git", "-C", "/repo", "log", "--format=%H", "--grep=^verif-hooks:"], capture_output=True, text=True
).stdout.split()

P = {
 "C01": ("exploration", "4 C01", "differential round-trip monitor (reference model + entry-point equivalence); Miri i686 stage in thorough",
         "Every generated (shape, value) is encoded through all encode entry points and decoded through all decode entry points of the real crate; a monitor compares decoded value (floats bitwise), consumed length and remainder pointer. Whole domains for bool/u8/i8/u16/i16/char (and u32/i32/f32 in the thorough tier), every power-of-two boundary of the wide integers, random shape trees over all 29 serde kinds and ~75 concrete Rust types; text that reaches the encoder through collect_str (write_str and write_char pieces, fmt::Arguments) and never-materialised sequences of 2^32+-k zero-sized elements round-trip as well. Exploration, not proof: values of 64/128-bit types and deep shapes are sampled. A lean workload is also interpreted by Miri for a 32-bit target (i686; stage miri32), where length prefixes are 32-bit varints. (thorough)",
         "Trusts the harness's run-time serde bridge (cross-checked by the Recorder) and the reference encoder used to build corpus values."),
 "C02": ("exploration", "4 C02", "differential monitor against an independent reference encoder written from wire-format.md; Miri big-endian stage (quick), Miri i686 stage (thorough)",
         "Byte-for-byte comparison of the real encoder's output with a reference encoder written from the specification and validated against every table of the specification at start-up; plus direct canonical-varint assertion, unknown-length refusal, collect_str (write_str and write_char pieces), skip_field, count prefixes of every magnitude, usize/isize and rename-metamorphic monitors. Same domains as C01. A lean workload is also interpreted by Miri for a 32-bit target (i686; stage miri32), where length prefixes are 32-bit varints. (thorough) Sequences of top-level calls on one thread (after a call that failed half way, after a successful one, re-entrantly from inside a Serialize impl) through fifteen encode entry points must each produce the framing of their own value (state kept across calls).",
         "Trusts the reference encoder (validated against 33 table rows of spec/src/wire-format.md on every run)."),
 "C03": ("exploration", "4 C03", "differential monitor against an independent reference decoder; exhaustive short byte strings; Miri i686 stage (quick), big-endian stage (thorough)",
         "Accept/reject, value, consumed length, remainder identity and error kind of the real decoder are compared with a reference decoder written from the specification on every byte string of length <= 3 (quick) / <= 4 (thorough) for the 16-bit varint decoders, all short strings for bool/u8/i8/options, boundary-structured strings for the wider varints, and valid/prefix/corrupted/re-padded/random inputs for random and concrete shapes. A lean workload is also interpreted by Miri for a 32-bit target (i686; stage miri32), where length prefixes are 32-bit varints. (quick and thorough: length prefixes 2^32-1, 2^32, over-long paddings against the reference decoder parametrised by the pointer width)",
         "Trusts the reference decoder (validated against the canonicalization and max-length tables of the specification)."),
 "C04": ("exploration", "4 C04", "guard pages + counting allocator + panic monitor + Miri for x86-64 and i686 (+ASan and valgrind memcheck in thorough)",
         "Hostile inputs (mutated-valid, random, adversarial length prefixes up to usize::MAX) are decoded with the input flush against PROT_NONE pages on either side, under catch_unwind, with a thread-local counting allocator enforcing the allocation bound and pointer-range monitors on every borrowed str/bytes; concrete types also through the checksum-verifying slice decoders; operation histories on one flavour object (IOReader over a guarded scratch buffer, Slice over a guarded input, one Deserializer decoding further values after a refused one) are checked against a model of slot positions; hostile inputs of growing depth are decoded into recursive target types in child processes of the worker (a stack overflow cannot be caught in process; recorded as known finding F8); the same workload is interpreted by Miri (quick) and run under ASan and valgrind memcheck (thorough).",
         "Guard pages only see accesses that cross a page edge adjacent to the buffer; Miri covers the rest on a smaller workload. The allocation bound constant is justified in DESIGN 4 C04."),
 "C05": ("fault_enumeration", "4 C05", "capacity fault enumeration with guard pages, canaries, Miri (+ASan, valgrind memcheck and Miri i686 in thorough)",
         "For every sampled value the buffer-full fault is injected at every byte position (every capacity 0..L+2) for slice storage in plain/COBS/CRC framing and at a menu of const capacities for heapless storage; success iff capacity >= L, exact bytes, untouched tail, buffer-full error, canaries and guard pages intact, serialized_size == L; operation histories on one Slice flavour (writes after a refused write) under guard page and canary; one-shot and self-stamping values (non-idempotent Serialize impls) through every public entry point. Sequences of top-level calls on one thread (after a call that failed half way, after a successful one, re-entrantly from inside a Serialize impl) through fifteen encode entry points must each produce the framing of their own value (state kept across calls).",
         "Heapless capacities are a const-generic menu, not every integer."),
 "C06": ("exploration", "4 C06", "differential monitor against reference COBS; exhaustive short messages",
         "COBS frames produced by the real crate are compared with a reference Cheshire-Baker encoder (validated against published vectors) for all messages up to length 8/10 over {00,01,02,FF}, run lengths around multiples of 254, messages handed to the flavour as blocks (strings / byte arrays of every length, pairs and runs of blocks at every alignment with the 254-byte boundary), random messages, across storage kinds; multi-frame buffers are walked with take_from_bytes_cobs checking remainder pointers.",
         "The parenthetical length formula in the statement is exact only for zero-free messages; the check asserts equality with the reference transform and the formula as an upper bound (DESIGN 4 C06)."),
 "C07": ("exploration", "4 C07", "differential monitor against reference COBS decoder + plain decoder; exhaustive short inputs, guard pages",
         "Every byte string up to length 7/9 over a code-byte-relevant alphabet, valid frames with every single-byte corruption and truncation, long frames with encoded lengths around every power of two up to 2^17 (quick) / 2^20 (thorough), and random bytes are decoded by the real COBS entry points and compared with reference COBS decode followed by the plain decoder; remainder offsets, buffer contents after the sentinel, panics and guard pages are monitored. Payloads made of 1-3 zero-separated runs of lengths around 254.",
         "Trusts the reference COBS decoder (validated against published vectors)."),
 "C08": ("exploration", "4 C08", "online history monitor with state hook; exhaustive chunkings of short streams",
         "Every feed call is recorded at the API boundary and checked online against a sequential model (pending bytes) using the verif_buffered hook; all 2^(len-1) chunkings of short streams (each also with empty feed calls before, between and after the chunks), all single transitions of longer ones, random chunkings beyond. Frames of 250..700 bytes at capacities 256 and 4096.",
         "Needs the read-only hook to observe buffered bytes."),
 "C09": ("exploration", "4 C09", "online history monitor with state hook over overflow/garbage streams",
         "Streams with over-long segments and garbage across capacities N in 1..16 incl. N equal to, one less and one more than a frame; monitors: no panic, hook length <= N and empty after every zero, OverFull before the sentinel of an over-long segment, resync, bounded progress of the feed loop in logical steps. Frames of 250..700 bytes at capacities 256 / 4096; one instance fed 70 000 (thorough: 1.1 million) over-long segments.",
         "Termination is decided on logical step counts, never wall-clock."),
 "C10": ("fault_enumeration", "4 C10", "corruption fault enumeration against a bit-level reference CRC; Miri big-endian stage in thorough",
         "Frames for five widths and ten catalogue algorithms are compared with a bit-at-a-time Rocksoft-model CRC (validated against each algorithm's published check value); every single-bit flip, every burst <= width at every offset (exhaustive for widths <= 16, sampled above), truncations and random damage are injected and the soundness invariant is checked on every accepted input; the checksum flavour is also stacked on the std and embedded-io reader flavours with exactly sized scratch buffers, and the crate-level crc32 wrappers are exercised. Sequences of top-level calls on one thread (after a call that failed half way, after a successful one, re-entrantly from inside a Serialize impl) through fifteen encode entry points must each produce the framing of their own value (state kept across calls).",
         "Trusts the reference CRC (validated against published check values on every run)."),
 "C11": ("fault_enumeration", "4 C11", "I/O fault and schedule enumeration with guard pages, Miri (+ASan, valgrind memcheck, Miri i686, embedded-io 0.4 build in thorough)",
         "Instrumented readers/writers deliver data in 1-byte/random/whole pieces and fail, hit EOF or interrupt at every byte offset; scratch sizes 0..required+1; monitors: equivalence with slice path, exact consumption, disjoint in-order borrows inside scratch, returned remainder, prefix-only writes, flush; writers that refuse exactly one write (one-shot error at every offset, all-or-nothing bounded sink of every capacity) under ordinary values and text formatted piecewise through collect_str. Sequences of top-level calls on one thread (after a call that failed half way, after a successful one, re-entrantly from inside a Serialize impl) through fifteen encode entry points must each produce the framing of their own value (state kept across calls).",
         "embedded-io 0.4 is exercised only in the thorough tier (features are mutually exclusive, second build)."),
 "C12": ("exploration", "4 C12", "bound monitor over built-in and in-tree-derive MaxSize impls",
         "serialized size of maximising and random values of every MaxSize impl is compared with POSTCARD_MAX_SIZE; tightness asserted for the categories the statement names; heapless vectors of zero-sized elements at capacities up to usize::MAX; derived types whose fields carry serde attributes. About twenty candidate types without an impl today (Duration, Bound, Wrapping, net addresses, 7/8-tuples, atomics ...) are probed and tested as soon as an impl exists; derived types with repr attributes (repr(u8) enums with 200 variants).",
         "Uses the in-tree postcard-derive (path dependency), not the registry one postcard re-exports."),
 "C13": ("exploration", "4 C13", "differential monitor against to_le_bytes/to_be_bytes; exhaustive 16-bit; Miri big-endian stage",
         "All 65536 values of u16/i16 in both byte orders, every single-byte-nonzero pattern, extremes and random values of the wider types (all 2^32 of u32/i32 in thorough), standalone and between varint fields. Sequences of top-level calls on one thread (after a call that failed half way, after a successful one, re-entrantly from inside a Serialize impl) through fifteen encode entry points must each produce the framing of their own value (state kept across calls).",
         "-"),
 "C14": ("exploration", "4 C14", "conformance monitor: recorded serializer call tree vs Schema, plus schema-driven wire walker; two feature configurations (use-std, alloc-only)",
         "The serde call tree of generated values of every built-in Schema impl and a derived corpus is checked structurally against T::SCHEMA, and an independent schema-directed reader must consume each encoding exactly. Two build configurations: the full one (use-std and all integration features) and an alloc-only build of postcard-schema (stage alloc, crate pcv_alloc), which compiles impls/builtins_alloc.rs instead of builtins_std.rs. About thirty candidate types without a Schema impl today are probed and checked as soon as an impl exists; derived types with representation attributes and doc comments.",
         "Type names are not compared (statement lists field and variant names)."),
 "C15": ("exploration", "4 C15", "differential monitor borrowed vs owned schema over random trees",
         "Random schema trees over all 26 node kinds and 4 data kinds are built in both forms from one harness description; conversion equality, byte equality and decode-back equality are monitored. Nodes with 20 000..30 000 children and names of 1 KiB..70 KiB.",
         "Borrowed trees are leaked (bounded per run)."),
 "C16": ("exploration", "4 C16", "three-way differential: const hasher (hook) vs owned hasher vs reference FNV-1a stream; Miri big-endian stage in thorough",
         "Keys of random trees x paths from both implementations and an independent tag-stream + FNV-1a implementation are compared; every single-node mutation whose documented stream differs must change the key.",
         "Needs the hook to run the private const hasher on run-time trees; Key::for_path::<T> is additionally exercised on corpus types."),
 "C17": ("exploration", "4 C17", "differential: dynamic codec vs static encoder vs serde_json; Miri i686 and big-endian stages in thorough",
         "For random shapes and corpus types within the statement's restrictions, to_stdvec_dyn must equal the static bytes and from_slice_dyn must equal serde_json::to_value; names that differ only in case or in a raw-identifier prefix, nesting to depth 300. A lean workload is also interpreted by Miri for a 32-bit target (i686; stage miri32), where length prefixes are 32-bit varints. (thorough: pointer-sized integers inside the target range)",
         "serde_json's own Serializer is trusted as the JSON reference."),
 "C18": ("exploration", "4 C18", "totality monitor (catch_unwind, breadcrumbs, counting allocator) over random schemas x bytes x JSON",
         "No panic/abort, allocation bound, and encode->decode->encode fixpoint are monitored for random schemas with hostile bytes and type-correct/near-miss/unrelated JSON (near-miss includes numbers as decimal strings, numbers spelt as text in 34 other ways - special floats, signs, padding, radix -, respelt object keys, and objects that hold one key twice under two spellings; a lane of maps of every key kind and of every scalar kind x number spellings). A lean workload is also interpreted by Miri for a 32-bit target (i686; stage miri32), where length prefixes are 32-bit varints. (thorough) Nodes with 63..5000 members.",
         "Known design limitations are listed in known_findings.json and still reported as KNOWN-FINDING."),
 "C19": ("exploration", "4 C19", "totality + set-equality monitor for schema inspection helpers",
         "to_pseudocode/Display/all_used_types under catch_unwind for random trees incl. Usize/Isize/Schema; the collected set is compared with an independent traversal; renderings must mention names; wide tuples (7..40 same-kind elements), path-like and case-variant names; is_prim totality.",
         "-"),
 "C20": ("exploration", "4 C20", "compositional differential: flavour stacks vs composed reference transforms",
         "Outputs of storage x {plain, Cobs, Crc(5 widths), Crc-inside-Cobs} stacks are compared with reference COBS/CRC transforms of the reference encoding, layers are undone in reverse, and recording user flavours must see exactly the plain encoding; exactly fitting heapless storage; one-shot and self-stamping values through every public entry point. Sequences of top-level calls on one thread (after a call that failed half way, after a successful one, re-entrantly from inside a Serialize impl) through fifteen encode entry points must each produce the framing of their own value (state kept across calls).",
         "Trusts reference COBS and CRC."),
}

BUILT = sorted(P)

REASON_NOT_BUILT = "check under construction in this session (design in DESIGN.md section 4); not claimed until its monitor exists and is silent on the unchanged tree"

def main():
    checks = []
    for pid in sorted(P):
        if pid not in BUILT:
            continue
        level, ref, tech, text, note = P[pid]
        checks.append({
            "property_id": pid,
            "quick_cmd": "./check %s --tier quick" % pid,
            "thorough_cmd": "./check %s --tier thorough" % pid,
            "evidence_file": "/verif/evidence/%s.json" % pid,
            "replay_cmd_template": "./check %s --replay {path}" % pid,
            "engine": "pcv_core" if pid in ("C01 C02 C03 C04 C05 C06 C07 C08 C09 C10 C11 C12 C13 C20".split()) else "pcv_schema",
            "level_claimed": {"category": level, "text": text, "design_ref": "DESIGN.md section " + ref},
            "level_note": note,
            "technique": "runtime monitoring: " + tech,
        })
    m = {
        "version": 1,
        "setup_cmd": "./setup.sh",
        "hooks": {
            "guard": "cargo feature `verif-hooks` (postcard, postcard-schema); off by default",
            "enable": "the harness crates depend on /repo/source/* by path with features = [\"verif-hooks\", ...]; no RUSTFLAGS needed",
            "baseline_off_cmd": "cd /repo && cargo test --workspace --no-fail-fast --offline",
            "source_commits": HOOK_COMMITS,
            "add_only": True,
        },
        "engines": [
            {"name": "pcv_core", "path": "/verif/harness/pcv_core", "serves_properties": "C01 C02 C03 C04 C05 C06 C07 C08 C09 C10 C11 C12 C13 C20".split(),
             "kind_free_text": "Rust worker: run-time serde model, reference encoder/decoder/COBS/CRC oracles, guard pages, counting allocator, breadcrumbs; also run under Miri and ASan"},
            {"name": "pcv_schema", "path": "/verif/harness/pcv_schema", "serves_properties": "C14 C15 C16 C17 C18 C19".split(),
             "kind_free_text": "Rust worker for postcard-schema / postcard-dyn monitors"},
            {"name": "pcv_alloc", "path": "/verif/harness/pcv_alloc", "serves_properties": ["C14"],
             "kind_free_text": "the C14 oracle linked against postcard-schema built with feature alloc and without use-std (stage alloc)"},
            {"name": "check", "path": "/verif/check", "serves_properties": sorted(P),
             "kind_free_text": "python3 orchestrator: builds from /repo's working tree, runs stages with watchdogs, turns worker deaths into verdicts via breadcrumbs, applies known_findings.json, writes evidence"},
        ],
        "checks": checks,
        "not_applicable": [{"property_id": pid, "reason": REASON_NOT_BUILT} for pid in sorted(P) if pid not in BUILT],
        "notes": "Technique family: runtime monitoring and sanitizers. Every check runs its workload on two build profiles (debug assertions + overflow checks on; plain release). Verdicts are three-valued (exit 0 held / 1 violation / 2 inconclusive). VERIF_SEED seeds all random choices; enumerated sub-spaces do not depend on it. VERIF_STAGES=native,plain,miri,miri32,miribe,asan,memcheck,eio04,alloc,cfgfuzz restricts stages (debugging aid). Confirmed property-breaking changes used to validate the checks are in /verif/seeded/ (202 changes from five waves of independent sub-agents plus 5 hand-written byte-order changes, all detected; DESIGN.md section 15). tools_coverage.sh reports which source lines of /repo the workloads execute (coverage/).",
    }
    with open("/verif/MANIFEST.json", "w") as f:
        json.dump(m, f, indent=1)
        f.write("\n")

if __name__ == "__main__":
    main()
