//! Generators: random shape trees, boundary-structured values, hostile byte strings.

use crate::model::*;
use crate::rng::Rng;
use crate::spec;

#[derive(Clone, Copy)]
pub struct ShapeOpts {
    pub max_depth: u32,
    pub max_fan: usize,
    pub allow_map: bool,
    pub allow_bytes: bool,
    pub allow_128: bool,
    pub allow_ptr_sized: bool,
    pub alt_names: bool,
    pub big_enums: bool,
}

impl ShapeOpts {
    pub fn full() -> ShapeOpts {
        ShapeOpts {
            max_depth: 5,
            max_fan: 6,
            allow_map: true,
            allow_bytes: true,
            allow_128: true,
            allow_ptr_sized: true,
            alt_names: false,
            big_enums: true,
        }
    }
    pub fn small() -> ShapeOpts {
        ShapeOpts { max_depth: 3, max_fan: 4, ..ShapeOpts::full() }
    }
}

fn tname(rng: &mut Rng, alt: bool) -> Name {
    let i = rng.below(16) as usize;
    if alt {
        TYPE_POOL_ALT[i]
    } else {
        TYPE_POOL[i]
    }
}
fn fname(i: usize, alt: bool) -> Name {
    if alt {
        FIELD_POOL_ALT[i]
    } else {
        FIELD_POOL[i]
    }
}
fn vname(i: usize, alt: bool) -> Name {
    if alt {
        variant_name_alt(i)
    } else {
        variant_name(i)
    }
}

pub fn gen_leaf(rng: &mut Rng, o: &ShapeOpts) -> Shape {
    loop {
        let s = match rng.below(23) {
            0 => Shape::Bool,
            1 => Shape::I8,
            2 => Shape::I16,
            3 => Shape::I32,
            4 => Shape::I64,
            5 => Shape::I128,
            6 => Shape::U8,
            7 => Shape::U16,
            8 => Shape::U32,
            9 => Shape::U64,
            10 => Shape::U128,
            11 => Shape::F32,
            12 => Shape::F64,
            13 => Shape::Char,
            14 | 15 => Shape::Str,
            16 => Shape::Bytes,
            17 => Shape::Unit,
            18 => Shape::UnitStruct(tname(rng, o.alt_names)),
            19 => Shape::Usize,
            20 => Shape::Isize,
            21 => Shape::U8,
            _ => Shape::U16,
        };
        match s {
            Shape::I128 | Shape::U128 if !o.allow_128 => continue,
            Shape::Usize | Shape::Isize if !o.allow_ptr_sized => continue,
            Shape::Bytes if !o.allow_bytes => continue,
            _ => return s,
        }
    }
}

fn gen_fields(rng: &mut Rng, depth: u32, o: &ShapeOpts, min: usize) -> Vec<Shape> {
    let n = rng.range(min, o.max_fan);
    (0..n).map(|_| gen_shape(rng, depth, o)).collect()
}
fn gen_named(rng: &mut Rng, depth: u32, o: &ShapeOpts) -> Vec<(Name, Shape)> {
    let n = rng.range(0, o.max_fan);
    (0..n).map(|i| (fname(i, o.alt_names), gen_shape(rng, depth, o))).collect()
}

pub fn gen_vdata(rng: &mut Rng, depth: u32, o: &ShapeOpts) -> VData {
    match rng.below(7) {
        0 | 1 => VData::Unit,
        2 | 3 => VData::Newtype(Box::new(gen_shape(rng, depth, o))),
        4 => {
            // tuple variants: arity 0, 2.. (arity 1 is a newtype by serde's convention)
            let mut f = gen_fields(rng, depth, o, 0);
            if f.len() == 1 {
                f.push(gen_shape(rng, depth, o));
            }
            VData::Tuple(f)
        }
        _ => VData::Struct(gen_named(rng, depth, o)),
    }
}

/// Random shape tree of depth <= `depth`.
pub fn gen_shape(rng: &mut Rng, depth: u32, o: &ShapeOpts) -> Shape {
    if depth == 0 || rng.chance(3, 10) {
        return gen_leaf(rng, o);
    }
    let d = depth - 1;
    match rng.below(12) {
        0 | 1 => Shape::Option(Box::new(gen_shape(rng, d, o))),
        2 => Shape::NewtypeStruct(tname(rng, o.alt_names), Box::new(gen_shape(rng, d, o))),
        3 | 4 => Shape::Seq(Box::new(gen_shape(rng, d, o))),
        5 => Shape::Tuple(gen_fields(rng, d, o, 0)),
        6 => {
            let mut f = gen_fields(rng, d, o, 0);
            if f.len() == 1 {
                f.push(gen_shape(rng, d, o));
            }
            Shape::TupleStruct(tname(rng, o.alt_names), f)
        }
        7 => {
            if o.allow_map {
                // keys: mostly simple
                let k = if rng.chance(3, 4) { gen_leaf(rng, o) } else { gen_shape(rng, d.min(1), o) };
                Shape::Map(Box::new(k), Box::new(gen_shape(rng, d, o)))
            } else {
                Shape::Seq(Box::new(gen_shape(rng, d, o)))
            }
        }
        8 | 9 => Shape::Struct(tname(rng, o.alt_names), gen_named(rng, d, o)),
        _ => {
            let nv = if o.big_enums && rng.chance(1, 12) {
                *rng.pick(&[127usize, 128, 129, 200, 300])
            } else {
                rng.range(1, o.max_fan)
            };
            let vs = (0..nv)
                .map(|i| VariantShape {
                    name: vname(i, o.alt_names),
                    data: if nv > 20 && i > 3 && i + 3 < nv { VData::Unit } else { gen_vdata(rng, d, o) },
                })
                .collect();
            Shape::Enum(tname(rng, o.alt_names), vs)
        }
    }
}

/// Same tree with every struct / field / variant name replaced (C02 metamorphic check).
pub fn rename(s: &Shape) -> Shape {
    fn rn(n: Name) -> Name {
        if let Some(i) = TYPE_POOL.iter().position(|x| *x == n) {
            TYPE_POOL_ALT[i]
        } else {
            "Renamed"
        }
    }
    fn rl(v: &[Shape]) -> Vec<Shape> {
        v.iter().map(rename).collect()
    }
    fn rf(v: &[(Name, Shape)]) -> Vec<(Name, Shape)> {
        v.iter().enumerate().map(|(i, (_, s))| (FIELD_POOL_ALT[i % 64], rename(s))).collect()
    }
    match s {
        Shape::Option(a) => Shape::Option(Box::new(rename(a))),
        Shape::Seq(a) => Shape::Seq(Box::new(rename(a))),
        Shape::Map(k, v) => Shape::Map(Box::new(rename(k)), Box::new(rename(v))),
        Shape::Tuple(v) => Shape::Tuple(rl(v)),
        Shape::UnitStruct(n) => Shape::UnitStruct(rn(n)),
        Shape::NewtypeStruct(n, a) => Shape::NewtypeStruct(rn(n), Box::new(rename(a))),
        Shape::TupleStruct(n, v) => Shape::TupleStruct(rn(n), rl(v)),
        Shape::Struct(n, f) => Shape::Struct(rn(n), rf(f)),
        Shape::Enum(n, vs) => Shape::Enum(
            rn(n),
            vs.iter()
                .enumerate()
                .map(|(i, v)| VariantShape {
                    name: variant_name_alt(i),
                    data: match &v.data {
                        VData::Unit => VData::Unit,
                        VData::Newtype(s) => VData::Newtype(Box::new(rename(s))),
                        VData::Tuple(t) => VData::Tuple(rl(t)),
                        VData::Struct(f) => VData::Struct(rf(f)),
                    },
                })
                .collect(),
        ),
        other => other.clone(),
    }
}

/// Re-label a value generated for `from` so that it is a value of `rename(from)`.
pub fn rename_val(shape_renamed: &Shape, v: &Val) -> Val {
    match (shape_renamed, v) {
        (Shape::Option(a), Val::Some(x)) => Val::Some(Box::new(rename_val(a, x))),
        (Shape::Seq(a), Val::Seq(x)) => Val::Seq(x.iter().map(|i| rename_val(a, i)).collect()),
        (Shape::Map(k, vv), Val::Map(m)) => {
            Val::Map(m.iter().map(|(a, b)| (rename_val(k, a), rename_val(vv, b))).collect())
        }
        (Shape::Tuple(f), Val::Tuple(x)) => Val::Tuple(f.iter().zip(x).map(|(s, i)| rename_val(s, i)).collect()),
        (Shape::UnitStruct(n), Val::UnitStruct(_)) => Val::UnitStruct(n),
        (Shape::NewtypeStruct(n, a), Val::NewtypeStruct(_, x)) => Val::NewtypeStruct(n, Box::new(rename_val(a, x))),
        (Shape::TupleStruct(n, f), Val::TupleStruct(_, x)) => {
            Val::TupleStruct(n, f.iter().zip(x).map(|(s, i)| rename_val(s, i)).collect())
        }
        (Shape::Struct(n, f), Val::Struct(_, x)) => {
            Val::Struct(n, f.iter().zip(x).map(|((fnm, s), (_, i))| (*fnm, rename_val(s, i))).collect())
        }
        (Shape::Enum(n, vs), Val::UnitVariant(_, i, _)) => Val::UnitVariant(n, *i, vs[*i as usize].name),
        (Shape::Enum(n, vs), Val::NewtypeVariant(_, i, _, x)) => match &vs[*i as usize].data {
            VData::Newtype(s) => Val::NewtypeVariant(n, *i, vs[*i as usize].name, Box::new(rename_val(s, x))),
            _ => v.clone(),
        },
        (Shape::Enum(n, vs), Val::TupleVariant(_, i, _, x)) => match &vs[*i as usize].data {
            VData::Tuple(f) => {
                Val::TupleVariant(n, *i, vs[*i as usize].name, f.iter().zip(x).map(|(s, i)| rename_val(s, i)).collect())
            }
            _ => v.clone(),
        },
        (Shape::Enum(n, vs), Val::StructVariant(_, i, _, x)) => match &vs[*i as usize].data {
            VData::Struct(f) => Val::StructVariant(
                n,
                *i,
                vs[*i as usize].name,
                f.iter().zip(x).map(|((fnm, s), (_, i))| (*fnm, rename_val(s, i))).collect(),
            ),
            _ => v.clone(),
        },
        _ => v.clone(),
    }
}

// ------------------------------------------------------------------ scalar generators

/// Boundary-structured unsigned integer of `bits` bits.
pub fn gen_uint(rng: &mut Rng, bits: u32) -> u128 {
    let max: u128 = if bits == 128 { u128::MAX } else { (1u128 << bits) - 1 };
    let v = match rng.below(12) {
        0 => 0,
        1 => 1,
        2 => max,
        3 => max - 1,
        4 => {
            // 2^k - 1, 2^k, 2^k + 1
            let k = rng.below(bits as u64) as u32;
            let p = 1u128 << k;
            match rng.below(3) {
                0 => p.wrapping_sub(1),
                1 => p,
                _ => p.wrapping_add(1),
            }
        }
        5 => {
            // 7-bit group boundaries
            let j = 1 + rng.below(((bits + 6) / 7) as u64) as u32;
            let sh = (7 * j).min(127);
            let p = 1u128 << sh;
            match rng.below(3) {
                0 => p.wrapping_sub(1),
                1 => p,
                _ => p.wrapping_add(1),
            }
        }
        6 | 7 | 8 => {
            // log-uniform bit length
            let k = 1 + rng.below(bits as u64) as u32;
            let r = rng.u128();
            if k == 128 {
                r
            } else {
                (r & ((1u128 << k) - 1)) | (1u128 << (k - 1))
            }
        }
        9 => rng.below(300) as u128,
        _ => rng.u128(),
    };
    v & max
}

pub fn gen_int(rng: &mut Rng, bits: u32) -> i128 {
    let min: i128 = if bits == 128 { i128::MIN } else { -(1i128 << (bits - 1)) };
    let max: i128 = if bits == 128 { i128::MAX } else { (1i128 << (bits - 1)) - 1 };
    match rng.below(10) {
        0 => 0,
        1 => -1,
        2 => min,
        3 => max,
        4 => min + 1,
        5 => {
            let k = rng.below((bits - 1) as u64) as u32;
            let p = 1i128 << k;
            let v = match rng.below(3) {
                0 => p - 1,
                1 => p,
                _ => p + 1,
            };
            let v = if rng.chance(1, 2) { -v } else { v };
            v.clamp(min, max)
        }
        6 => {
            // zig-zag 7-bit group boundaries: +-64, +-8192, ...
            let j = 1 + rng.below(((bits + 6) / 7) as u64) as u32;
            let sh = (7 * j - 1).min(bits - 2);
            let p = 1i128 << sh;
            let v = match rng.below(4) {
                0 => p - 1,
                1 => p,
                2 => -p,
                _ => -p - 1,
            };
            v.clamp(min, max)
        }
        7 => (rng.below(200) as i128) - 100,
        _ => {
            let u = gen_uint(rng, bits);
            // reinterpret as two's complement of `bits`
            if bits == 128 {
                u as i128
            } else {
                let sign = 1u128 << (bits - 1);
                if u & sign != 0 {
                    (u as i128) - (1i128 << bits)
                } else {
                    u as i128
                }
            }
        }
    }
}

pub const F32_SPECIALS: [u32; 16] = [
    0x0000_0000, // +0
    0x8000_0000, // -0
    0x0000_0001, // min subnormal
    0x007F_FFFF, // max subnormal
    0x0080_0000, // min normal
    0x7F7F_FFFF, // max normal
    0x7F80_0000, // +inf
    0xFF80_0000, // -inf
    0x7FC0_0000, // quiet NaN
    0xFFC0_0000, // -quiet NaN
    0x7F80_0001, // signalling NaN
    0x7FA0_0000, // signalling NaN with payload
    0x7FFF_FFFF, // NaN all ones
    0x3F80_0000, // 1.0
    0xC200_0600, // spec example
    0x8000_0001,
];
pub const F64_SPECIALS: [u64; 16] = [
    0,
    0x8000_0000_0000_0000,
    1,
    0x000F_FFFF_FFFF_FFFF,
    0x0010_0000_0000_0000,
    0x7FEF_FFFF_FFFF_FFFF,
    0x7FF0_0000_0000_0000,
    0xFFF0_0000_0000_0000,
    0x7FF8_0000_0000_0000,
    0xFFF8_0000_0000_0000,
    0x7FF0_0000_0000_0001,
    0x7FF4_0000_0000_0000,
    0x7FFF_FFFF_FFFF_FFFF,
    0x3FF0_0000_0000_0000,
    0xC040_00C0_0000_0000,
    0x8000_0000_0000_0001,
];

pub fn gen_f32(rng: &mut Rng) -> u32 {
    match rng.below(4) {
        0 => *rng.pick(&F32_SPECIALS),
        1 => 0x7F80_0000 | (rng.next() as u32 & 0x807F_FFFF) | 1, // NaN with random payload/sign
        _ => rng.next() as u32,
    }
}
pub fn gen_f64(rng: &mut Rng) -> u64 {
    match rng.below(4) {
        0 => *rng.pick(&F64_SPECIALS),
        1 => 0x7FF0_0000_0000_0000 | (rng.next() & 0x800F_FFFF_FFFF_FFFF) | 1,
        _ => rng.next(),
    }
}

pub fn gen_char(rng: &mut Rng) -> char {
    loop {
        let c = match rng.below(8) {
            0 => rng.below(0x80) as u32,
            1 => 0x80 + rng.below(0x800 - 0x80) as u32,
            2 => 0x800 + rng.below(0x10000 - 0x800) as u32,
            3 => 0x10000 + rng.below(0x110000 - 0x10000) as u32,
            4 => *rng.pick(&[0u32, 0x7F, 0x80, 0x7FF, 0x800, 0xD7FF, 0xE000, 0xFFFF, 0x10000, 0x10FFFF]),
            _ => rng.below(0x110000) as u32,
        };
        if let Some(c) = char::from_u32(c) {
            return c;
        }
    }
}

pub fn gen_string(rng: &mut Rng, max_len: usize) -> String {
    let target = match rng.below(12) {
        0 => 0,
        1 => 1,
        2 => rng.range(126, 130),
        3 if max_len >= 16390 => rng.range(16380, 16388),
        4 => rng.range(250, 260),
        _ => rng.range(0, 24),
    }
    .min(max_len);
    let mut s = String::with_capacity(target + 4);
    let ascii_only = rng.chance(1, 2);
    while s.len() < target {
        if ascii_only || target - s.len() < 4 {
            s.push((b'a' + rng.below(26) as u8) as char);
        } else {
            s.push(gen_char(rng));
        }
    }
    s
}

pub fn gen_bytes_val(rng: &mut Rng, max_len: usize) -> Vec<u8> {
    let n = match rng.below(10) {
        0 => 0,
        1 => rng.range(126, 130),
        2 => rng.range(250, 260),
        3 if max_len >= 16390 => rng.range(16380, 16388),
        _ => rng.range(0, 20),
    }
    .min(max_len);
    let mut b = rng.bytes(n);
    if rng.chance(1, 3) {
        // sprinkle zeros (COBS-relevant)
        for x in b.iter_mut() {
            if rng.chance(1, 4) {
                *x = 0;
            }
        }
    }
    b
}

/// Budget-limited value generation.
pub struct ValGen<'r> {
    pub rng: &'r mut Rng,
    /// remaining node budget
    pub budget: i64,
    /// maximum collection length in the common case
    pub max_len: usize,
    /// allow occasional very long collections (300, 20000)
    pub long: bool,
    pub max_str: usize,
}

impl<'r> ValGen<'r> {
    pub fn new(rng: &'r mut Rng) -> Self {
        ValGen { rng, budget: 4000, max_len: 40, long: true, max_str: 20000 }
    }
    pub fn small(rng: &'r mut Rng) -> Self {
        ValGen { rng, budget: 300, max_len: 6, long: false, max_str: 300 }
    }
    fn coll_len(&mut self, elem_nodes: usize) -> usize {
        if self.budget <= 0 {
            return 0;
        }
        let r = self.rng.below(20);
        let n = match r {
            0 | 1 => 0,
            2 => 1,
            3 if self.long && elem_nodes <= 2 => *self.rng.pick(&[127usize, 128, 129, 300]),
            4 if self.long && elem_nodes == 1 && self.rng.chance(1, 8) => 20000,
            _ => self.rng.range(0, self.max_len),
        };
        let cap = (self.budget.max(0) as usize / elem_nodes.max(1)).max(0);
        n.min(cap.max(if r == 4 { 0 } else { 0 }))
    }
    pub fn gen(&mut self, s: &Shape) -> Val {
        self.budget -= 1;
        let rng = &mut *self.rng;
        match s {
            Shape::Bool => Val::Bool(rng.chance(1, 2)),
            Shape::I8 => Val::I8(gen_int(rng, 8) as i8),
            Shape::I16 => Val::I16(gen_int(rng, 16) as i16),
            Shape::I32 => Val::I32(gen_int(rng, 32) as i32),
            Shape::I64 | Shape::Isize => Val::I64(gen_int(rng, 64) as i64),
            Shape::I128 => Val::I128(gen_int(rng, 128)),
            Shape::U8 => Val::U8(gen_uint(rng, 8) as u8),
            Shape::U16 => Val::U16(gen_uint(rng, 16) as u16),
            Shape::U32 => Val::U32(gen_uint(rng, 32) as u32),
            Shape::U64 | Shape::Usize => Val::U64(gen_uint(rng, 64) as u64),
            Shape::U128 => Val::U128(gen_uint(rng, 128)),
            Shape::F32 => Val::F32(gen_f32(rng)),
            Shape::F64 => Val::F64(gen_f64(rng)),
            Shape::Char => Val::Char(gen_char(rng)),
            Shape::Str => {
                let m = self.max_str;
                let st = gen_string(rng, m);
                self.budget -= (st.len() / 64) as i64;
                Val::Str(st)
            }
            Shape::Bytes => {
                let m = self.max_str;
                let b = gen_bytes_val(rng, m);
                self.budget -= (b.len() / 64) as i64;
                Val::Bytes(b)
            }
            Shape::Option(a) => {
                if rng.chance(1, 3) || self.budget <= 0 {
                    Val::None
                } else {
                    Val::Some(Box::new(self.gen(a)))
                }
            }
            Shape::Unit => Val::Unit,
            Shape::UnitStruct(n) => Val::UnitStruct(n),
            Shape::NewtypeStruct(n, a) => Val::NewtypeStruct(n, Box::new(self.gen(a))),
            Shape::Seq(e) => {
                let n = self.coll_len(e.nodes());
                Val::Seq((0..n).map(|_| self.gen(e)).collect())
            }
            Shape::Tuple(f) => Val::Tuple(f.iter().map(|x| self.gen(x)).collect()),
            Shape::TupleStruct(n, f) => Val::TupleStruct(n, f.iter().map(|x| self.gen(x)).collect()),
            Shape::Map(k, v) => {
                let n = self.coll_len(k.nodes() + v.nodes());
                Val::Map((0..n).map(|_| (self.gen(k), self.gen(v))).collect())
            }
            Shape::Struct(n, f) => Val::Struct(n, f.iter().map(|(fnm, x)| (*fnm, self.gen(x))).collect()),
            Shape::Enum(n, vs) => {
                let i = rng.below(vs.len() as u64) as usize;
                self.gen_variant(n, vs, i)
            }
        }
    }
    pub fn gen_variant(&mut self, n: Name, vs: &[VariantShape], i: usize) -> Val {
        let v = &vs[i];
        match &v.data {
            VData::Unit => Val::UnitVariant(n, i as u32, v.name),
            VData::Newtype(a) => Val::NewtypeVariant(n, i as u32, v.name, Box::new(self.gen(a))),
            VData::Tuple(f) => Val::TupleVariant(n, i as u32, v.name, f.iter().map(|x| self.gen(x)).collect()),
            VData::Struct(f) => {
                Val::StructVariant(n, i as u32, v.name, f.iter().map(|(fnm, x)| (*fnm, self.gen(x))).collect())
            }
        }
    }
}

// ------------------------------------------------------------------ hostile byte strings

/// All non-minimal re-encodings of the varint at (off,len,bits): same value, padded with
/// 0x80.. 0x00 up to the maximum permitted length (accepted) and one beyond (rejected).
/// Returns (new message bytes, still_valid).
pub fn repad_varint(msg: &[u8], off: usize, len: usize, bits: u32) -> Vec<(Vec<u8>, bool)> {
    let max_len = spec::varint_max_len(bits);
    let mut out = Vec::new();
    let original = &msg[off..off + len];
    for new_len in (len + 1)..=(max_len + 1) {
        let mut v = original.to_vec();
        let last = v.len() - 1;
        v[last] |= 0x80;
        while v.len() < new_len - 1 {
            v.push(0x80);
        }
        v.push(0x00);
        let mut m = msg[..off].to_vec();
        m.extend_from_slice(&v);
        m.extend_from_slice(&msg[off + len..]);
        out.push((m, new_len <= max_len));
    }
    out
}

pub const SUBST: [u8; 7] = [0x00, 0x01, 0x02, 0x7F, 0x80, 0xFF, 0xFE];

/// Adversarial length values for length-prefix positions.
pub fn hostile_lengths(rng: &mut Rng, remaining: usize) -> Vec<u64> {
    let mut v = vec![
        u64::MAX,
        u64::MAX - 1,
        i64::MAX as u64,
        (i64::MAX as u64) + 1,
        u32::MAX as u64,
        (u32::MAX as u64) + 1,
        1 << 20,
        (1 << 20) + 1,
        1 << 24,
        1 << 31,
        1 << 40,
        (1u64 << 56) - 1,
        remaining as u64,
        remaining as u64 + 1,
        remaining.saturating_sub(1) as u64,
        (1u64 << 63) / 8,
        u64::MAX / 8,
        u64::MAX / 8 + 1,
        u64::MAX / 32,
    ];
    // lengths that make `pointer + length` wrap around the address space and land near / inside the buffer again
    v.push(u64::MAX - rng.below(4096));
    v.push(u64::MAX - rng.below(1 << 20));
    v.push(u64::MAX - (1u64 << 47) + rng.below(1 << 20));
    v.push(0u64.wrapping_sub(remaining as u64 + rng.below(16)));
    let k = rng.below(64) as u32;
    v.push(1u64 << k);
    v.push((1u64 << k).wrapping_sub(1));
    v.push((1u64 << k).wrapping_add(1));
    v
}

pub fn varint_bytes(v: u128) -> Vec<u8> {
    let mut o = Vec::new();
    spec::varint(v, &mut o);
    o
}

// ------------------------------------------------------------------ deep nesting ("nested to any depth")

/// A shape nested `depth` levels deep through one kind of wrapper, with a value that
/// actually goes all the way down.  kinds: 0 option, 1 seq, 2 newtype struct, 3 enum newtype
/// variant, 4 string-keyed map, 5 one-field struct, 6 mixed.
pub fn deep_case(kind: usize, depth: usize) -> (Shape, Val) {
    let mut shape = Shape::U16;
    let mut val = Val::U16(40000);
    for level in 0..depth {
        let k = if kind == 6 { level % 6 } else { kind };
        let (s, v) = match k {
            0 => (Shape::Option(Box::new(shape)), Val::Some(Box::new(val))),
            1 => (Shape::Seq(Box::new(shape)), Val::Seq(vec![val])),
            2 => (Shape::NewtypeStruct("T0", Box::new(shape)), Val::NewtypeStruct("T0", Box::new(val))),
            3 => (
                Shape::Enum("T1", vec![VariantShape { name: "V0", data: VData::Unit }, VariantShape { name: "V1", data: VData::Newtype(Box::new(shape)) }]),
                Val::NewtypeVariant("T1", 1, "V1", Box::new(val)),
            ),
            4 => (Shape::Map(Box::new(Shape::Str), Box::new(shape)), Val::Map(vec![(Val::Str("k".into()), val)])),
            _ => (Shape::Struct("T2", vec![("f0", Shape::U8), ("f1", shape)]), Val::Struct("T2", vec![("f0", Val::U8(level as u8)), ("f1", val)])),
        };
        shape = s;
        val = v;
    }
    (shape, val)
}

pub const DEEP_DEPTHS: [usize; 4] = [65, 129, 200, 300];
