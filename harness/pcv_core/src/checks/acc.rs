//! C08 (accumulator delivers every frame exactly once under any chunking) and C09
//! (accumulator survives overflow / garbage and resyncs).  Every `feed` / `feed_ref` call is
//! recorded at the API boundary and checked online against a small sequential model, using
//! the read-only `verif_buffered` hook to observe the accumulator's state after each call.

use super::common::*;
use crate::bridge::{take_strs, with_shape, DynVal};
use crate::gen::*;
use crate::json::{hex, unhex, J};
use crate::mem::catch;
use crate::model::*;
use crate::refs::{cobs_decode_frame, cobs_encode, CobsRef};
use crate::rng::{fp, fp_mix, Rng};
use crate::run::*;
use crate::spec;
use postcard::accumulator::{CobsAccumulator, FeedResult};
use serde::{Deserialize, Serialize};

#[derive(Clone, Debug, PartialEq)]
pub enum Expect {
    Success(Val),
    DeserError,
}

/// What decoding one zero-terminated segment in isolation gives (reference COBS + reference decoder).
pub fn isolated(shape: &Shape, seg_without_zero: &[u8]) -> Expect {
    match cobs_decode_frame(seg_without_zero) {
        CobsRef::Bad => Expect::DeserError,
        CobsRef::Ok(payload) => match spec::decode(shape, &payload) {
            Ok(d) => Expect::Success(d.val),
            Err(_) => Expect::DeserError,
        },
    }
}

#[derive(Clone, Copy, Debug, PartialEq, Eq)]
enum Variant {
    Consumed,
    OverFull,
    DeserError,
    Success,
}

struct CallRec {
    variant: Variant,
    /// bytes of the window consumed by this call
    consumed: usize,
    data: Option<Val>,
}

#[derive(Default)]
struct RunObs {
    calls: u64,
    consumed_v: u64,
    overfull_v: u64,
    deser_v: u64,
    success_v: u64,
    midframe_boundaries: u64,
    borrowed_checked: u64,
    empty_feeds: u64,
}

fn mk_replay(n: usize, text: &str, stream: &[u8], chunks: &[usize], use_ref: bool, prop: &str) -> Vec<(String, String)> {
    vec![
        kv("kind", "acc"),
        kv("prop", prop),
        kv("capacity", n.to_string()),
        kv("shape", text),
        kv("stream", hex(stream)),
        kv("chunks", chunks.iter().map(|c| c.to_string()).collect::<Vec<_>>().join(",")),
        kv("mode", if use_ref { "feed_ref" } else { "feed" }),
    ]
}

/// One feed call, classified.  `window` offsets are relative to itself.
fn do_feed<const N: usize>(acc: &mut CobsAccumulator<N>, window: &[u8], use_ref: bool) -> Result<CallRec, String> {
    let wptr = window.as_ptr() as usize;
    let wlen = window.len();
    let suffix = |r: &[u8]| -> Result<usize, String> {
        let rp = r.as_ptr() as usize;
        if rp >= wptr && rp + r.len() == wptr + wlen {
            Ok(wlen - r.len())
        } else {
            Err(format!("returned remainder (offset {}, len {}) is not a suffix of the {}-byte window", rp.wrapping_sub(wptr) as isize, r.len(), wlen))
        }
    };
    let res: FeedResult<DynVal> = if use_ref { acc.feed_ref::<DynVal>(window) } else { acc.feed::<DynVal>(window) };
    Ok(match res {
        FeedResult::Consumed => CallRec { variant: Variant::Consumed, consumed: wlen, data: None },
        FeedResult::OverFull(r) => CallRec { variant: Variant::OverFull, consumed: suffix(r)?, data: None },
        FeedResult::DeserError(r) => CallRec { variant: Variant::DeserError, consumed: suffix(r)?, data: None },
        FeedResult::Success { data, remaining } => CallRec { variant: Variant::Success, consumed: suffix(remaining)?, data: Some(data.0) },
    })
}

/// C08: run one (stream, chunking) through the documented loop and check every call against
/// the sequential model.  Returns Err((signature, message)) on the first violation.
fn c08_run<const N: usize>(shape: &Shape, stream: &[u8], chunks: &[usize], use_ref: bool, expected: &[Expect], obs: &mut RunObs) -> Result<(), (String, String)> {
    let mut acc: CobsAccumulator<N> = CobsAccumulator::new();
    let mut pending: Vec<u8> = Vec::new();
    let mut zi = 0usize;
    let mut off = 0usize;
    for &cl in chunks {
        let chunk = &stream[off..off + cl];
        if off > 0 && !pending.is_empty() {
            obs.midframe_boundaries += 1;
        }
        off += cl;
        if cl == 0 {
            // a feed call that carries no bytes: nothing to report, nothing may change
            let rec = do_feed::<N>(&mut acc, chunk, use_ref).map_err(|m| ("C08:remainder-not-suffix".to_string(), m))?;
            obs.calls += 1;
            obs.empty_feeds += 1;
            let _ = take_strs();
            if rec.variant != Variant::Consumed {
                return Err(("C08:unexpected-result-without-terminator".into(), format!("an empty feed call (pending {} of capacity {}) gave {:?}", pending.len(), N, rec.variant)));
            }
            if acc.verif_buffered() != &pending[..] {
                return Err((
                    "C08:buffered-state-differs-from-model".into(),
                    format!("after an empty feed call the accumulator buffers {} but the model expects {}", hexs(acc.verif_buffered()), hexs(&pending)),
                ));
            }
            continue;
        }
        let mut window = chunk;
        let mut calls = 0usize;
        while !window.is_empty() {
            calls += 1;
            if calls > 2 * cl + 2 {
                return Err(("C08:feed-loop-does-not-progress".into(), format!("more than {} feed calls for a {}-byte chunk", 2 * cl + 2, cl)));
            }
            let buf_ptr = acc.verif_buffered().as_ptr() as usize;
            let rec = do_feed::<N>(&mut acc, window, use_ref).map_err(|m| ("C08:remainder-not-suffix".to_string(), m))?;
            obs.calls += 1;
            let strs = take_strs();
            let zp = window.iter().position(|b| *b == 0);
            match zp {
                None => {
                    pending.extend_from_slice(window);
                    if rec.variant != Variant::Consumed {
                        return Err((
                            "C08:unexpected-result-without-terminator".into(),
                            format!("window without a zero byte (pending {} of capacity {}) gave {:?}", pending.len(), N, rec.variant),
                        ));
                    }
                    obs.consumed_v += 1;
                }
                Some(n) => {
                    if rec.variant == Variant::Consumed {
                        return Err(("C08:frame-not-reported".into(), format!("window containing a zero byte at {} was reported as Consumed", n)));
                    }
                    if rec.consumed != n + 1 {
                        return Err((
                            "C08:bytes-lost-or-duplicated".into(),
                            format!("call consumed {} bytes of the window but the first zero byte is at offset {} (must consume exactly {})", rec.consumed, n, n + 1),
                        ));
                    }
                    let mut seg = std::mem::take(&mut pending);
                    seg.extend_from_slice(&window[..n]);
                    let want = expected.get(zi).cloned().unwrap_or(Expect::DeserError);
                    zi += 1;
                    match (&want, rec.variant, &rec.data) {
                        (Expect::Success(v), Variant::Success, Some(d)) if v == d => {
                            obs.success_v += 1;
                            if use_ref {
                                // borrowed strings must live inside the accumulator's buffer
                                for (p, l, borrowed) in &strs {
                                    if *borrowed {
                                        obs.borrowed_checked += 1;
                                        if *p < buf_ptr || p + l > buf_ptr + N {
                                            return Err(("C08:borrow-outside-accumulator".into(), "feed_ref returned data borrowed from outside the accumulator buffer".into()));
                                        }
                                    }
                                }
                            }
                        }
                        (Expect::DeserError, Variant::DeserError, _) => obs.deser_v += 1,
                        (w, got, d) => {
                            return Err((
                                format!("C08:wrong-result:{:?}-instead-of-{}", got, if matches!(w, Expect::Success(_)) { "Success" } else { "DeserError" }),
                                format!(
                                    "segment #{} ({} bytes + sentinel: {}) gave {:?}{} but decoding it in isolation gives {}",
                                    zi - 1,
                                    seg.len(),
                                    hexs(&seg),
                                    got,
                                    d.as_ref().map(|v| format!("({})", v.show())).unwrap_or_default(),
                                    match w {
                                        Expect::Success(v) => format!("Success({})", v.show()),
                                        Expect::DeserError => "a deserialisation error".into(),
                                    }
                                ),
                            ));
                        }
                    }
                }
            }
            // state hook: buffered bytes == model's pending bytes
            let buffered = acc.verif_buffered();
            if buffered != &pending[..] {
                return Err((
                    "C08:buffered-state-differs-from-model".into(),
                    format!("after the call the accumulator buffers {} but the model expects {}", hexs(buffered), hexs(&pending)),
                ));
            }
            if rec.variant == Variant::Consumed {
                break;
            }
            window = &window[rec.consumed..];
        }
    }
    if zi != expected.len() {
        return Err(("C08:frame-count-differs".into(), format!("{} results reported for {} zero bytes", zi, expected.len())));
    }
    Ok(())
}

/// C09: invariants only (the statement does not pin how overflow drops bytes).
fn c09_run<const N: usize>(shape: &Shape, stream: &[u8], chunks: &[usize], use_ref: bool, valid_after_zero: &[(usize, usize, Val)], obs: &mut RunObs) -> Result<(), (String, String)> {
    let _ = shape;
    let mut acc: CobsAccumulator<N> = CobsAccumulator::new();
    let mut off = 0usize;
    // per stream offset: which call consumed it and what that call returned
    let mut calls: Vec<(usize, usize, Variant, Option<Val>)> = Vec::new(); // (start, end, variant, data) in stream coordinates
    for &cl in chunks {
        let chunk = &stream[off..off + cl];
        let chunk_off = off;
        off += cl;
        let mut window = chunk;
        let mut woff = chunk_off;
        let mut n_calls = 0usize;
        let mut last_unshortened = false;
        if cl == 0 {
            // a feed call that carries no bytes must not disturb the frame being collected
            let before = acc.verif_buffered().len();
            let rec = do_feed::<N>(&mut acc, chunk, use_ref).map_err(|m| ("C09:remainder-not-suffix".to_string(), m))?;
            obs.calls += 1;
            obs.empty_feeds += 1;
            let _ = take_strs();
            if rec.variant != Variant::Consumed || acc.verif_buffered().len() != before {
                return Err((
                    "C09:empty-feed-changes-state".into(),
                    format!("an empty feed call gave {:?} and changed the buffered length from {} to {}", rec.variant, before, acc.verif_buffered().len()),
                ));
            }
            continue;
        }
        while !window.is_empty() {
            n_calls += 1;
            if n_calls > 2 * cl + 2 {
                return Err(("C09:feed-loop-does-not-progress".into(), format!("more than {} feed calls for a {}-byte chunk (capacity {})", 2 * cl + 2, cl, N)));
            }
            let rec = do_feed::<N>(&mut acc, window, use_ref).map_err(|m| ("C09:remainder-not-suffix".to_string(), m))?;
            obs.calls += 1;
            let _ = take_strs();
            match rec.variant {
                Variant::Consumed => obs.consumed_v += 1,
                Variant::OverFull => obs.overfull_v += 1,
                Variant::DeserError => obs.deser_v += 1,
                Variant::Success => obs.success_v += 1,
            }
            let buffered = acc.verif_buffered().len();
            if buffered > N {
                return Err(("C09:buffered-exceeds-capacity".into(), format!("{} bytes buffered with capacity {}", buffered, N)));
            }
            let consumed_zero = window[..rec.consumed].contains(&0);
            if consumed_zero && buffered != 0 {
                return Err((
                    "C09:not-reset-after-zero".into(),
                    format!("a call consumed a zero byte (result {:?}) but {} bytes are still buffered", rec.variant, buffered),
                ));
            }
            if consumed_zero && rec.variant == Variant::Consumed {
                return Err(("C09:zero-byte-swallowed".into(), "a window containing a zero byte was reported as Consumed".into()));
            }
            if rec.consumed == 0 {
                if last_unshortened {
                    return Err(("C09:feed-loop-does-not-progress".into(), "two consecutive calls returned the window unshortened".into()));
                }
                last_unshortened = true;
            } else {
                last_unshortened = false;
            }
            calls.push((woff, woff + rec.consumed, rec.variant, rec.data));
            if rec.variant == Variant::Consumed {
                break;
            }
            woff += rec.consumed;
            window = &window[rec.consumed..];
        }
    }
    // (3) every over-long segment has an OverFull at or before the call consuming its sentinel
    let mut seg_start = 0usize;
    for (i, b) in stream.iter().enumerate() {
        if *b == 0 {
            let seg_len = i - seg_start + 1;
            if seg_len > N {
                // a call "consumes bytes of the segment" when its consumed range [a, e) meets [seg_start, i];
                // a call that consumed nothing (unshortened OverFull) counts at its position
                let reported = calls.iter().any(|(a, e, v, _)| {
                    *v == Variant::OverFull && ((*a <= i && *e > seg_start) || (*a == *e && *a >= seg_start && *a <= i))
                });
                if !reported {
                    return Err((
                        "C09:overflow-not-reported".into(),
                        format!("segment at {}..={} is {} bytes (capacity {}) but no call consuming its bytes returned OverFull", seg_start, i, seg_len, N),
                    ));
                }
            }
            seg_start = i + 1;
        }
    }
    // (4) resync: valid frames that fit and directly follow a zero byte (or the stream start) are delivered
    for (start, end_zero, val) in valid_after_zero {
        let call = calls.iter().find(|(a, e, _, _)| *a <= *end_zero && *e > *end_zero);
        match call {
            Some((_, _, Variant::Success, Some(d))) if d == val => {}
            other => {
                return Err((
                    "C09:valid-frame-after-zero-not-delivered".into(),
                    format!(
                        "well-formed frame at {}..={} (fits capacity {}) following a zero byte was reported as {:?}",
                        start,
                        end_zero,
                        N,
                        other.map(|c| (c.2, c.3.as_ref().map(|v| v.show())))
                    ),
                ));
            }
        }
    }
    Ok(())
}

macro_rules! with_n {
    ($n:expr, $f:ident, $($args:expr),*) => {
        match $n {
            1 => $f::<1>($($args),*),
            2 => $f::<2>($($args),*),
            3 => $f::<3>($($args),*),
            4 => $f::<4>($($args),*),
            5 => $f::<5>($($args),*),
            6 => $f::<6>($($args),*),
            7 => $f::<7>($($args),*),
            8 => $f::<8>($($args),*),
            12 => $f::<12>($($args),*),
            16 => $f::<16>($($args),*),
            32 => $f::<32>($($args),*),
            64 => $f::<64>($($args),*),
            256 => $f::<256>($($args),*),
            _ => $f::<4096>($($args),*),
        }
    };
}

pub const N_MENU_C08: [usize; 10] = [4, 5, 6, 8, 12, 16, 32, 64, 256, 4096];
pub const N_MENU_C09: [usize; 8] = [1, 2, 3, 4, 5, 6, 8, 16];

/// Small target shapes whose frames are a few bytes long.
fn small_targets() -> Vec<Shape> {
    vec![
        Shape::Tuple(vec![Shape::U8, Shape::U16]),
        Shape::Struct("T0", vec![("f0", Shape::U8), ("f1", Shape::Option(Box::new(Shape::Bool)))]),
        Shape::Struct("T1", vec![("f0", Shape::U8), ("f1", Shape::Str), ("f2", Shape::Bytes)]),
        Shape::Unit,
        Shape::U8,
        Shape::Seq(Box::new(Shape::U8)),
    ]
}

pub struct BuiltStream {
    pub bytes: Vec<u8>,
    pub kinds: Vec<&'static str>,
}

/// Build a stream over the alphabet {valid frame, corrupt COBS, bad payload, empty frame, garbage};
/// every segment (incl. sentinel) and the unterminated tail fit `n` when `fit` is set, otherwise
/// over-long segments (n+1 .. 3n) are mixed in.
fn build_stream(rng: &mut Rng, shape: &Shape, n: usize, max_len: usize, fit: bool) -> BuiltStream {
    let mut bytes = Vec::new();
    let mut kinds = Vec::new();
    let mut tries = 0;
    while bytes.len() < max_len && tries < 40 {
        tries += 1;
        let kind = rng.below(if fit { 10 } else { 13 });
        let mut seg: Vec<u8> = match kind {
            0..=3 => {
                let mut g = ValGen::small(rng);
                g.max_len = 2;
                g.max_str = 3;
                let v = g.gen(shape);
                let mut f = cobs_encode(&spec::encode(&v));
                f.push(0);
                kinds.push("valid");
                f
            }
            4 => {
                // corrupt COBS: code byte pointing past the end
                let l = rng.range(1, 3);
                let mut f: Vec<u8> = (0..l).map(|_| 1 + (rng.next() % 250) as u8).collect();
                f[0] = (l + 1 + rng.below(3) as usize) as u8;
                f.push(0);
                kinds.push("corrupt_cobs");
                f
            }
            5 => {
                // valid COBS, payload that is not a value of the target type (usually)
                let l = rng.range(0, 2);
                let p = rng.bytes(l);
                let mut f = cobs_encode(&p);
                f.push(0);
                kinds.push("bad_payload");
                f
            }
            6 => {
                kinds.push("empty_frame");
                vec![0]
            }
            7 | 8 => {
                let l = rng.range(1, 4);
                let mut f: Vec<u8> = (0..l).map(|_| 1 + (rng.next() % 255) as u8).collect();
                f.push(0);
                kinds.push("garbage_terminated");
                f
            }
            9 => {
                // frame exactly filling / one short of the capacity
                let want_len = if rng.chance(1, 2) { n } else { n.saturating_sub(1) };
                if want_len >= 2 && want_len <= 200 {
                    let k = want_len - 2;
                    let mut f = vec![(k + 1) as u8];
                    f.extend((0..k).map(|_| 1 + (rng.next() % 255) as u8));
                    f.push(0);
                    kinds.push("garbage_exact_fit");
                    f
                } else {
                    kinds.push("empty_frame");
                    vec![0]
                }
            }
            _ => {
                // over-long segment
                let l = n + 1 + rng.below((2 * n) as u64 + 1) as usize;
                let mut f: Vec<u8> = (0..l - 1).map(|_| 1 + (rng.next() % 255) as u8).collect();
                f.push(0);
                kinds.push("over_long");
                f
            }
        };
        if fit && seg.len() > n {
            kinds.pop();
            continue;
        }
        if bytes.len() + seg.len() > max_len {
            kinds.pop();
            continue;
        }
        bytes.append(&mut seg);
    }
    // unterminated tail
    if rng.chance(1, 3) && bytes.len() < max_len {
        let room = (max_len - bytes.len()).min(if fit { n } else { 3 * n });
        if room > 0 {
            let l = rng.range(1, room);
            bytes.extend((0..l).map(|_| 1 + (rng.next() % 255) as u8));
            kinds.push("tail");
        }
    }
    BuiltStream { bytes, kinds }
}

fn expectations(shape: &Shape, stream: &[u8]) -> Vec<Expect> {
    let mut out = Vec::new();
    let mut start = 0;
    for (i, b) in stream.iter().enumerate() {
        if *b == 0 {
            out.push(isolated(shape, &stream[start..i]));
            start = i + 1;
        }
    }
    out
}

fn chunks_from_mask(len: usize, mask: u64) -> Vec<usize> {
    // bit k set => cut after byte k
    let mut out = Vec::new();
    let mut cur = 0usize;
    for k in 0..len {
        cur += 1;
        if k + 1 == len || (mask >> k) & 1 == 1 {
            out.push(cur);
            cur = 0;
        }
    }
    out
}

fn random_chunks(rng: &mut Rng, len: usize) -> Vec<usize> {
    let mut out = Vec::new();
    let mut left = len;
    let style = rng.below(4);
    // one run in three also makes feed calls that carry no bytes (a read that returned nothing)
    let empties = rng.chance(1, 3);
    while left > 0 {
        if empties && rng.chance(1, 4) {
            out.push(0);
        }
        let c = match style {
            0 => 1,
            1 => rng.range(1, 3.min(left)),
            2 => rng.range(1, left),
            _ => rng.range(1, 9.min(left)),
        };
        out.push(c);
        left -= c;
    }
    if empties && rng.chance(1, 2) {
        out.push(0);
    }
    out
}

/// The same chunking with an empty feed call before, between and after all chunks.
fn with_empty_calls(chunks: &[usize]) -> Vec<usize> {
    let mut out = vec![0];
    for c in chunks {
        out.push(*c);
        out.push(0);
    }
    out
}

/// Cross-check of the isolated-decode oracle against a fresh real `from_bytes_cobs` on a copy.
fn cross_check_isolated(t: &mut Tctx, shape: &Shape, stream: &[u8], expected: &[Expect]) {
    let mut start = 0;
    let mut zi = 0;
    for (i, b) in stream.iter().enumerate() {
        if *b == 0 {
            let mut copy = stream[start..=i].to_vec();
            let real = catch(|| with_shape(shape, || postcard::from_bytes_cobs::<DynVal>(&mut copy).map(|v| v.0)));
            let _ = take_strs();
            let agree = match (&expected[zi], &real) {
                (Expect::Success(v), Ok(Ok(r))) => v == r,
                (Expect::DeserError, Ok(Err(_))) => true,
                _ => false,
            };
            t.st.count("isolated_decode_cross_checks");
            if !agree {
                // the two oracles disagree: C06/C07 judge from_bytes_cobs; here it only means we cannot use this stream
                t.st.count("isolated_oracle_disagreements");
            }
            zi += 1;
            start = i + 1;
        }
    }
}

#[derive(Serialize, Deserialize, Debug, PartialEq)]
struct BorrowT<'a> {
    a: u8,
    s: &'a str,
    b: &'a [u8],
}

/// feed_ref with a genuinely buffer-borrowing target type
fn borrowed_lane(t: &mut Tctx) {
    let n_streams = t.cfg.scale(3, 2000, 40_000);
    for _ in 0..n_streams {
        if t.cfg.expired() {
            break;
        }
        let k = t.rng.range(1, 4);
        let mut vals = Vec::new();
        let mut stream = Vec::new();
        for _ in 0..k {
            let s = gen_string(&mut t.rng, 6);
            let b = t.rng.bytes(t.rng.clone().range(0, 5));
            let a = t.rng.next() as u8;
            let v = BorrowT { a, s: &s, b: &b };
            let f = postcard::to_allocvec_cobs(&v).unwrap_or_default();
            if f.len() > 64 {
                continue;
            }
            stream.extend_from_slice(&f);
            vals.push((a, s.clone(), b.clone()));
        }
        let chunks = random_chunks(&mut t.rng, stream.len());
        t.st.eval();
        t.st.nontrivial(fp_mix(fp(&stream), fp(&chunks.iter().map(|c| *c as u8).collect::<Vec<_>>())));
        let r = catch(|| {
            let mut acc: CobsAccumulator<64> = CobsAccumulator::new();
            let mut got = 0usize;
            let mut off = 0;
            for &cl in &chunks {
                let mut window = &stream[off..off + cl];
                off += cl;
                while !window.is_empty() {
                    let bufp = acc.verif_buffered().as_ptr() as usize;
                    window = match acc.feed_ref::<BorrowT>(window) {
                        FeedResult::Consumed => break,
                        FeedResult::OverFull(_) => return Err("OverFull for a fitting stream".to_string()),
                        FeedResult::DeserError(_) => return Err("DeserError for a valid frame".to_string()),
                        FeedResult::Success { data, remaining } => {
                            let (a, s, b) = &vals[got];
                            if data.a != *a || data.s != s || data.b != &b[..] {
                                return Err(format!("frame {} decoded to different contents", got));
                            }
                            let sp = data.s.as_ptr() as usize;
                            let bp = data.b.as_ptr() as usize;
                            if sp < bufp || sp + data.s.len() > bufp + 64 || bp < bufp || bp + data.b.len() > bufp + 64 {
                                return Err("borrowed data lies outside the accumulator buffer".to_string());
                            }
                            got += 1;
                            remaining
                        }
                    };
                }
            }
            if got != vals.len() {
                return Err(format!("{} frames delivered, {} sent", got, vals.len()));
            }
            Ok(())
        });
        t.st.count("borrowed_target_streams");
        match r {
            Ok(Ok(())) => {}
            Ok(Err(m)) => t.st.violation("C08:borrowed-target", m, vec![kv("kind", "acc-borrowed"), kv("stream", hex(&stream)), kv("chunks", format!("{:?}", chunks))]),
            Err(p) => t.st.violation("C08:panic", format!("feed_ref panicked: {}", p), vec![kv("kind", "acc-borrowed"), kv("stream", hex(&stream)), kv("chunks", format!("{:?}", chunks))]),
        }
    }
}


/// A message (tuple of `m` bytes) whose COBS frame is longer than 256 bytes and, when possible, starts with a code
/// byte equal to (frame length - 1) mod 256 - the coincidence a truncating length comparison would trip over.
fn long_frame_message(rng: &mut Rng, m: usize, coincidence: bool) -> Vec<u8> {
    let base: Vec<u8> = (0..m).map(|_| 1 + (rng.next() % 255) as u8).collect();
    if !coincidence {
        let mut b = base;
        for x in b.iter_mut() {
            if rng.chance(1, 90) {
                *x = 0;
            }
        }
        return b;
    }
    for p in 0..254usize.min(m) {
        let mut b = base.clone();
        b[p] = 0;
        let f = cobs_encode(&b);
        if f[0] == ((f.len() + 1 - 1) % 256) as u8 {
            return b;
        }
    }
    base
}

/// Long frames (250..700 bytes) at capacities 256 / 4096, alone and between short ones, under random chunkings.
fn long_frames_lane(t: &mut Tctx, prop: &str, states: &mut std::collections::HashSet<u64>) {
    let n = t.cfg.scale(2, 400, 8000);
    for i in 0..n {
        if t.cfg.expired() {
            break;
        }
        let m = t.rng.range(240, 700);
        let shape = Shape::Tuple((0..m).map(|_| Shape::U8).collect());
        let text = shape.text();
        let msg = long_frame_message(&mut t.rng, m, i % 2 == 0);
        let mut frame = cobs_encode(&msg);
        frame.push(0);
        let cap = if frame.len() <= 256 && t.rng.chance(1, 2) { 256 } else { 4096 };
        let mut stream = Vec::new();
        if t.rng.chance(1, 2) {
            stream.extend_from_slice(&[0x02, 0x07, 0x00]); // a short segment first (not a value of the long shape)
        }
        stream.extend_from_slice(&frame);
        if t.rng.chance(1, 2) {
            stream.extend_from_slice(&frame);
        }
        t.st.count("long_frame_streams");
        if prop == "C08" {
            let expected = expectations(&shape, &stream);
            for _ in 0..3 {
                let chunks = random_chunks(&mut t.rng, stream.len());
                t.st.nontrivial(fp_mix(fp(&stream), fp(&chunks.iter().map(|c| (*c % 251) as u8).collect::<Vec<_>>())));
                if !c08_one(t, cap, &shape, &text, &stream, &chunks, t.rng.clone().chance(1, 2), &expected, states) {
                    return;
                }
            }
        } else {
            let valid = valid_frames_after_zero(&shape, &stream, cap);
            t.st.add("valid_frames_after_zero", valid.len() as u64);
            for _ in 0..3 {
                let chunks = random_chunks(&mut t.rng, stream.len());
                t.st.nontrivial(fp_mix(fp(&stream), fp(&chunks.iter().map(|c| (*c % 251) as u8).collect::<Vec<_>>()) ^ cap as u64));
                if !c09_one(t, cap, &shape, &text, &stream, &chunks, t.rng.clone().chance(1, 2), &valid) {
                    return;
                }
            }
        }
    }
}

/// One accumulator instance that lives through very many overflows (more than 2^16 and, in the thorough tier,
/// more than 2^20) and must still deliver a well-formed frame afterwards.
fn long_lived_instance<const N: usize>(t: &mut Tctx, overflows: usize) {
    let mut acc: CobsAccumulator<N> = CobsAccumulator::new();
    let seg: Vec<u8> = (0..N + 1).map(|i| 1 + (i % 200) as u8).chain(std::iter::once(0)).collect();
    let frame: Vec<u8> = {
        let mut f = cobs_encode(&[0x2A]);
        f.push(0);
        f
    };
    let r = catch(|| -> Result<(u64, bool), String> {
        let mut seen = 0u64;
        for _ in 0..overflows {
            let mut window: &[u8] = &seg;
            let mut guard = 0;
            while !window.is_empty() {
                guard += 1;
                if guard > 2 * seg.len() + 2 {
                    return Err("feed loop does not progress".into());
                }
                window = match acc.feed::<u8>(window) {
                    FeedResult::Consumed => break,
                    FeedResult::OverFull(r) => {
                        seen += 1;
                        r
                    }
                    FeedResult::DeserError(r) => r,
                    FeedResult::Success { remaining, .. } => remaining,
                };
                if acc.verif_buffered().len() > N {
                    return Err("buffered bytes exceed the capacity".into());
                }
            }
        }
        // the smallest capacities hold only the frame of a zero-length value
        let delivered = if N >= 3 {
            matches!(acc.feed::<u8>(&frame), FeedResult::Success { data: 0x2A, remaining } if remaining.is_empty())
        } else {
            matches!(acc.feed::<()>(&[0x01, 0x00]), FeedResult::Success { data: (), remaining } if remaining.is_empty())
        };
        Ok((seen, delivered))
    });
    t.st.eval();
    t.st.count("long_lived_instances");
    let rp = vec![kv("kind", "acc-long-lived"), kv("capacity", N.to_string()), kv("overflows", overflows.to_string())];
    match r {
        Ok(Ok((seen, true))) if seen as usize >= overflows => t.st.add("result_overfull", seen),
        Ok(Ok((seen, delivered))) => t.st.violation("C09:valid-frame-after-zero-not-delivered", format!("capacity {}: after {} over-long segments ({} OverFull results) a well-formed frame was {}delivered", N, overflows, seen, if delivered { "" } else { "not " }), rp),
        Ok(Err(m)) => t.st.violation("C09:long-lived-instance", format!("capacity {}: {}", N, m), rp),
        Err(p) => t.st.violation("C09:panic", format!("capacity {}: feed panicked after many overflows on one instance: {}", N, p), rp),
    }
}

fn c08_one(t: &mut Tctx, n: usize, shape: &Shape, text: &str, stream: &[u8], chunks: &[usize], use_ref: bool, expected: &[Expect], states: &mut std::collections::HashSet<u64>) -> bool {
    t.st.eval();
    let mut obs = RunObs::default();
    let r = catch(|| with_shape(shape, || with_n!(n, c08_run, shape, stream, chunks, use_ref, expected, &mut obs)));
    t.st.add("feed_calls", obs.calls);
    t.st.add("result_consumed", obs.consumed_v);
    t.st.add("result_deser_error", obs.deser_v);
    t.st.add("result_success", obs.success_v);
    t.st.add("chunk_boundaries_mid_frame", obs.midframe_boundaries);
    t.st.add("borrowed_ranges_checked", obs.borrowed_checked);
    t.st.add("empty_feed_calls", obs.empty_feeds);
    // distinct (position, pending) states visited = distinct prefixes at chunk boundaries
    let sf = fp(stream);
    let mut off = 0;
    for c in chunks {
        off += c;
        states.insert(fp_mix(sf, off as u64 ^ ((n as u64) << 32)));
    }
    match r {
        Ok(Ok(())) => true,
        Ok(Err((sig, msg))) => {
            t.st.violation(&sig, format!("{} [capacity {}, target {}, stream {}, chunks {:?}, {}]", msg, n, text, hexs(stream), chunks, if use_ref { "feed_ref" } else { "feed" }), mk_replay(n, text, stream, chunks, use_ref, "C08"));
            false
        }
        Err(p) => {
            t.st.violation("C08:panic", format!("feed panicked: {} [capacity {}, target {}, stream {}, chunks {:?}]", p, n, text, hexs(stream), chunks), mk_replay(n, text, stream, chunks, use_ref, "C08"));
            false
        }
    }
}

pub fn run_c08(cfg: &Cfg) -> Report {
    let mut rep = Report::new("C08");
    if let Some(p) = &cfg.replay {
        rep.stats.merge(replay(cfg, p));
        rep.rule = "replay".into();
        return rep;
    }
    let s = parallel(cfg, 1, |t| {
        let targets = small_targets();
        let mut states = std::collections::HashSet::new();
        // (a) all chunkings of short streams
        let (short_len, n_short) = match t.cfg.tier {
            Tier::Tiny => (6usize, 2u64),
            Tier::Quick => (12, 60),
            Tier::Thorough => (16, 64),
        };
        for si in 0..n_short {
            if t.cfg.expired() {
                break;
            }
            let shape = targets[t.rng.below(targets.len() as u64) as usize].clone();
            let text = shape.text();
            let n = N_MENU_C08[t.rng.below(5) as usize]; // small capacities for short streams
            let len = if si % 3 == 0 { short_len } else { t.rng.range(2, short_len) };
            let st = build_stream(&mut t.rng, &shape, n, len, true);
            if st.bytes.is_empty() {
                continue;
            }
            for k in &st.kinds {
                t.st.count(&format!("segment_{}", k));
            }
            let expected = expectations(&shape, &st.bytes);
            cross_check_isolated(t, &shape, &st.bytes, &expected);
            let l = st.bytes.len();
            let total: u64 = 1u64 << (l - 1);
            let mut ok = true;
            for mask in 0..total {
                let chunks = chunks_from_mask(l, mask);
                let use_ref = mask % 2 == 1;
                t.st.nontrivial(fp_mix(fp(&st.bytes), mask ^ ((n as u64) << 40)));
                if !c08_one(t, n, &shape, &text, &st.bytes, &chunks, use_ref, &expected, &mut states)
                    || !c08_one(t, n, &shape, &text, &st.bytes, &with_empty_calls(&chunks), use_ref, &expected, &mut states)
                {
                    ok = false;
                    break;
                }
            }
            if ok {
                t.st.add("streams_with_all_chunkings", 1);
                t.st.add("chunkings_enumerated", total);
            }
            if t.st.want_sample() {
                let mut j = J::obj();
                j.set("capacity", J::i(n as u64)).set("target", J::s(&text)).set("stream", J::s(hex(&st.bytes)));
                j.set("segments", J::s(st.kinds.join(","))).set("chunkings", J::s(format!("all {} compositions", total)));
                t.st.sample(j);
            }
        }
        // (b) all single transitions state(i) --stream[i..j]--> of medium streams
        let n_med = t.cfg.scale(1, 150, 2000);
        for _ in 0..n_med {
            if t.cfg.expired() {
                break;
            }
            let shape = targets[t.rng.below(targets.len() as u64) as usize].clone();
            let text = shape.text();
            let n = *t.rng.pick(&N_MENU_C08[..8]);
            let len = t.rng.range(8, 64);
            let st = build_stream(&mut t.rng, &shape, n, len, true);
            let l = st.bytes.len();
            if l < 2 {
                continue;
            }
            let expected = expectations(&shape, &st.bytes);
            let mut done = 0u64;
            'outer: for i in 0..l {
                for j in (i + 1)..=l {
                    // chunking: [0..i) fed as one chunk (through the loop), then [i..j), then the rest
                    let mut chunks = Vec::new();
                    if i > 0 {
                        chunks.push(i);
                    }
                    chunks.push(j - i);
                    if j < l {
                        chunks.push(l - j);
                    }
                    t.st.nontrivial(fp_mix(fp(&st.bytes), (i as u64) << 20 | j as u64 | ((n as u64) << 44)));
                    if !c08_one(t, n, &shape, &text, &st.bytes, &chunks, (i + j) % 2 == 0, &expected, &mut states) {
                        break 'outer;
                    }
                    done += 1;
                }
            }
            t.st.add("transitions_enumerated", done);
        }
        // (c) random chunkings of long streams
        let n_long = t.cfg.scale(2, 1500, 30_000);
        for _ in 0..n_long {
            if t.cfg.expired() {
                break;
            }
            let shape = if t.rng.chance(1, 4) {
                let d = t.rng.range(0, 2) as u32;
                let s = gen_shape(&mut t.rng, d, &ShapeOpts::small());
                // zero-width-element sequences cost time proportional to the claimed length (outside the claims)
                if s.has_zero_width_collection() {
                    Shape::U16
                } else {
                    s
                }
            } else {
                targets[t.rng.below(targets.len() as u64) as usize].clone()
            };
            let text = shape.text();
            let n = *t.rng.pick(&N_MENU_C08);
            let hi = if t.rng.chance(1, 10) { 4096 } else { 300 };
            let len = t.rng.range(1, hi);
            let st = build_stream(&mut t.rng, &shape, n, len, true);
            if st.bytes.is_empty() {
                continue;
            }
            for k in &st.kinds {
                t.st.count(&format!("segment_{}", k));
            }
            let expected = expectations(&shape, &st.bytes);
            for _ in 0..4 {
                let chunks = random_chunks(&mut t.rng, st.bytes.len());
                t.st.nontrivial(fp_mix(fp(&st.bytes), fp(&chunks.iter().map(|c| (*c % 251) as u8).collect::<Vec<_>>())));
                t.st.count("random_chunkings");
                if !c08_one(t, n, &shape, &text, &st.bytes, &chunks, t.rng.clone().chance(1, 2), &expected, &mut states) {
                    break;
                }
            }
        }
        long_frames_lane(t, "C08", &mut states);
        t.st.add("distinct_position_states", states.len() as u64);
        borrowed_lane(t);
    });
    rep.stats.merge(s);
    let st = rep.stats.counters.get("distinct_position_states").copied().unwrap_or(0);
    let tr = rep.stats.counters.get("feed_calls").copied().unwrap_or(0);
    rep.extra.insert("states".into(), J::i(st));
    rep.extra.insert("transitions".into(), J::i(tr));
    rep.rule = "cases = (capacity N, target type, stream, chunking, feed|feed_ref): streams over {valid frames, corrupt COBS, valid COBS with bad payload, empty frames, terminated garbage, \
                exact-fit/one-short garbage, unterminated tail} in which every segment and the tail fit N; ALL 2^(len-1) chunkings of streams up to 12 (quick) / 16 (thorough) bytes - each also with an empty feed call before, between and after all chunks -, all \
                O(len^2) single transitions of streams up to 64 bytes, random chunkings of streams up to 4 KiB; N in {4,5,6,8,12,16,32,64,256,4096}; frames of 250..700 bytes (half of them with a first code byte equal to (frame length - 1) mod 256) at capacities 256 and 4096; every feed call checked online against a \
                sequential model (pending bytes) with the verif_buffered hook; borrowed target type through feed_ref. Non-trivial = every (stream, chunking); distinct = fingerprint of (stream, chunking, N)."
        .into();
    rep.assumptions = vec![
        "expected per-segment result = reference COBS decode + reference plain decode of the segment in isolation (cross-checked against a fresh real from_bytes_cobs)".into(),
        "requires the read-only hook CobsAccumulator::verif_buffered (feature verif-hooks)".into(),
    ];
    rep.floor("result_success", 50);
    rep.floor("result_deser_error", 50);
    rep.floor("result_consumed", 50);
    rep.floor("chunk_boundaries_mid_frame", 50);
    rep.floor("chunkings_enumerated", 1000);
    rep.floor("transitions_enumerated", 100);
    rep.floor("borrowed_target_streams", 10);
    rep.floor("empty_feed_calls", 100);
    rep.floor("long_frame_streams", 20);
    rep
}

fn c09_one(t: &mut Tctx, n: usize, shape: &Shape, text: &str, stream: &[u8], chunks: &[usize], use_ref: bool, valid: &[(usize, usize, Val)]) -> bool {
    t.st.eval();
    let mut obs = RunObs::default();
    let r = catch(|| with_shape(shape, || with_n!(n, c09_run, shape, stream, chunks, use_ref, valid, &mut obs)));
    t.st.add("feed_calls", obs.calls);
    t.st.add("result_consumed", obs.consumed_v);
    t.st.add("result_deser_error", obs.deser_v);
    t.st.add("result_success", obs.success_v);
    t.st.add("result_overfull", obs.overfull_v);
    t.st.add("empty_feed_calls", obs.empty_feeds);
    match r {
        Ok(Ok(())) => true,
        Ok(Err((sig, msg))) => {
            t.st.violation(&sig, format!("{} [capacity {}, target {}, stream {}, chunks {:?}]", msg, n, text, hexs(stream), chunks), mk_replay(n, text, stream, chunks, use_ref, "C09"));
            false
        }
        Err(p) => {
            t.st.violation("C09:panic", format!("feed panicked: {} [capacity {}, target {}, stream {}, chunks {:?}]", p, n, text, hexs(stream), chunks), mk_replay(n, text, stream, chunks, use_ref, "C09"));
            false
        }
    }
}

/// Valid frames (of `shape`, fitting n) that directly follow a zero byte or the stream start.
fn valid_frames_after_zero(shape: &Shape, stream: &[u8], n: usize) -> Vec<(usize, usize, Val)> {
    let mut out = Vec::new();
    let mut start = 0;
    for (i, b) in stream.iter().enumerate() {
        if *b == 0 {
            if i - start + 1 <= n {
                if let Expect::Success(v) = isolated(shape, &stream[start..i]) {
                    out.push((start, i, v));
                }
            }
            start = i + 1;
        }
    }
    out
}

pub fn run_c09(cfg: &Cfg) -> Report {
    let mut rep = Report::new("C09");
    if let Some(p) = &cfg.replay {
        rep.stats.merge(replay(cfg, p));
        rep.rule = "replay".into();
        return rep;
    }
    let s = parallel(cfg, 1, |t| {
        // targets whose valid frames are tiny so that they fit the small capacities
        let targets = vec![Shape::Unit, Shape::U8, Shape::Tuple(vec![Shape::U8, Shape::U8]), Shape::Seq(Box::new(Shape::U8)), Shape::Option(Box::new(Shape::U8)), Shape::Tuple(vec![Shape::U8, Shape::U8, Shape::U8, Shape::U8])];
        let (short_len, n_short) = match t.cfg.tier {
            Tier::Tiny => (6usize, 2u64),
            Tier::Quick => (12, 80),
            Tier::Thorough => (16, 80),
        };
        for si in 0..n_short {
            if t.cfg.expired() {
                break;
            }
            let shape = targets[t.rng.below(targets.len() as u64) as usize].clone();
            let text = shape.text();
            let n = N_MENU_C09[(si as usize + t.tid) % N_MENU_C09.len()];
            let len = if si % 3 == 0 { short_len } else { t.rng.range(2, short_len) };
            let st = build_stream(&mut t.rng, &shape, n, len, false);
            if st.bytes.is_empty() {
                continue;
            }
            for k in &st.kinds {
                t.st.count(&format!("segment_{}", k));
            }
            t.st.count(&format!("capacity_{}", n));
            let valid = valid_frames_after_zero(&shape, &st.bytes, n);
            t.st.add("valid_frames_after_zero", valid.len() as u64);
            for (a, e, _) in &valid {
                let fl = e - a + 1;
                if fl == n {
                    t.st.count("valid_frame_exactly_capacity");
                } else if fl + 1 == n {
                    t.st.count("valid_frame_one_less_than_capacity");
                }
            }
            let l = st.bytes.len();
            let total: u64 = 1u64 << (l - 1);
            let mut ok = true;
            for mask in 0..total {
                let chunks = chunks_from_mask(l, mask);
                t.st.nontrivial(fp_mix(fp(&st.bytes), mask ^ ((n as u64) << 40)));
                if !c09_one(t, n, &shape, &text, &st.bytes, &chunks, mask % 2 == 1, &valid)
                    || !c09_one(t, n, &shape, &text, &st.bytes, &with_empty_calls(&chunks), mask % 2 == 1, &valid)
                {
                    ok = false;
                    break;
                }
            }
            if ok {
                t.st.add("chunkings_enumerated", total);
            }
            if t.st.want_sample() {
                let mut j = J::obj();
                j.set("capacity", J::i(n as u64)).set("target", J::s(&text)).set("stream", J::s(hex(&st.bytes)));
                j.set("segments", J::s(st.kinds.join(","))).set("chunkings", J::s(format!("all {} compositions", total)));
                t.st.sample(j);
            }
        }
        // steered: frames of length N-1, N, N+1 surrounded by garbage and over-long segments
        for &n in &N_MENU_C09 {
            for delta in [-1i64, 0, 1] {
                let fl = n as i64 + delta;
                if fl < 2 {
                    continue;
                }
                let k = (fl - 2) as usize;
                let shape = Shape::Tuple((0..k).map(|_| Shape::U8).collect());
                let text = shape.text();
                let reps = t.cfg.scale(1, 30, 300);
                for _ in 0..reps {
                    let payload: Vec<u8> = (0..k).map(|_| if t.rng.chance(1, 5) { 0 } else { t.rng.next() as u8 }).collect();
                    let mut frame = cobs_encode(&payload);
                    frame.push(0);
                    let mut stream = Vec::new();
                    // prefix: garbage / over-long segment / nothing
                    match t.rng.below(4) {
                        0 => {}
                        1 => {
                            stream.extend((0..t.rng.range(1, 3 * n)).map(|_| 1 + (t.rng.next() % 255) as u8));
                            stream.push(0);
                        }
                        2 => stream.push(0),
                        _ => {
                            stream.extend((0..(n + 1 + t.rng.below(n as u64 + 1) as usize)).map(|_| 1 + (t.rng.next() % 255) as u8));
                            stream.push(0);
                        }
                    }
                    stream.extend_from_slice(&frame);
                    stream.extend_from_slice(&frame);
                    if t.rng.chance(1, 2) {
                        stream.extend((0..t.rng.range(1, 2 * n)).map(|_| 1 + (t.rng.next() % 255) as u8));
                    }
                    if stream.len() > 64 {
                        continue;
                    }
                    let valid = valid_frames_after_zero(&shape, &stream, n);
                    t.st.add("valid_frames_after_zero", valid.len() as u64);
                    t.st.count(match delta {
                        -1 => "steered_frame_one_less_than_capacity",
                        0 => "steered_frame_exactly_capacity",
                        _ => "steered_frame_one_more_than_capacity",
                    });
                    for _ in 0..6 {
                        let chunks = random_chunks(&mut t.rng, stream.len());
                        t.st.nontrivial(fp_mix(fp(&stream), fp(&chunks.iter().map(|c| *c as u8).collect::<Vec<_>>()) ^ n as u64));
                        if !c09_one(t, n, &shape, &text, &stream, &chunks, t.rng.clone().chance(1, 2), &valid) {
                            break;
                        }
                    }
                }
            }
        }
        // random long streams and random bytes
        let n_long = t.cfg.scale(2, 3000, 60_000);
        for _ in 0..n_long {
            if t.cfg.expired() {
                break;
            }
            let shape = targets[t.rng.below(targets.len() as u64) as usize].clone();
            let text = shape.text();
            let n = *t.rng.pick(&N_MENU_C09);
            let stream = if t.rng.chance(1, 3) {
                let l = t.rng.range(1, 200);
                let mut b = t.rng.bytes(l);
                for x in b.iter_mut() {
                    if t.rng.chance(1, 12) {
                        *x = 0;
                    }
                }
                b
            } else {
                let ml = t.rng.range(1, 400);
                build_stream(&mut t.rng, &shape, n, ml, false).bytes
            };
            if stream.is_empty() {
                continue;
            }
            let valid = valid_frames_after_zero(&shape, &stream, n);
            t.st.add("valid_frames_after_zero", valid.len() as u64);
            for _ in 0..3 {
                let chunks = random_chunks(&mut t.rng, stream.len());
                t.st.count("random_chunkings");
                t.st.nontrivial(fp_mix(fp(&stream), fp(&chunks.iter().map(|c| (*c % 251) as u8).collect::<Vec<_>>()) ^ n as u64));
                if !c09_one(t, n, &shape, &text, &stream, &chunks, t.rng.clone().chance(1, 2), &valid) {
                    break;
                }
            }
        }
        let mut states = std::collections::HashSet::new();
        long_frames_lane(t, "C09", &mut states);
        // one instance, very many overflows
        if t.tid < 4 && t.cfg.tier != Tier::Tiny {
            let k = if t.cfg.tier == Tier::Thorough { 1_100_000 } else { 70_000 };
            match t.tid {
                0 => long_lived_instance::<2>(t, k),
                1 => long_lived_instance::<3>(t, k),
                2 => long_lived_instance::<8>(t, k),
                _ => long_lived_instance::<64>(t, k / 4 + 66_000),
            }
        }
    });
    rep.stats.merge(s);
    rep.floor("long_frame_streams", 20);
    rep.rule = "cases = (capacity N, target, stream, chunking): streams mixing valid frames, corrupt frames, garbage, empty frames, segments of length N+1..3N and random bytes; N in {1,2,3,4,5,6,8,16}; \
                frames steered to lengths N-1, N and N+1; frames of 250..700 bytes at capacities 256 / 4096; one instance fed 70 000 (thorough: 1 100 000) over-long segments and then a valid frame; ALL chunkings of streams up to 12 (quick) / 16 (thorough) bytes (each also with empty feed calls interleaved), random chunkings beyond (one in three with empty calls). Monitors per call: no panic, an empty call changes nothing, \
                remainder is a suffix of the window, hook: buffered <= N and == 0 after any call that consumed a zero byte, no zero byte swallowed by Consumed, bounded progress (<= 2l+2 calls per \
                l-byte chunk, never two unshortened windows in a row); per stream: every over-long segment has an OverFull at or before its sentinel, every well-formed fitting frame that follows a zero byte is delivered."
        .into();
    rep.assumptions = vec![
        "where the statement leaves behaviour open (how many bytes an unterminated overflow drops, what the tail of an over-long segment decodes to) nothing is asserted".into(),
        "termination is decided on logical call counts, never wall-clock".into(),
    ];
    rep.floor("result_overfull", 50);
    rep.floor("result_success", 20);
    rep.floor("valid_frames_after_zero", 20);
    rep.floor("segment_over_long", 10);
    rep.floor("chunkings_enumerated", 1000);
    rep.floor("steered_frame_exactly_capacity", 5);
    rep.floor("steered_frame_one_less_than_capacity", 5);
    rep.floor("steered_frame_one_more_than_capacity", 5);
    rep.floor("capacity_1", 1);
    rep.floor("empty_feed_calls", 100);
    rep
}

fn replay(cfg: &Cfg, p: &std::path::Path) -> Stats {
    let mut st = Stats::new();
    let m = match read_replay(p) {
        Ok(m) => m,
        Err(e) => {
            st.inconclusive(e);
            return st;
        }
    };
    let s = parallel(&Cfg { threads: 1, ..cfg.clone() }, 9, |t| {
        if m.get("kind").map(|s| s.as_str()) == Some("acc-long-lived") {
            let k: usize = m.get("overflows").and_then(|s| s.parse().ok()).unwrap_or(70_000);
            match m.get("capacity").and_then(|s| s.parse::<usize>().ok()).unwrap_or(8) {
                2 => long_lived_instance::<2>(t, k),
                3 => long_lived_instance::<3>(t, k),
                64 => long_lived_instance::<64>(t, k),
                _ => long_lived_instance::<8>(t, k),
            }
            return;
        }
        if m.get("kind").map(|s| s.as_str()) != Some("acc") {
            t.st.inconclusive("replay of borrowed-target streams is by re-running the check".into());
            return;
        }
        let text = m.get("shape").cloned().unwrap_or_default();
        let shape = match Shape::parse(&text) {
            Ok(s) => s,
            Err(e) => {
                t.st.inconclusive(format!("cannot parse shape: {}", e));
                return;
            }
        };
        let n: usize = m.get("capacity").and_then(|s| s.parse().ok()).unwrap_or(4);
        let stream = unhex(m.get("stream").map(|s| s.as_str()).unwrap_or("")).unwrap_or_default();
        let chunks: Vec<usize> = m.get("chunks").map(|s| s.split(',').filter_map(|x| x.trim().parse().ok()).collect()).unwrap_or_default();
        let use_ref = m.get("mode").map(|s| s == "feed_ref").unwrap_or(false);
        if chunks.iter().sum::<usize>() != stream.len() {
            t.st.inconclusive("replay chunks do not add up to the stream length".into());
            return;
        }
        if m.get("prop").map(|s| s.as_str()) == Some("C09") {
            let valid = valid_frames_after_zero(&shape, &stream, n);
            c09_one(t, n, &shape, &text, &stream, &chunks, use_ref, &valid);
        } else {
            let expected = expectations(&shape, &stream);
            let mut states = std::collections::HashSet::new();
            c08_one(t, n, &shape, &text, &stream, &chunks, use_ref, &expected, &mut states);
        }
    });
    st.merge(s);
    st
}
