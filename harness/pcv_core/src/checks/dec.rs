//! C03 (decoder accepts exactly what the specification allows) and C04 (decoding of
//! untrusted bytes is total, in-bounds and resource-bounded).  Shared hostile-input
//! generators; independent oracles and verdicts.

use super::common::*;
use crate::bridge::{normalise_maps, record, take_strs, with_shape, DynVal};
use crate::corpus::HasShape;
use crate::gen::*;
use crate::json::{hex, unhex, J};
use crate::mem::{catch, count_allocs, GuardBuf};
use crate::model::*;
use crate::rng::{fp, fp_mix, Rng};
use crate::run::*;
use crate::spec::{self, DecodeFail};
use serde::{Deserialize, Serialize};

// ------------------------------------------------------------------ hostile inputs

/// Mutations of a valid encoding `valid` of a value of `shape`.
pub fn hostile_inputs(rng: &mut Rng, shape: &Shape, valid: &[u8], exhaustive_offsets: bool) -> Vec<(&'static str, Vec<u8>)> {
    let mut out: Vec<(&'static str, Vec<u8>)> = Vec::new();
    out.push(("valid", valid.to_vec()));
    let n = valid.len();
    // every strict prefix (bounded for long messages)
    if n <= 96 {
        for k in 0..n {
            out.push(("prefix", valid[..k].to_vec()));
        }
    } else {
        for _ in 0..48 {
            let k = rng.below(n as u64) as usize;
            out.push(("prefix", valid[..k].to_vec()));
        }
        out.push(("prefix", valid[..n - 1].to_vec()));
        out.push(("prefix", Vec::new()));
    }
    // single-byte substitutions
    let offsets: Vec<usize> = if n <= 48 && exhaustive_offsets {
        (0..n).collect()
    } else {
        (0..24.min(n)).map(|_| rng.below(n.max(1) as u64) as usize).collect()
    };
    for &o in &offsets {
        if n == 0 {
            break;
        }
        for s in SUBST {
            if valid[o] != s {
                let mut m = valid.to_vec();
                m[o] = s;
                out.push(("subst", m));
            }
        }
        let mut m = valid.to_vec();
        m[o] = m[o].wrapping_add(1);
        out.push(("subst", m));
        let mut m = valid.to_vec();
        m[o] = m[o].wrapping_sub(1);
        out.push(("subst", m));
        let bit = rng.below(8);
        let mut m = valid.to_vec();
        m[o] ^= 1 << bit;
        out.push(("bitflip", m));
    }
    // varint re-paddings and hostile length values at every varint position
    if let Ok(d) = spec::decode(shape, valid) {
        let vs = if d.varints.len() > 12 {
            let mut v = Vec::new();
            for _ in 0..12 {
                v.push(*rng.pick(&d.varints));
            }
            v
        } else {
            d.varints.clone()
        };
        for (off, len, bits) in vs {
            for (m, _still_valid) in repad_varint(valid, off, len, bits) {
                out.push(("repad", m));
            }
            if bits == 64 {
                let remaining = n - (off + len);
                let hl = hostile_lengths(rng, remaining);
                let pick = if hl.len() > 8 { 8 } else { hl.len() };
                for i in 0..pick {
                    let l = if i < 4 { hl[i] } else { *rng.pick(&hl) };
                    let mut m = valid[..off].to_vec();
                    m.extend_from_slice(&varint_bytes(l as u128));
                    m.extend_from_slice(&valid[off + len..]);
                    out.push(("hostile_len", m));
                }
            }
        }
    }
    // random bytes
    for _ in 0..6 {
        let k = rng.range(0, 24);
        let mut b = rng.bytes(k);
        if rng.chance(1, 2) {
            for x in b.iter_mut() {
                if rng.chance(1, 3) {
                    *x |= 0x80;
                }
            }
        }
        out.push(("random", b));
    }
    // splice: valid prefix + random tail
    if n > 1 {
        let k = rng.below(n as u64) as usize;
        let mut m = valid[..k].to_vec();
        let extra = rng.range(0, 12);
        m.extend_from_slice(&rng.bytes(extra));
        out.push(("splice", m));
    }
    out
}

/// Invalid UTF-8 payload classes.
pub fn bad_utf8_payloads() -> Vec<Vec<u8>> {
    vec![
        vec![0x80],                   // lone continuation
        vec![0xC0, 0x80],             // overlong NUL
        vec![0xC1, 0xBF],             // overlong
        vec![0xE0, 0x80, 0x80],       // overlong 3-byte
        vec![0xF0, 0x80, 0x80, 0x80], // overlong 4-byte
        vec![0xED, 0xA0, 0x80],       // surrogate D800
        vec![0xED, 0xBF, 0xBF],       // surrogate DFFF
        vec![0xF4, 0x90, 0x80, 0x80], // > U+10FFFF
        vec![0xF8, 0x88, 0x80, 0x80, 0x80],
        vec![0xFF],
        vec![0xFE],
        vec![0xC2],             // truncated 2-byte
        vec![0xE2, 0x82],       // truncated 3-byte
        vec![0xF0, 0x9F, 0x92], // truncated 4-byte
        vec![b'a', 0xC2],
        vec![b'a', 0x80, b'b'],
        vec![0xE2, 0x28, 0xA1],
    ]
}

/// Inputs aimed at the `char` decoder: every length 0..=6, multi-scalar, surrogates, overlong.
pub fn char_inputs() -> Vec<Vec<u8>> {
    let mut out = Vec::new();
    let mk = |p: &[u8]| {
        let mut v = varint_bytes(p.len() as u128);
        v.extend_from_slice(p);
        v
    };
    out.push(mk(b""));
    out.push(mk(b"a"));
    out.push(mk(b"ab"));
    out.push(mk(b"abc"));
    out.push(mk(b"abcd"));
    out.push(mk(b"abcde"));
    out.push(mk("é".as_bytes()));
    out.push(mk("éa".as_bytes()));
    out.push(mk("aé".as_bytes()));
    out.push(mk("éé".as_bytes()));
    out.push(mk("€".as_bytes()));
    out.push(mk("€a".as_bytes()));
    out.push(mk("😀".as_bytes()));
    out.push(mk("a😀".as_bytes()));
    for p in bad_utf8_payloads() {
        out.push(mk(&p));
    }
    // claimed lengths beyond the data and beyond 4
    out.push(vec![5, b'a', b'b', b'c', b'd', b'e']);
    out.push(vec![5, b'a']);
    out.push(vec![4, b'a']);
    out.push(vec![0x80, 0x00, b'a']);
    out.push(vec![0x81, 0x00, b'a']);
    out.push(vec![0xFF, 0xFF, 0xFF, 0xFF, 0xFF, 0xFF, 0xFF, 0xFF, 0xFF, 0x01]);
    out.push(vec![0xFF, 0xFF, 0xFF, 0xFF, 0xFF, 0xFF, 0xFF, 0xFF, 0xFF, 0x02]);
    out
}

// ------------------------------------------------------------------ C03 comparison

fn rp_dyn(shape_text: &str, input: &[u8]) -> Vec<(String, String)> {
    vec![kv("kind", "dyn"), kv("shape", shape_text), kv("input", hex(input))]
}

/// Compare the real decoder with the reference decoder on one (shape, input).
pub fn c03_compare(t: &mut Tctx, shape: &Shape, shape_text: &str, sfp: u64, class: &str, input: &[u8]) {
    t.st.eval();
    t.st.count(&format!("input_{}", class));
    let oracle = match spec::decode_budget(shape, input, t.cfg.oracle_budget()) {
        Err(DecodeFail::OracleBudget) => {
            t.st.count("oracle_budget_skips");
            return;
        }
        Ok(d) => Ok(d),
        Err(DecodeFail::Spec(e)) => Err(e),
    };
    if !input.is_empty() {
        t.st.nontrivial(fp_mix(sfp, fp(input)));
    }
    t.crumb.set(&format!("kind: dyn\nshape: {}\ninput: {}", shape_text, hex(input)));
    let real = catch(|| {
        with_shape(shape, || {
            postcard::take_from_bytes::<DynVal>(input).map(|(v, rem)| (v.0, rem.as_ptr() as usize, rem.len()))
        })
    });
    t.crumb.clear();
    let real = match real {
        Ok(r) => r,
        Err(p) => {
            t.st.violation("C03:decoder-panic", format!("take_from_bytes panicked: {} (shape {})", p, shape_text), rp_dyn(shape_text, input));
            return;
        }
    };
    if crate::bridge::flooded() {
        // the oracle stayed within budget but the real decode ran into a zero-width flood:
        // the two disagree about where the input goes; that is a mismatch worth reporting
        t.st.count("zero_width_flood_cases");
    }
    if t.st.want_sample() && input.len() >= 2 && input.len() <= 24 && class != "valid" && t.rng.chance(1, 64) {
        let mut j = J::obj();
        j.set("target", J::s(shape_text)).set("input", J::s(hex(input))).set("class", J::s(class));
        j.set("specification", J::s(match &oracle {
            Ok(d) => format!("accept {} consuming {}", d.val.show(), d.consumed),
            Err(e) => format!("reject: {}", e.label()),
        }));
        j.set("postcard", J::s(match &real {
            Ok((v, _, rl)) => format!("Ok({}) remainder {}", v.show(), rl),
            Err(e) => format!("Err({})", err_label(e)),
        }));
        t.st.sample(j);
    }
    match (&oracle, &real) {
        (Ok(d), Ok((v, rptr, rlen))) => {
            t.st.count("agree_accept");
            if *v != d.val {
                t.st.violation(
                    "C03:value-differs",
                    format!("decoded {} but the specification says {} (shape {}, input {})", v.show(), d.val.show(), shape_text, hexs(input)),
                    rp_dyn(shape_text, input),
                );
            } else if *rptr != input.as_ptr() as usize + d.consumed || *rlen != input.len() - d.consumed {
                t.st.violation(
                    "C03:consumed-differs",
                    format!(
                        "remainder starts at offset {} (len {}), the specification consumes {} of {} bytes (shape {}, input {})",
                        rptr.wrapping_sub(input.as_ptr() as usize),
                        rlen,
                        d.consumed,
                        input.len(),
                        shape_text,
                        hexs(input)
                    ),
                    rp_dyn(shape_text, input),
                );
            }
        }
        (Ok(d), Err(e)) => {
            t.st.violation(
                &format!("C03:rejects-valid:{}", err_label(e)),
                format!(
                    "rejected with {} but a prefix of the input is a permitted encoding of {} ({} bytes) (shape {}, input {})",
                    err_label(e),
                    d.val.show(),
                    d.consumed,
                    shape_text,
                    hexs(input)
                ),
                rp_dyn(shape_text, input),
            );
        }
        (Err(se), Ok((v, _, _))) => {
            t.st.violation(
                &format!("C03:accepts-invalid:{}", se.label()),
                format!(
                    "accepted as {} but the specification rejects the input ({}) (shape {}, input {})",
                    v.show(),
                    se.label(),
                    shape_text,
                    hexs(input)
                ),
                rp_dyn(shape_text, input),
            );
        }
        (Err(se), Err(e)) => {
            t.st.count(&format!("agree_reject_{}", se.label()));
            if !err_matches(*se, e) {
                t.st.violation(
                    &format!("C03:wrong-error-kind:{}-for-{}", err_label(e), se.label()),
                    format!("error kind {} but the first violated rule is {} (shape {}, input {})", err_label(e), se.label(), shape_text, hexs(input)),
                    rp_dyn(shape_text, input),
                );
            }
        }
    }
    // from_bytes must agree with take_from_bytes
    let fb = catch(|| with_shape(shape, || postcard::from_bytes::<DynVal>(input).map(|v| v.0)));
    let agree = match (&fb, &real) {
        (Ok(Ok(a)), Ok((b, _, _))) => a == b,
        (Ok(Err(a)), Err(b)) => a == b,
        _ => false,
    };
    if !agree {
        t.st.violation(
            "C03:from_bytes-disagrees-with-take_from_bytes",
            format!("from_bytes and take_from_bytes differ on shape {} input {}", shape_text, hexs(input)),
            rp_dyn(shape_text, input),
        );
    }
    // the remaining bytes never influence the result
    if let Ok(d) = &oracle {
        if t.rng.chance(1, 8) {
            let mut alt = input[..d.consumed].to_vec();
            let extra = t.rng.bytes(t.rng.clone().range(0, 6));
            alt.extend_from_slice(&extra);
            let r2 = catch(|| with_shape(shape, || postcard::take_from_bytes::<DynVal>(&alt).map(|(v, rem)| (v.0, rem.len()))));
            t.st.count("tail_metamorphic");
            match r2 {
                Ok(Ok((v, rl))) if v == d.val && rl == extra.len() => {}
                _ => t.st.violation(
                    "C03:tail-influences-result",
                    format!("changing the bytes after the encoding changed the outcome (shape {}, input {})", shape_text, hexs(&alt)),
                    rp_dyn(shape_text, &alt),
                ),
            }
        }
    }
    let _ = take_strs();
}

// ------------------------------------------------------------------ C03 exhaustive typed sub-spaces

fn exhaustive_16bit(t: &mut Tctx) {
    // every byte string of length <= 3 (quick) / <= 4 (thorough) against u16 and i16
    let maxlen = match t.cfg.tier {
        Tier::Tiny => 2,
        Tier::Quick => 3,
        Tier::Thorough => t.cfg.knob_u64("c03_maxlen", 4) as usize,
    };
    let mut total = 0u64;
    let mut viol = 0u64;
    for len in 0..=maxlen {
        let count: u64 = 1u64 << (8 * len);
        let per = (count + t.nthreads as u64 - 1) / t.nthreads as u64;
        let lo = per * t.tid as u64;
        let hi = (lo + per).min(count);
        let mut x = lo;
        while x < hi {
            let b = (x as u32).to_le_bytes();
            let input = &b[..len];
            let want = spec::decode_varint(16, input);
            let gu = postcard::take_from_bytes::<u16>(input);
            let gi = postcard::take_from_bytes::<i16>(input);
            let ok = match (&want, &gu, &gi) {
                (Ok((v, c)), Ok((u, ru)), Ok((i, ri))) => {
                    *u as u128 == *v
                        && ru.len() == len - c
                        && ri.len() == len - c
                        && ru.as_ptr() as usize == input.as_ptr() as usize + c
                        && *i as i128 == spec::unzigzag(*v)
                }
                (Err(e), Err(a), Err(b2)) => err_matches(*e, a) && err_matches(*e, b2),
                _ => false,
            };
            if !ok && viol < 5 {
                viol += 1;
                let sig = match (&want, &gu) {
                    (Ok(_), Err(e)) => format!("C03:rejects-valid:{}", err_label(e)),
                    (Err(e), Ok(_)) => format!("C03:accepts-invalid:{}", e.label()),
                    (Err(e), Err(a)) if !err_matches(*e, a) => format!("C03:wrong-error-kind:{}-for-{}", err_label(a), e.label()),
                    (Err(e), Err(_)) => format!("C03:wrong-error-kind:i16-for-{}", e.label()),
                    _ => "C03:value-differs".to_string(),
                };
                t.st.violation(
                    &sig,
                    format!("16-bit varint decoder on {}: specification {:?}, u16 {:?}, i16 {:?}", hexs(input), want, gu.as_ref().map(|x| x.0), gi.as_ref().map(|x| x.0)),
                    rp_dyn("u16", input),
                );
            }
            total += 1;
            x += 1;
        }
    }
    t.st.evaluations += 2 * total;
    t.st.distinct_enumerated += 2 * total;
    t.st.add("exhaustive_16bit_strings", total);
    if t.tid == 0 {
        let all: u64 = (0..=maxlen).map(|l| 1u64 << (8 * l)).sum();
        t.st.space(&format!("every byte string of length <= {} against the u16 and i16 decoders", maxlen), 2 * all, true);
    }
}

fn exhaustive_small_types(t: &mut Tctx) {
    let shapes = [
        Shape::Bool,
        Shape::U8,
        Shape::I8,
        Shape::Option(Box::new(Shape::Bool)),
        Shape::Option(Box::new(Shape::U8)),
        Shape::Option(Box::new(Shape::Option(Box::new(Shape::Unit)))),
        Shape::Tuple(vec![Shape::Bool, Shape::Bool]),
        Shape::Enum("T0", vec![
            VariantShape { name: "V0", data: VData::Unit },
            VariantShape { name: "V1", data: VData::Newtype(Box::new(Shape::Bool)) },
            VariantShape { name: "V2", data: VData::Tuple(vec![]) },
        ]),
        Shape::Str,
        Shape::Char,
        Shape::Bytes,
        Shape::Seq(Box::new(Shape::Bool)),
        Shape::Seq(Box::new(Shape::Unit)),
    ];
    let mut idx = 0u64;
    for s in &shapes {
        let text = s.text();
        let sfp = fp(text.as_bytes());
        for len in 0..=2usize {
            for x in 0..(1u32 << (8 * len)) {
                idx += 1;
                if !t.mine(idx) {
                    continue;
                }
                let b = x.to_le_bytes();
                c03_compare(t, s, &text, sfp, "exhaustive_small", &b[..len]);
            }
        }
    }
    if t.tid == 0 {
        t.st.space("every byte string of length <= 2 against 13 small shapes (bool,u8,i8,options,enum,str,char,bytes,seq)", 13 * 65793, true);
    }
}

/// Boundary-structured strings for the 32/64/128-bit varint decoders.
fn wide_varints(t: &mut Tctx) {
    let kinds: [(Shape, u32); 8] = [
        (Shape::U32, 32),
        (Shape::I32, 32),
        (Shape::U64, 64),
        (Shape::I64, 64),
        (Shape::U128, 128),
        (Shape::I128, 128),
        (Shape::Usize, 64),
        (Shape::Isize, 64),
    ];
    let mut idx = 0u64;
    for (shape, bits) in &kinds {
        let text = shape.text();
        let sfp = fp(text.as_bytes());
        let max_len = spec::varint_max_len(*bits);
        let avail = bits - 7 * (max_len as u32 - 1);
        let max_last = (1u16 << avail) - 1;
        let mut cases: Vec<Vec<u8>> = Vec::new();
        for len in 1..=(max_len + 1) {
            for fill in [0x80u8, 0xFF, 0x81, 0xAA] {
                let lasts: Vec<u8> = vec![
                    0, 1, 2, 0x7F, 0x3F, 0x40,
                    max_last as u8, (max_last as u8).wrapping_sub(1), (max_last as u8).wrapping_add(1),
                    0x80, 0x81, 0xFF, 0x80 | max_last as u8, 0x80 | (max_last as u8 + 1),
                ];
                for last in lasts {
                    let mut v = vec![fill; len - 1];
                    v.push(last);
                    cases.push(v.clone());
                    // with a tail byte
                    v.push(0x55);
                    cases.push(v);
                }
            }
        }
        // every padding of boundary values
        for k in 0..*bits {
            for d in [0u128, 1] {
                let val = (1u128 << k).wrapping_sub(d);
                let enc = varint_bytes(val);
                for (m, _) in repad_varint(&enc, 0, enc.len(), *bits) {
                    cases.push(m);
                }
                cases.push(enc);
            }
        }
        for c in cases {
            idx += 1;
            if t.mine(idx) {
                c03_compare(t, shape, &text, sfp, "wide_varint_structured", &c);
            }
        }
        // random strings
        let n = t.cfg.scale(50, 20_000, 400_000);
        for _ in 0..n {
            let len = t.rng.range(0, max_len + 2);
            let mut b = t.rng.bytes(len);
            for (i, x) in b.iter_mut().enumerate() {
                if i + 1 < len && t.rng.chance(7, 8) {
                    *x |= 0x80;
                }
                if i + 1 == len && t.rng.chance(3, 4) {
                    *x &= 0x7F;
                }
            }
            c03_compare(t, shape, &text, sfp, "wide_varint_random", &b);
        }
    }
}

fn strings_and_chars(t: &mut Tctx) {
    let (ss, cs, bs) = (Shape::Str, Shape::Char, Shape::Bytes);
    let sfs = fp(b"str");
    let mut idx = 0u64;
    for p in bad_utf8_payloads() {
        for wrap in 0..3 {
            let mut payload = Vec::new();
            if wrap == 1 {
                payload.extend_from_slice("ok€".as_bytes());
            }
            payload.extend_from_slice(&p);
            if wrap == 2 {
                payload.extend_from_slice(b"zz");
            }
            let mut m = varint_bytes(payload.len() as u128);
            m.extend_from_slice(&payload);
            m.push(0x01);
            idx += 1;
            if t.mine(idx) {
                c03_compare(t, &ss, "str", sfs, "bad_utf8", &m);
                c03_compare(t, &bs, "bytes", sfs ^ 1, "bad_utf8", &m);
                let os = Shape::Struct("T0", vec![("f0", Shape::U8), ("f1", Shape::Str), ("f2", Shape::Bool)]);
                let mut mm = vec![7u8];
                mm.extend_from_slice(&m);
                c03_compare(t, &os, &os.text(), sfs ^ 2, "bad_utf8", &mm);
            }
        }
    }
    for c in char_inputs() {
        idx += 1;
        if t.mine(idx) {
            c03_compare(t, &cs, "char", fp(b"char"), "char_hostile", &c);
            let sh = Shape::Tuple(vec![Shape::Char, Shape::U8]);
            let mut m = c.clone();
            m.push(9);
            c03_compare(t, &sh, &sh.text(), fp(b"charu8"), "char_hostile", &m);
        }
    }
    // all 2-scalar strings drawn from a small alphabet as char payloads
    let alpha = ['a', 'é', '€', '😀', '\u{0}', '\u{7f}'];
    for a in alpha {
        for b in alpha {
            idx += 1;
            if !t.mine(idx) {
                continue;
            }
            let s: String = [a, b].iter().collect();
            let mut m = varint_bytes(s.len() as u128);
            m.extend_from_slice(s.as_bytes());
            c03_compare(t, &cs, "char", fp(b"char"), "char_multi_scalar", &m);
        }
    }
}

// ------------------------------------------------------------------ corpus types (C03 + C04)

struct CorpusOutcome {
    accept: Option<(Val, usize)>,
    err: Option<postcard::Error>,
}

fn corpus_decode<T>(input: &[u8]) -> Result<CorpusOutcome, String>
where
    T: Serialize + for<'de> Deserialize<'de>,
{
    catch(|| match postcard::take_from_bytes::<T>(input) {
        Ok((v, rem)) => {
            let consumed = (rem.as_ptr() as usize).wrapping_sub(input.as_ptr() as usize);
            let rec = record(&v).unwrap_or(Val::Unit);
            CorpusOutcome { accept: Some((rec, if rem.len() + consumed == input.len() { consumed } else { usize::MAX })), err: None }
        }
        Err(e) => CorpusOutcome { accept: None, err: Some(e) },
    })
}

fn c03_corpus<T>(t: &mut Tctx, name: &str)
where
    T: Serialize + for<'de> Deserialize<'de> + HasShape,
{
    let shape = T::shape();
    let sfp = fp(name.as_bytes());
    let replay_one = REPLAY_CONCRETE.with(|r| r.borrow().clone());
    if let Some((rname, _)) = &replay_one {
        if rname.replace(' ', "") != name.replace(' ', "") {
            return;
        }
    }
    let rounds = if replay_one.is_some() { 1 } else { t.cfg.scale(1, 12, 120) };
    for _ in 0..rounds {
        let val = {
            let mut g = ValGen::small(&mut t.rng);
            g.gen(&shape)
        };
        let valid = spec::encode(&val);
        let inputs = match &replay_one {
            Some((_, one)) => vec![("replay", one.clone())],
            None => hostile_inputs(&mut t.rng, &shape, &valid, false),
        };
        for (class, input) in inputs {
            t.st.eval();
            t.st.count("corpus_inputs");
            t.st.count(&format!("input_{}", class));
            let oracle = match spec::decode_budget(&shape, &input, 5_000) {
                Err(DecodeFail::OracleBudget) => continue,
                Ok(d) => Ok(d),
                Err(DecodeFail::Spec(e)) => Err(e),
            };
            t.st.nontrivial(fp_mix(sfp, fp(&input)));
            let rp = vec![kv("kind", "corpus"), kv("type", name), kv("input", hex(&input))];
            t.crumb.set(&format!("kind: corpus\ntype: {}\ninput: {}", name, hex(&input)));
            let real_r = corpus_decode::<T>(&input);
            t.crumb.clear();
            let real = match real_r {
                Ok(r) => r,
                Err(p) => {
                    t.st.violation("C03:decoder-panic", format!("{}: panic {} on {}", name, p, hexs(&input)), rp);
                    continue;
                }
            };
            match (&oracle, &real.accept, &real.err) {
                (Ok(d), Some((rec, consumed)), _) => {
                    if *consumed != d.consumed {
                        t.st.violation(
                            "C03:consumed-differs",
                            format!("{}: consumed {} but the specification consumes {} (input {})", name, consumed, d.consumed, hexs(&input)),
                            rp,
                        );
                    } else if !T::UNORDERED && !T::REFINED {
                        let mut a = rec.clone();
                        let mut b = d.val.clone();
                        normalise_maps(&mut a);
                        normalise_maps(&mut b);
                        // compare by wire form: Serialize of the decoded value must re-encode to the accepted bytes' canonical form
                        if spec::encode(&a) != spec::encode(&b) {
                            t.st.violation(
                                "C03:value-differs",
                                format!("{}: decoded {} but the specification says {} (input {})", name, a.show(), b.show(), hexs(&input)),
                                rp,
                            );
                        }
                    }
                }
                (Ok(d), None, Some(e)) => {
                    if T::REFINED && *e == postcard::Error::SerdeDeCustom {
                        t.st.count("type_refinement_rejections");
                    } else {
                        t.st.violation(
                            &format!("C03:rejects-valid:{}", err_label(e)),
                            format!("{}: rejected with {} but the input holds a permitted encoding ({} bytes) (input {})", name, err_label(e), d.consumed, hexs(&input)),
                            rp,
                        );
                    }
                }
                (Err(se), Some((rec, _)), _) => {
                    t.st.violation(
                        &format!("C03:accepts-invalid:{}", se.label()),
                        format!("{}: accepted as {} but the specification rejects ({}) (input {})", name, rec.show(), se.label(), hexs(&input)),
                        rp,
                    );
                }
                (Err(se), None, Some(e)) => {
                    // a refined type may reject earlier with its own error
                    if !err_matches(*se, e) && !(T::REFINED && *e == postcard::Error::SerdeDeCustom) {
                        t.st.violation(
                            &format!("C03:wrong-error-kind:{}-for-{}", err_label(e), se.label()),
                            format!("{}: error kind {} but the first violated rule is {} (input {})", name, err_label(e), se.label(), hexs(&input)),
                            rp,
                        );
                    }
                }
                _ => {}
            }
        }
    }
}

// ------------------------------------------------------------------ C03 driver

/// Lean interpreter workload for C03 (used for the 32-bit target, where `varint(usize)` length prefixes are
/// bounded by 32 bits / 5 bytes): composite shapes with length-prefixed kinds, inputs = valid encodings, their
/// prefixes, a few substitutions, and length prefixes around 2^32 and over-long paddings.
fn lean_c03(t: &mut Tctx) {
    let mut n = 0u64;
    let limit = t.cfg.knob_u64("lean_shapes", 300);
    while !t.cfg.expired() && n < limit {
        n += 1;
        let shape = match n % 6 {
            0 => Shape::Str,
            1 => Shape::Bytes,
            2 => Shape::Seq(Box::new(Shape::U16)),
            3 => Shape::Map(Box::new(Shape::U8), Box::new(Shape::Str)),
            4 => Shape::Struct("T0", vec![("f0", Shape::Usize), ("f1", Shape::Isize), ("f2", Shape::Str), ("f3", Shape::Option(Box::new(Shape::Bytes)))]),
            _ => {
                let d = t.rng.range(0, 2) as u32;
                gen_shape(&mut t.rng, d, &ShapeOpts::small())
            }
        };
        if shape.has_zero_width_collection() {
            continue;
        }
        let text = shape.text();
        let sfp = fp(text.as_bytes());
        let val = {
            let mut g = ValGen::small(&mut t.rng);
            g.max_len = 3;
            g.max_str = 8;
            g.gen(&shape)
        };
        let valid = spec::encode(&val);
        if valid.len() > 64 {
            continue;
        }
        t.st.count("lean_shapes");
        c03_compare(t, &shape, &text, sfp, "valid", &valid);
        for k in 0..valid.len() {
            if k % 2 == (n % 2) as usize {
                c03_compare(t, &shape, &text, sfp, "prefix", &valid[..k]);
            }
        }
        for _ in 0..3 {
            if valid.is_empty() {
                break;
            }
            let o = t.rng.below(valid.len() as u64) as usize;
            let mut m = valid.clone();
            m[o] = *t.rng.pick(&[0x00u8, 0x01, 0x7F, 0x80, 0xFF]);
            c03_compare(t, &shape, &text, sfp, "substituted", &m);
        }
        // length prefixes at the edge of 32 bits and over-long paddings of small lengths, in front of the valid body
        let body: Vec<u8> = valid.iter().skip(1).cloned().collect();
        for pre in [
            vec![0xFF, 0xFF, 0xFF, 0xFF, 0x0F],             // 2^32 - 1
            vec![0x80, 0x80, 0x80, 0x80, 0x10],             // 2^32
            vec![0xFF, 0xFF, 0xFF, 0xFF, 0x1F],             // over the 32-bit range in 5 bytes
            vec![0x81, 0x80, 0x80, 0x80, 0x00],             // 1, padded to 5 bytes
            vec![0x81, 0x80, 0x80, 0x80, 0x80, 0x00],       // 1, padded to 6 bytes
            vec![0x80, 0x80, 0x80, 0x80, 0x80, 0x80, 0x80, 0x80, 0x80, 0x01], // 2^63
            vec![0xFF, 0xFF, 0xFF, 0xFF, 0xFF, 0xFF, 0xFF, 0xFF, 0xFF, 0x01], // 2^64 - 1
        ] {
            let mut m = pre.clone();
            m.extend_from_slice(&body);
            c03_compare(t, &shape, &text, sfp, "edge_length_prefix", &m);
        }
    }
}

/// Borrowed strings and byte slices of more than 4 GiB (a zero mapping with a length prefix written in front and
/// one byte behind): the decoder must return all of it and continue right after it.  64-bit hosts, native stages.
fn c03_huge_payloads(t: &mut Tctx) {
    #[cfg(all(not(miri), target_pointer_width = "64"))]
    {
        if crate::mem::HugeZero::suppressed() {
            return;
        }
        for n in [(1usize << 32) + 5, (1usize << 32) - 1] {
            let mut prefix = Vec::new();
            spec::varint(n as u128, &mut prefix);
            let total = prefix.len() + n + 1;
            let mut map = match crate::mem::HugeZero::new(total) {
                Some(m) => m,
                None => {
                    t.st.count("c03_huge_payload_mapping_refused");
                    return;
                }
            };
            {
                let m = map.as_mut_slice();
                m[..prefix.len()].copy_from_slice(&prefix);
                m[total - 1] = 0x2A;
            }
            let input = map.as_slice();
            let base = input.as_ptr() as usize;
            for what in ["str", "bytes", "truncated"] {
                t.st.eval();
                t.st.count("c03_huge_payload_cases");
                t.st.nontrivial(fp_mix(0xC03_4616, n as u64 ^ fp(what.as_bytes())));
                let rp = vec![kv("kind", "huge_payload"), kv("what", what), kv("n", n.to_string())];
                let verdict: Result<(), String> = match what {
                    "str" => match catch(|| postcard::take_from_bytes::<(&str, u8)>(input).map(|((s, b), rest)| (s.as_ptr() as usize, s.len(), b, rest.len()))) {
                        Ok(Ok((p, l, 0x2A, 0))) if p == base + prefix.len() && l == n => Ok(()),
                        other => Err(format!("{:?}", other.map(|r| r.map_err(|e| err_label(&e))))),
                    },
                    "bytes" => match catch(|| postcard::take_from_bytes::<(&[u8], u8)>(input).map(|((s, b), rest)| (s.as_ptr() as usize, s.len(), b, rest.len()))) {
                        Ok(Ok((p, l, 0x2A, 0))) if p == base + prefix.len() && l == n => Ok(()),
                        other => Err(format!("{:?}", other.map(|r| r.map_err(|e| err_label(&e))))),
                    },
                    _ => match catch(|| postcard::from_bytes::<&[u8]>(&input[..total - 2]).map(|s| s.len())) {
                        Ok(Err(postcard::Error::DeserializeUnexpectedEnd)) => Ok(()),
                        other => Err(format!("{:?} for an input one byte short of the claimed length", other.map(|r| r.map_err(|e| err_label(&e))))),
                    },
                };
                if let Err(m) = verdict {
                    t.st.violation("C03:huge-payload-differs", format!("{} with a claimed length of {}: {}", what, n, m), rp);
                    return;
                }
            }
        }
    }
    let _ = t;
}

fn c03_corpus_all(t: &mut Tctx, all_on_this_thread: bool) {
    let mut i = 0u64;
    macro_rules! one {
        ($ty:ty) => {
            i += 1;
            if all_on_this_thread || t.mine(i) || t.cfg.tier == Tier::Thorough {
                let t0 = std::time::Instant::now();
                c03_corpus::<$ty>(t, stringify!($ty));
                t.st.count("corpus_types_run");
                if t.cfg.knobs.contains_key("timing") && t0.elapsed().as_secs_f64() > 0.5 {
                    eprintln!("[c03 corpus] {} {:.2}s", stringify!($ty), t0.elapsed().as_secs_f64());
                }
            }
        };
    }
    crate::for_each_corpus_type!(one);
}

pub fn run_c03(cfg: &Cfg) -> Report {
    let mut rep = Report::new("C03");
    if let Some(p) = &cfg.replay {
        rep.stats = replay(cfg, "C03", p);
        rep.rule = "replay".into();
        return rep;
    }
    if cfg.tier == Tier::Tiny && cfg.knob_u64("lean", 0) == 1 {
        let s = parallel(cfg, 1, |t| lean_c03(t));
        rep.stats.merge(s);
        rep.rule = "lean interpreter workload: length-prefixed shapes, valid / prefix / substituted inputs and length prefixes at the edge of the pointer width, each compared with the reference decoder".into();
        return rep;
    }
    let s = parallel(cfg, 1, |t| {
        exhaustive_16bit(t);
        exhaustive_small_types(t);
    });
    rep.stats.merge(s);
    let s = parallel(cfg, 2, |t| {
        wide_varints(t);
        strings_and_chars(t);
    });
    rep.stats.merge(s);
    // composite shapes
    let s = parallel(cfg, 3, |t| {
        let shapes = t.cfg.scale(6, 1500, 60_000);
        for _ in 0..shapes {
            if t.cfg.expired() {
                break;
            }
            let o = if t.rng.chance(1, 3) { ShapeOpts::full() } else { ShapeOpts::small() };
            let depth = t.rng.range(0, o.max_depth as usize) as u32;
            let shape = gen_shape(&mut t.rng, depth, &o);
            let text = shape.text();
            let sfp = fp(text.as_bytes());
            t.st.count("random_shapes");
            let val = {
                let mut g = ValGen::small(&mut t.rng);
                g.gen(&shape)
            };
            let valid = spec::encode(&val);
            for (class, input) in hostile_inputs(&mut t.rng, &shape, &valid, true) {
                // direct (oracle-independent) clause: every strict prefix of a valid message is unexpected-end
                if class == "prefix" {
                    let r = catch(|| with_shape(&shape, || postcard::from_bytes::<DynVal>(&input).map(|_| ())));
                    t.st.count("strict_prefixes_checked");
                    if !matches!(r, Ok(Err(postcard::Error::DeserializeUnexpectedEnd))) {
                        t.st.violation(
                            "C03:strict-prefix-not-unexpected-end",
                            format!("strict prefix ({} of {} bytes) of a valid message gave {:?} (shape {})", input.len(), valid.len(), r.map(|x| x.map_err(|e| err_label(&e))), text),
                            rp_dyn(&text, &input),
                        );
                    }
                }
                c03_compare(t, &shape, &text, sfp, class, &input);
            }
        }
    });
    rep.stats.merge(s);
    // deep nesting: valid encodings, truncations and a corruption at every level boundary
    let s = parallel(cfg, 5, |t| {
        let mut i = 0u64;
        // long payloads (3- and 4-byte length prefixes), exact, one byte short, claimed one byte too long
        if t.cfg.tier != Tier::Tiny {
            for len in [16_384usize, 70_000, 2_097_152] {
                for shape in [Shape::Str, Shape::Bytes, Shape::Seq(Box::new(Shape::U8))] {
                    i += 1;
                    if !t.mine(i) {
                        continue;
                    }
                    let text = shape.text();
                    let sfp = fp(text.as_bytes());
                    let mut valid = varint_bytes(len as u128);
                    valid.extend(std::iter::repeat(b'x').take(len));
                    t.st.count("long_payload_cases");
                    c03_compare(t, &shape, &text, sfp, "long_valid", &valid);
                    c03_compare(t, &shape, &text, sfp, "long_prefix", &valid[..valid.len() - 1]);
                    let mut over = varint_bytes(len as u128 + 1);
                    over.extend(std::iter::repeat(b'x').take(len));
                    c03_compare(t, &shape, &text, sfp, "long_overclaimed", &over);
                    if shape == Shape::Str {
                        let mut bad = valid.clone();
                        let l = bad.len();
                        bad[l - 1] = 0xC3; // truncated scalar at the very end of a long string
                        c03_compare(t, &shape, &text, sfp, "long_bad_utf8", &bad);
                        // the same length in multi-byte scalars at four alignments
                        for lead in 0..4usize {
                            let mut txt = "a".repeat(lead);
                            while txt.len() < len / 8 + 300 {
                                txt.push_str(["\u{e9}", "\u{65e5}", "\u{1f980}", "\u{e9}\u{65e5}x"][lead]);
                            }
                            let mut m = varint_bytes(txt.len() as u128);
                            m.extend_from_slice(txt.as_bytes());
                            c03_compare(t, &shape, &text, sfp, "long_multibyte", &m);
                            c03_compare(t, &shape, &text, sfp, "long_multibyte", &m);
                            c03_compare(t, &shape, &text, sfp, "long_multibyte", &m);
                        }
                    }
                }
            }
        }
        for kind in 0..7 {
            for &depth in &DEEP_DEPTHS {
                i += 1;
                if !t.mine(i) || (t.cfg.tier == Tier::Tiny && depth > 129) {
                    continue;
                }
                let (shape, val) = deep_case(kind, depth);
                let text = shape.text();
                let sfp = fp(text.as_bytes());
                let valid = spec::encode(&val);
                t.st.count("deep_nesting_cases");
                c03_compare(t, &shape, &text, sfp, "deep_valid", &valid);
                for k in [0usize, 1, valid.len() / 2, valid.len().saturating_sub(1)] {
                    c03_compare(t, &shape, &text, sfp, "deep_prefix", &valid[..k.min(valid.len())]);
                }
                for _ in 0..8 {
                    let mut m = valid.clone();
                    let o = t.rng.below(m.len() as u64) as usize;
                    m[o] = *t.rng.pick(&SUBST);
                    c03_compare(t, &shape, &text, sfp, "deep_subst", &m);
                }
            }
        }
    });
    rep.stats.merge(s);
    let s = parallel(cfg, 4, |t| c03_corpus_all(t, false));
    rep.stats.merge(s);
    if cfg.tier != Tier::Tiny {
        let s = parallel(&Cfg { threads: 1, ..cfg.clone() }, 5, |t| c03_huge_payloads(t));
        rep.stats.merge(s);
    }
    rep.rule = "cases = (target shape or concrete type, input byte string): every byte string up to 3 (quick) / 4 (thorough) bytes for the u16/i16 \
                decoders, every string up to 2 bytes for 13 small shapes, boundary-structured and random strings for 32/64/128-bit and pointer-sized \
                varints, invalid UTF-8 classes, hostile char encodings, and for random shapes / corpus types: the valid encoding, all strict prefixes, \
                single-byte substitutions and bit flips, varint re-paddings (accepted and one-too-long), hostile length values, random bytes. \
                Non-trivial = non-empty input; distinct = fingerprint of (shape, input)."
        .into();
    rep.assumptions = vec![
        "the reference decoder (spec.rs) is correct; validated against the canonicalization, max-length and example tables of wire-format.md".into(),
        "unknown enum discriminants: any error kind accepted (mapping is serde-derive's)".into(),
        "types with their own validation (NonZero, heapless capacity, Duration) may additionally reject with SerdeDeCustom".into(),
    ];
    for k in ["agree_accept", "agree_reject_unexpected_end", "agree_reject_bad_varint", "agree_reject_bad_bool", "agree_reject_bad_option", "agree_reject_bad_utf8", "agree_reject_bad_char", "agree_reject_bad_enum_index"] {
        rep.floor(k, 1);
    }
    rep.floor("input_repad", 10);
    rep.floor("strict_prefixes_checked", 10);
    rep.floor("exhaustive_16bit_strings", 60000);
    rep.floor("deep_nesting_cases", 7);
    rep
}

// ------------------------------------------------------------------ C04

fn rp_c04(kind: &str, target: &str, input: &[u8]) -> String {
    format!("kind: {}\nshape: {}\ninput: {}", kind, target, hex(input))
}

/// One guarded decode of a dynamic shape; checks panic, borrows, allocation bound.
fn c04_dyn_case(t: &mut Tctx, gb: &mut GuardBuf, shape: &Shape, text: &str, sfp: u64, class: &str, input: &[u8], judge_alloc: bool) {
    if input.len() > gb.usable() {
        return;
    }
    t.st.eval();
    t.st.count(&format!("input_{}", class));
    if !input.is_empty() {
        t.st.nontrivial(fp_mix(sfp, fp(input)));
    }
    let oracle = spec::decode_budget(shape, input, t.cfg.oracle_budget());
    if matches!(oracle, Err(DecodeFail::OracleBudget)) {
        t.st.count("oracle_budget_skips");
        return;
    }
    t.crumb.set(&rp_c04("dyn", text, input));
    for at_tail in [true, false] {
        let placed: &[u8] = gb.place(input, at_tail);
        let base = placed.as_ptr() as usize;
        let (res, al) = count_allocs(|| {
            catch(|| with_shape(shape, || postcard::take_from_bytes::<DynVal>(placed).map(|(v, rem)| (v.0, rem.as_ptr() as usize, rem.len()))))
        });
        t.st.count(if at_tail { "guarded_decodes_tail" } else { "guarded_decodes_head" });
        let strs = take_strs();
        let rp = vec![kv("kind", "dyn"), kv("shape", text), kv("input", hex(input))];
        match &res {
            Err(p) => {
                t.st.violation("C04:panic", format!("decoding panicked: {} (shape {}, input {})", p, text, hexs(input)), rp);
                break;
            }
            Ok(r) => {
                // borrowed ranges inside the input, at the oracle's offsets
                let mut bi = 0usize;
                for (ptr, len, borrowed) in &strs {
                    if !*borrowed {
                        continue;
                    }
                    t.st.count("borrowed_ranges_checked");
                    let inside = *ptr >= base && ptr + len <= base + input.len();
                    if !inside {
                        t.st.violation(
                            "C04:borrow-outside-input",
                            format!("borrowed range at offset {} len {} lies outside the {}-byte input (shape {})", ptr.wrapping_sub(base) as isize, len, input.len(), text),
                            rp.clone(),
                        );
                        break;
                    }
                    if let Ok(d) = &oracle {
                        if let Some((off, l)) = d.borrows.get(bi) {
                            if ptr - base != *off || len != l {
                                t.st.violation(
                                    "C04:borrow-at-wrong-position",
                                    format!("borrowed range #{} at offset {} len {}, encoded at offset {} len {} (shape {}, input {})", bi, ptr - base, len, off, l, text, hexs(input)),
                                    rp.clone(),
                                );
                                break;
                            }
                        }
                    }
                    bi += 1;
                }
                match (r, &oracle) {
                    (Ok(_), Ok(_)) => t.st.count("decode_ok"),
                    (Err(_), _) => t.st.count("decode_err"),
                    _ => t.st.count("decode_ok_oracle_err"),
                }
                if let Ok((_, rptr, rlen)) = r {
                    if *rptr < base || rptr + rlen != base + input.len() {
                        t.st.violation("C04:remainder-outside-input", format!("remainder is not a suffix of the input (shape {})", text), rp.clone());
                    }
                }
                if at_tail && t.st.want_sample() && input.len() >= 2 && input.len() <= 24 && t.rng.chance(1, 64) {
                    let mut j = J::obj();
                    j.set("target", J::s(text)).set("input", J::s(hex(input))).set("class", J::s(class));
                    j.set("outcome", J::s(match r {
                        Ok((v, _, rl)) => format!("Ok({}) remainder {}", v.show(), rl),
                        Err(e) => format!("Err({})", err_label(e)),
                    }));
                    j.set("bytes_allocated", J::i(al.bytes as u64)).set("borrowed_ranges", J::i(strs.iter().filter(|x| x.2).count() as u64));
                    j.set("placement", J::s("flush against trailing and leading PROT_NONE pages"));
                    t.st.sample(j);
                }
                if judge_alloc {
                    let elem = std::mem::size_of::<Val>();
                    let bound = 16 * (input.len() + 1) * elem + 256;
                    t.st.count("alloc_bound_checked");
                    t.st.max("max_alloc_bytes_per_decode", al.bytes as u64);
                    if al.bytes > bound {
                        t.st.violation(
                            "C04:allocation-exceeds-bound",
                            format!("{} bytes requested while decoding a {}-byte input (bound {}; largest single request {}) (shape {}, input {})", al.bytes, input.len(), bound, al.max_request, text, hexs(input)),
                            rp.clone(),
                        );
                        break;
                    }
                } else {
                    t.st.count("alloc_not_judged_map_or_zero_width");
                    t.st.max("max_alloc_bytes_unjudged", al.bytes as u64);
                }
            }
        }
    }
    t.crumb.clear();
    // cobs-copy and reader paths: totality only
    if t.rng.chance(1, 4) {
        t.crumb.set(&rp_c04("dyn-cobs", text, input));
        let placed = gb.place(input, true);
        let r = catch(|| with_shape(shape, || postcard::from_bytes_cobs::<DynVal>(placed).map(|_| ())));
        t.st.count("guarded_decodes_cobs");
        if let Err(p) = r {
            t.st.violation("C04:panic", format!("from_bytes_cobs panicked: {} (shape {}, input {})", p, text, hexs(input)), vec![kv("kind", "dyn-cobs"), kv("shape", text), kv("input", hex(input))]);
        }
        t.crumb.set(&rp_c04("dyn-io", text, input));
        let slen = t.rng.range(0, input.len() + 2);
        let mut scratch_owner = GuardScratch::get(slen);
        let scratch = scratch_owner.slice();
        let r = catch(|| {
            with_shape(shape, || {
                let rd: &[u8] = input;
                postcard::from_io::<DynVal, _>((rd, scratch)).map(|_| ())
            })
        });
        t.st.count("guarded_decodes_io");
        if let Err(p) = r {
            t.st.violation("C04:panic", format!("from_io panicked: {} (shape {}, input {}, scratch {})", p, text, hexs(input), slen), vec![kv("kind", "dyn-io"), kv("shape", text), kv("input", hex(input)), kv("scratch", slen.to_string())]);
        }
        t.crumb.clear();
    }
    let _ = take_strs();
}

/// Scratch buffer flush against a guard page (thread-local GuardBuf).
struct GuardScratch {
    len: usize,
}
thread_local! {
    static SCRATCH_GB: std::cell::RefCell<Option<GuardBuf>> = const { std::cell::RefCell::new(None) };
}
impl GuardScratch {
    fn get(len: usize) -> GuardScratch {
        SCRATCH_GB.with(|g| {
            if g.borrow().is_none() {
                *g.borrow_mut() = Some(GuardBuf::new(64));
            }
        });
        GuardScratch { len }
    }
    fn slice(&mut self) -> &'static mut [u8] {
        let len = self.len;
        SCRATCH_GB.with(|g| {
            let mut b = g.borrow_mut();
            let gb = b.as_mut().unwrap();
            let s = gb.tail(len.min(gb.usable()));
            // SAFETY: the thread-local buffer lives for the thread; the slice is used only within the current case
            unsafe { std::slice::from_raw_parts_mut(s.as_mut_ptr(), s.len()) }
        })
    }
}

thread_local! {
    /// (type name, input) of a concrete-type replay; when set, c04_concrete runs only that input
    static REPLAY_CONCRETE: std::cell::RefCell<Option<(String, Vec<u8>)>> = const { std::cell::RefCell::new(None) };
}

fn c04_concrete<T>(t: &mut Tctx, gb: &mut GuardBuf, name: &str, elem_size: usize, judge_alloc: bool)
where
    T: Serialize + for<'de> Deserialize<'de> + HasShape,
{
    let shape = T::shape();
    let sfp = fp(name.as_bytes());
    let replay_one = REPLAY_CONCRETE.with(|r| r.borrow().clone());
    if let Some((rname, _)) = &replay_one {
        if rname.replace(' ', "") != name.replace(' ', "") {
            return;
        }
    }
    let rounds = if replay_one.is_some() { 1 } else { t.cfg.scale(1, 30, 400) };
    for _ in 0..rounds {
        if t.cfg.expired() {
            break;
        }
        let val = {
            let mut g = ValGen::small(&mut t.rng);
            g.gen(&shape)
        };
        let valid = spec::encode(&val);
        let mut inputs = hostile_inputs(&mut t.rng, &shape, &valid, false);
        // dedicated adversarial lengths at the front
        for l in hostile_lengths(&mut t.rng, valid.len()) {
            let mut m = varint_bytes(l as u128);
            m.extend_from_slice(&t.rng.bytes(t.rng.clone().range(0, 16)));
            inputs.push(("hostile_len", m));
        }
        if let Some((_, one)) = &replay_one {
            inputs = vec![("replay", one.clone())];
        }
        for (class, input) in inputs {
            if input.len() > gb.usable() || t.cfg.expired() {
                continue;
            }
            // zero-width element sequences: cap the claimed length (time is O(claimed) by construction)
            if shape.has_zero_width_collection() {
                if let Ok((claimed, _)) = spec::decode_varint(64, &input) {
                    if claimed > 100_000 {
                        t.st.count("zero_width_claims_capped");
                        continue;
                    }
                }
            }
            t.st.eval();
            t.st.count(&format!("input_{}", class));
            t.st.count("concrete_inputs");
            t.st.nontrivial(fp_mix(sfp, fp(&input)));
            t.crumb.set(&format!("kind: concrete\ntype: {}\ninput: {}", name, hex(&input)));
            for at_tail in [true, false] {
                let placed: &[u8] = gb.place(&input, at_tail);
                let (res, al) = count_allocs(|| catch(|| postcard::take_from_bytes::<T>(placed).map(|(v, rem)| (v, rem.len()))));
                t.st.count(if at_tail { "guarded_decodes_tail" } else { "guarded_decodes_head" });
                let rp = vec![kv("kind", "concrete"), kv("type", name), kv("input", hex(&input))];
                match res {
                    Err(p) => {
                        t.st.violation("C04:panic", format!("{}: decoding panicked: {} (input {})", name, p, hexs(&input)), rp);
                        break;
                    }
                    Ok(r) => {
                        match r {
                            Ok(_) => t.st.count("decode_ok"),
                            Err(_) => t.st.count("decode_err"),
                        }
                        if judge_alloc {
                            let bound = 16 * (input.len() + 1) * elem_size.max(1) + 256;
                            t.st.count("alloc_bound_checked");
                            t.st.max("max_alloc_bytes_per_decode", al.bytes as u64);
                            if al.bytes > bound {
                                t.st.violation(
                                    "C04:allocation-exceeds-bound",
                                    format!("{}: {} bytes requested while decoding a {}-byte input (bound {}, largest request {}) (input {})", name, al.bytes, input.len(), bound, al.max_request, hexs(&input)),
                                    rp,
                                );
                                break;
                            }
                        } else {
                            t.st.max("max_alloc_bytes_unjudged", al.bytes as u64);
                        }
                    }
                }
                // reader-based decoding of the same bytes with a small scratch buffer: same allocation claim
                if at_tail {
                    let mut scratch = [0u8; 24];
                    let (res, al) = count_allocs(|| catch(|| postcard::from_io::<T, _>((&input[..], &mut scratch[..])).map(|_| ())));
                    t.st.count("reader_decodes_under_alloc_monitor");
                    let rp = vec![kv("kind", "concrete"), kv("type", name), kv("input", hex(&input))];
                    match res {
                        Err(p) => {
                            t.st.violation("C04:panic", format!("{}: from_io panicked: {} (input {})", name, p, hexs(&input)), rp);
                            break;
                        }
                        Ok(_) => {
                            let bound = 16 * (input.len() + 1) * elem_size.max(1) + 256;
                            if judge_alloc && al.bytes > bound {
                                t.st.violation(
                                    "C04:allocation-exceeds-bound",
                                    format!("{}: {} bytes requested while decoding a {}-byte input through from_io with 24 bytes of scratch (bound {}, largest request {}) (input {})", name, al.bytes, input.len(), bound, al.max_request, hexs(&input)),
                                    rp,
                                );
                                break;
                            }
                        }
                    }
                }
                // the checksum-verifying slice decoders sit on the same cursor: same totality / allocation claims
                let placed: &[u8] = gb.place(&input, at_tail);
                let c32 = crc::Crc::<u32>::new(&crc::CRC_32_ISCSI);
                let c8 = crc::Crc::<u8>::new(&crc::CRC_8_SMBUS);
                let c128 = crc::Crc::<u128>::new(&crc::CRC_82_DARC);
                let (res, al) = count_allocs(|| {
                    catch(|| {
                        let a = postcard::take_from_bytes_crc32::<T>(placed, c32.digest()).is_ok();
                        let b = postcard::de_flavors::crc::from_bytes_u8::<T>(placed, c8.digest()).is_ok();
                        let c = postcard::de_flavors::crc::take_from_bytes_u128::<T>(placed, c128.digest()).is_ok();
                        (a, b, c)
                    })
                });
                t.st.count("crc_checked_decodes");
                let rp = vec![kv("kind", "concrete"), kv("type", name), kv("input", hex(&input))];
                match res {
                    Err(p) => {
                        t.st.violation("C04:panic", format!("{}: checksum-verifying decoding panicked: {} (input {})", name, p, hexs(&input)), rp);
                        break;
                    }
                    Ok(_) => {
                        let bound = 3 * (16 * (input.len() + 1) * elem_size.max(1) + 256);
                        if judge_alloc && al.bytes > bound {
                            t.st.violation(
                                "C04:allocation-exceeds-bound",
                                format!("{}: {} bytes requested by three checksum-verifying decodes of a {}-byte input (bound {}, largest request {}) (input {})", name, al.bytes, input.len(), bound, al.max_request, hexs(&input)),
                                rp,
                            );
                            break;
                        }
                    }
                }
            }
            t.crumb.clear();
        }
    }
}

// ------------------------------------------------------------------ flavour objects used more than once

/// Endless deterministic byte source with short reads.
struct PatternReader {
    pos: usize,
    step: usize,
}
impl PatternReader {
    fn byte(i: usize) -> u8 {
        (i as u32).wrapping_mul(2654435761).rotate_left(7) as u8
    }
}
impl std::io::Read for PatternReader {
    fn read(&mut self, buf: &mut [u8]) -> std::io::Result<usize> {
        let n = buf.len().min(self.step.max(1));
        for (k, b) in buf[..n].iter_mut().enumerate() {
            *b = Self::byte(self.pos + k);
        }
        self.pos += n;
        Ok(n)
    }
}

/// The decode-side flavours are public API (`Deserializer::from_flavor`, `de_flavors::*`) and a caller may go on
/// using one after a request was refused (the next message on the same reader, the next field).  Operation
/// sequences against a model: scratch slots are disjoint, in order and inside the scratch buffer whatever was
/// refused before; a refused request changes nothing; the slice cursor never leaves the input.
fn c04_flavor_histories(t: &mut Tctx) {
    let mut gb = GuardBuf::new(2);
    let n = t.cfg.scale(12, 4000, 80_000);
    for it in 0..n {
        if t.cfg.expired() {
            break;
        }
        let cap = t.rng.range(0, 24);
        let at_tail = it % 2 == 0;
        let steps = t.rng.range(1, 10);
        // request sizes: fitting, just too large, and so large that pointer arithmetic wraps
        let mut plan: Vec<(bool, usize)> = Vec::new();
        for _ in 0..steps {
            let pop = t.rng.chance(1, 4);
            let ct = match t.rng.below(9) {
                0 => 0,
                1 => 1,
                2 | 3 => t.rng.range(0, cap + 2),
                4 => cap + 1 + t.rng.range(0, 40),
                5 => usize::MAX - t.rng.below(64) as usize,
                6 => usize::MAX - t.rng.below(1 << 16) as usize,
                7 => (isize::MAX as usize) + 1 - t.rng.below(3) as usize,
                _ => 1usize << t.rng.range(5, usize::BITS as usize - 1),
            };
            plan.push((pop, ct));
        }
        flavor_history_one(t, &mut gb, cap, at_tail, 1 + (it as usize % 5), &plan);
    }
    // ---- one Deserializer, several values: a refused string must not disturb the next one
    let n = t.cfg.scale(6, 1500, 30_000);
    for it in 0..n {
        if t.cfg.expired() {
            break;
        }
        let cap = t.rng.range(1, 16);
        let claimed = *t.rng.pick(&[usize::MAX, usize::MAX - 7, cap + 1, cap + 300, (isize::MAX as usize) + 1, 1 << (usize::BITS - 8)]);
        let good_len = t.rng.range(0, cap);
        deserializer_reuse_one(t, &mut gb, cap, claimed, good_len, it % 2 == 0);
    }
}

/// Plan syntax of the replay files: `pop` / `take(N)` separated by blanks.
fn parse_flavor_plan(text: &str) -> Vec<(bool, usize)> {
    text.split_whitespace()
        .filter_map(|tok| {
            if tok == "pop" {
                Some((true, 0))
            } else {
                tok.strip_prefix("take(").and_then(|r| r.strip_suffix(')')).and_then(|x| x.parse().ok()).map(|n| (false, n))
            }
        })
        .collect()
}

fn flavor_history_one(t: &mut Tctx, gb: &mut GuardBuf, cap: usize, at_tail: bool, step: usize, plan: &[(bool, usize)]) {
    use postcard::de_flavors::io::io::IOReader;
    use postcard::de_flavors::{Flavor, Slice};
    {
        let plan_text = plan.iter().map(|(p, c)| if *p { "pop".to_string() } else { format!("take({})", c) }).collect::<Vec<_>>().join(" ");
        t.st.eval();
        t.st.nontrivial(fp_mix(fp(plan_text.as_bytes()), cap as u64 ^ ((at_tail as u64) << 32)));
        // ---- reader flavour over a guarded scratch buffer
        t.crumb.set(&format!("kind: flavor-history\nflavor: IOReader\nscratch: {}\nplan: {}", cap, plan_text));
        let scratch: &mut [u8] = if at_tail { gb.tail(cap) } else { gb.head(cap) };
        let base = scratch.as_ptr() as usize;
        let r = catch(|| -> Result<(), String> {
            let mut fl = IOReader::new(PatternReader { pos: 0, step }, scratch);
            let mut used = 0usize;
            let mut rpos = 0usize;
            for (k, (pop, ct)) in plan.iter().enumerate() {
                if *pop {
                    match fl.pop() {
                        Ok(b) if b == PatternReader::byte(rpos) => rpos += 1,
                        other => return Err(format!("step {}: pop gave {:?}, expected byte {} of the stream", k, other.map_err(|e| err_label(&e)), rpos)),
                    }
                } else {
                    let fits = *ct <= cap - used;
                    match (fl.try_take_n(*ct), fits) {
                        (Ok(s), true) => {
                            let p = s.as_ptr() as usize;
                            if p != base + used || s.len() != *ct {
                                return Err(format!("step {}: take({}) returned a slot at offset {} len {} of the scratch buffer, expected offset {} len {}", k, ct, p.wrapping_sub(base) as isize, s.len(), used, ct));
                            }
                            if s.iter().enumerate().any(|(i, b)| *b != PatternReader::byte(rpos + i)) {
                                return Err(format!("step {}: take({}) did not deliver the next bytes of the stream", k, ct));
                            }
                            used += ct;
                            rpos += ct;
                        }
                        (Err(postcard::Error::DeserializeUnexpectedEnd), false) => {}
                        (Ok(s), false) => return Err(format!("step {}: take({}) succeeded (len {}) with only {} scratch bytes left", k, ct, s.len(), cap - used)),
                        (Err(e), _) => return Err(format!("step {}: take({}) with {} scratch bytes left gave {}", k, ct, cap - used, err_label(&e))),
                    }
                }
                if fl.size_hint() != Some(cap - used) {
                    return Err(format!("step {}: size_hint {:?} but {} scratch bytes are left", k, fl.size_hint(), cap - used));
                }
            }
            match fl.finalize() {
                Ok((rd, rest)) => {
                    if rest.as_ptr() as usize != base + used || rest.len() != cap - used {
                        return Err(format!("finalize returned scratch remainder at offset {} len {}, expected offset {} len {}", (rest.as_ptr() as usize).wrapping_sub(base) as isize, rest.len(), used, cap - used));
                    }
                    if rd.pos != rpos {
                        return Err(format!("the reader delivered {} bytes but {} were decoded", rd.pos, rpos));
                    }
                    Ok(())
                }
                Err(e) => Err(format!("finalize failed: {}", err_label(&e))),
            }
        });
        t.st.count("reader_flavor_histories");
        match r {
            Ok(Ok(())) => {}
            Ok(Err(m)) => t.st.violation("C04:reader-flavour-state-after-refusal", format!("IOReader over a {}-byte scratch, plan [{}]: {}", cap, plan_text, m), vec![kv("kind", "flavor-history"), kv("flavor", "IOReader"), kv("scratch", cap.to_string()), kv("plan", plan_text.clone())]),
            Err(p) => t.st.violation("C04:panic", format!("IOReader over a {}-byte scratch, plan [{}]: panicked: {}", cap, plan_text, p), vec![kv("kind", "flavor-history"), kv("flavor", "IOReader"), kv("scratch", cap.to_string()), kv("plan", plan_text.clone())]),
        }
        // ---- slice flavour over a guarded input
        t.crumb.set(&format!("kind: flavor-history\nflavor: Slice\nscratch: {}\nplan: {}", cap, plan_text));
        let data: Vec<u8> = (0..cap).map(PatternReader::byte).collect();
        let input: &[u8] = gb.place(&data, at_tail);
        let ibase = input.as_ptr() as usize;
        let r = catch(|| -> Result<(), String> {
            let mut fl = Slice::new(input);
            let mut used = 0usize;
            for (k, (pop, ct)) in plan.iter().enumerate() {
                if *pop {
                    match (fl.pop(), used < cap) {
                        (Ok(b), true) if b == PatternReader::byte(used) => used += 1,
                        (Err(postcard::Error::DeserializeUnexpectedEnd), false) => {}
                        (other, _) => return Err(format!("step {}: pop at offset {} of {} gave {:?}", k, used, cap, other.map_err(|e| err_label(&e)))),
                    }
                } else {
                    let fits = *ct <= cap - used;
                    match (fl.try_take_n(*ct), fits) {
                        (Ok(s), true) => {
                            if s.as_ptr() as usize != ibase + used || s.len() != *ct {
                                return Err(format!("step {}: take({}) returned offset {} len {}, expected offset {}", k, ct, (s.as_ptr() as usize).wrapping_sub(ibase) as isize, s.len(), used));
                            }
                            used += ct;
                        }
                        (Err(postcard::Error::DeserializeUnexpectedEnd), false) => {}
                        (Ok(s), false) => return Err(format!("step {}: take({}) succeeded (len {}) with only {} input bytes left", k, ct, s.len(), cap - used)),
                        (Err(e), _) => return Err(format!("step {}: take({}) with {} bytes left gave {}", k, ct, cap - used, err_label(&e))),
                    }
                }
                if fl.size_hint() != Some(cap - used) {
                    return Err(format!("step {}: size_hint {:?} but {} input bytes are left", k, fl.size_hint(), cap - used));
                }
            }
            match fl.finalize() {
                Ok(rest) if rest.as_ptr() as usize == ibase + used && rest.len() == cap - used => Ok(()),
                Ok(rest) => Err(format!("finalize returned offset {} len {}, expected offset {} len {}", (rest.as_ptr() as usize).wrapping_sub(ibase) as isize, rest.len(), used, cap - used)),
                Err(e) => Err(format!("finalize failed: {}", err_label(&e))),
            }
        });
        t.st.count("slice_flavor_histories");
        match r {
            Ok(Ok(())) => {}
            Ok(Err(m)) => t.st.violation("C04:slice-flavour-state-after-refusal", format!("Slice over {} bytes, plan [{}]: {}", cap, plan_text, m), vec![kv("kind", "flavor-history"), kv("flavor", "Slice"), kv("scratch", cap.to_string()), kv("plan", plan_text.clone())]),
            Err(p) => t.st.violation("C04:panic", format!("Slice over {} bytes, plan [{}]: panicked: {}", cap, plan_text, p), vec![kv("kind", "flavor-history"), kv("flavor", "Slice"), kv("scratch", cap.to_string()), kv("plan", plan_text.clone())]),
        }
        t.crumb.clear();
    }
}

fn deserializer_reuse_one(t: &mut Tctx, gb: &mut GuardBuf, cap: usize, claimed: usize, good_len: usize, at_tail: bool) {
    use postcard::de_flavors::io::io::IOReader;
    {
        t.st.eval();
        t.crumb.set(&format!("kind: deserializer-reuse\nscratch: {}\nclaimed: {}\ngood_len: {}", cap, claimed, good_len));
        let mut stream = varint_bytes(claimed as u128);
        let good: Vec<u8> = (0..good_len).map(|i| b'a' + (i % 26) as u8).collect();
        stream.extend_from_slice(&varint_bytes(good_len as u128));
        stream.extend_from_slice(&good);
        stream.push(0x2A);
        let scratch: &mut [u8] = if at_tail { gb.tail(cap) } else { gb.head(cap) };
        let base = scratch.as_ptr() as usize;
        let r = catch(|| -> Result<(), String> {
            let mut de = postcard::Deserializer::from_flavor(IOReader::new(&stream[..], scratch));
            let first = <&[u8]>::deserialize(&mut de);
            if !matches!(first, Err(postcard::Error::DeserializeUnexpectedEnd)) {
                return Err(format!("a byte string claiming {} bytes with {} bytes of scratch gave {:?}", claimed, cap, first.map(|s| s.len()).map_err(|e| err_label(&e))));
            }
            let second = <&[u8]>::deserialize(&mut de).map_err(|e| format!("the next byte string ({} bytes, fits) was refused: {}", good_len, err_label(&e)))?;
            if second != &good[..] || second.as_ptr() as usize != base {
                return Err(format!("the next byte string came back as {} at scratch offset {}", hexs(second), (second.as_ptr() as usize).wrapping_sub(base) as isize));
            }
            let third = u8::deserialize(&mut de).map_err(|e| format!("trailing byte: {}", err_label(&e)))?;
            if third != 0x2A {
                return Err(format!("trailing byte decoded as {}", third));
            }
            let (_, rest) = de.finalize().map_err(|e| format!("finalize: {}", err_label(&e)))?;
            if rest.as_ptr() as usize != base + good_len || rest.len() != cap - good_len {
                return Err(format!("scratch remainder at offset {} len {}, expected offset {} len {}", (rest.as_ptr() as usize).wrapping_sub(base) as isize, rest.len(), good_len, cap - good_len));
            }
            Ok(())
        });
        t.st.count("deserializer_reuse_cases");
        let rp = vec![kv("kind", "deserializer-reuse"), kv("scratch", cap.to_string()), kv("claimed", claimed.to_string()), kv("good_len", good_len.to_string())];
        match r {
            Ok(Ok(())) => {}
            Ok(Err(m)) => t.st.violation("C04:reader-flavour-state-after-refusal", format!("one Deserializer over a reader, {} bytes of scratch: {}", cap, m), rp),
            Err(p) => t.st.violation("C04:panic", format!("one Deserializer over a reader, {} bytes of scratch: panicked: {}", cap, p), rp),
        }
        t.crumb.clear();
    }
}

// requests the format cannot serve
#[derive(Deserialize, Debug)]
#[serde(untagged)]
#[allow(dead_code)]
enum Untagged {
    A(u8),
    B(String),
}
#[derive(Deserialize, Debug)]
#[serde(tag = "t")]
#[allow(dead_code)]
enum Internally {
    A { x: u8 },
    B { y: u16 },
}
#[derive(Debug)]
struct AnyProbe;
impl<'de> Deserialize<'de> for AnyProbe {
    fn deserialize<D: serde::Deserializer<'de>>(d: D) -> Result<Self, D::Error> {
        d.deserialize_any(serde::de::IgnoredAny).map(|_| AnyProbe)
    }
}
#[derive(Debug)]
struct IdentProbe;
impl<'de> Deserialize<'de> for IdentProbe {
    fn deserialize<D: serde::Deserializer<'de>>(d: D) -> Result<Self, D::Error> {
        d.deserialize_identifier(serde::de::IgnoredAny).map(|_| IdentProbe)
    }
}
#[derive(Deserialize, Debug)]
#[allow(dead_code)]
struct WithIgnored {
    a: u8,
    b: serde::de::IgnoredAny,
}

thread_local! {
    static REPLAY_UNSERVABLE: std::cell::RefCell<Option<Vec<u8>>> = const { std::cell::RefCell::new(None) };
}

// ------------------------------------------------------------------ recursive target types

/// Target types whose nesting depth is chosen by the INPUT, not by the type (linked list, optional chain, tree).
#[derive(Deserialize)]
#[allow(dead_code)]
enum RecList {
    Nil,
    Cons(Box<RecList>),
}
#[derive(Deserialize)]
#[allow(dead_code)]
struct RecOpt {
    next: Option<Box<RecOpt>>,
}
#[derive(Deserialize)]
#[allow(dead_code)]
struct RecTree {
    kids: Vec<RecTree>,
}

/// Child process of the recursion probe: exit 0 when decoding returned (value or error).  A stack overflow kills
/// the process with a signal, which is what the parent looks for.  The decoded value is leaked on purpose:
/// dropping a 10^6-deep chain of boxes overflows the stack too, and that is the value's problem, not the decoder's.
pub fn recprobe_child(kind: &str, depth: usize) -> i32 {
    let input: Vec<u8> = match kind {
        "enum-box" | "option-box" | "vec-tree" => {
            let mut v = vec![1u8; depth];
            v.push(0);
            v
        }
        _ => return 3,
    };
    match kind {
        "enum-box" => std::mem::forget(postcard::from_bytes::<RecList>(&input)),
        "option-box" => std::mem::forget(postcard::from_bytes::<RecOpt>(&input)),
        _ => std::mem::forget(postcard::from_bytes::<RecTree>(&input)),
    }
    0
}

/// Parent side: hostile inputs of growing depth against recursive target types, each in a child process.
fn c04_recursive_types(t: &mut Tctx) {
    if cfg!(miri) || t.tid != 0 {
        return;
    }
    let exe = match std::env::current_exe() {
        Ok(e) => e,
        Err(e) => {
            t.st.inconclusive(format!("recursion probe: cannot find the worker binary: {}", e));
            return;
        }
    };
    for kind in ["enum-box", "option-box", "vec-tree"] {
        for depth in [1_000usize, 10_000, 100_000, 1_000_000, 4_000_000] {
            t.st.eval();
            t.st.count("recursive_type_probes");
            t.st.nontrivial(fp_mix(fp(kind.as_bytes()), depth as u64));
            let out = std::process::Command::new(&exe).arg("RECPROBE").arg(kind).arg(depth.to_string()).stdout(std::process::Stdio::null()).stderr(std::process::Stdio::null()).status();
            match out {
                Ok(st) if st.success() => t.st.count("recursive_type_probes_returned"),
                Ok(st) => {
                    use std::os::unix::process::ExitStatusExt;
                    t.st.violation(
                        "C04:stack-exhaustion:recursive-target-type",
                        format!(
                            "decoding {} bytes (0x01 x {} then 0x00) into a recursive type ({}) killed the process ({}): the decoder recurses once per nesting level chosen by the input and has no depth limit",
                            depth + 1,
                            depth,
                            kind,
                            st.signal().map(|s| format!("signal {}", s)).unwrap_or_else(|| format!("exit status {:?}", st.code()))
                        ),
                        vec![kv("kind", "recursive-type"), kv("type", kind), kv("depth", depth.to_string())],
                    );
                    break;
                }
                Err(e) => {
                    t.st.inconclusive(format!("recursion probe: cannot start the child process: {}", e));
                    return;
                }
            }
        }
    }
}

fn c04_unservable(t: &mut Tctx) {
    let fixed = REPLAY_UNSERVABLE.with(|r| r.borrow().clone());
    let n = if fixed.is_some() { 1 } else { t.cfg.scale(20, 4000, 100_000) };
    for _ in 0..n {
        if t.cfg.expired() {
            break;
        }
        let input = match &fixed {
            Some(f) => f.clone(),
            None => t.rng.bytes(t.rng.clone().range(0, 12)),
        };
        t.st.eval();
        t.st.count("unservable_requests");
        let rp = vec![kv("kind", "unservable"), kv("input", hex(&input))];
        macro_rules! probe {
            ($ty:ty, $name:expr, $need:expr) => {{
                let r = catch(|| postcard::from_bytes::<$ty>(&input).map(|_| ()));
                let ok = match &r {
                    Ok(Err(postcard::Error::WontImplement)) => true,
                    // a field before the unservable one may run out of input first
                    Ok(Err(postcard::Error::DeserializeUnexpectedEnd)) if input.len() < $need => true,
                    _ => false,
                };
                if !ok {
                    t.st.violation(
                        concat!("C04:unservable-not-refused:", $name),
                        format!("{} on {} gave {:?} instead of WontImplement", $name, hexs(&input), r.map(|x| x.map_err(|e| err_label(&e)))),
                        rp.clone(),
                    );
                }
            }};
        }
        probe!(AnyProbe, "deserialize_any", 0);
        probe!(IdentProbe, "deserialize_identifier", 0);
        probe!(serde::de::IgnoredAny, "ignored_any", 0);
        probe!(Untagged, "untagged_enum", 0);
        probe!(Internally, "internally_tagged_enum", 0);
        probe!(WithIgnored, "struct_with_ignored_field", 1);
    }
}


// ------------------------------------------------------------------ lean workload for interpreters (Miri)
//
// Under Miri every interpreted instruction costs ~50 000x native, so the Tiny tier runs only
// the monitored calls themselves on exact-size heap buffers (Miri reports any out-of-bounds,
// uninitialised read or aliasing violation inside postcard's raw-pointer cursors by itself)
// plus the cheap panic / borrow-range monitors; no oracle, no fingerprints, no formatting.

#[derive(Serialize, Deserialize, Debug, PartialEq)]
struct Borrowing<'a> {
    a: u16,
    #[serde(borrow)]
    s: &'a str,
    b: &'a [u8],
    o: Option<&'a str>,
}

fn lean_decode_one(t: &mut Tctx, shape: &Shape, text: &str, input: &[u8], n: &mut [u64; 6]) {
    let exact: Box<[u8]> = input.to_vec().into_boxed_slice();
    let base = exact.as_ptr() as usize;
    let r = catch(|| with_shape(shape, || postcard::take_from_bytes::<DynVal>(&exact).map(|(_, rem)| (rem.as_ptr() as usize, rem.len()))));
    n[0] += 1;
    match r {
        Err(p) => {
            t.st.violation("C04:panic", format!("decoding panicked: {} (shape {}, input {})", p, text, hexs(input)), vec![kv("kind", "dyn"), kv("shape", text), kv("input", hex(input))]);
            return;
        }
        Ok(Ok((rp, rl))) => {
            n[1] += 1;
            if rp < base || rp + rl != base + exact.len() {
                t.st.violation("C04:remainder-outside-input", format!("remainder is not a suffix of the input (shape {})", text), vec![kv("kind", "dyn"), kv("shape", text), kv("input", hex(input))]);
            }
        }
        Ok(Err(_)) => n[2] += 1,
    }
    for (ptr, len, borrowed) in take_strs() {
        if borrowed {
            n[3] += 1;
            if ptr < base || ptr + len > base + exact.len() {
                t.st.violation("C04:borrow-outside-input", format!("borrowed range outside the input (shape {})", text), vec![kv("kind", "dyn"), kv("shape", text), kv("input", hex(input))]);
            }
        }
    }
    // reader path with an exact-size scratch buffer
    if input.len() % 3 == 0 {
        let mut scratch: Box<[u8]> = vec![0u8; input.len() % 7 + input.len() / 2].into_boxed_slice();
        let r = catch(|| {
            with_shape(shape, || {
                let rd: &[u8] = &exact;
                postcard::from_io::<DynVal, _>((rd, &mut scratch[..])).map(|_| ())
            })
        });
        n[4] += 1;
        if let Err(p) = r {
            t.st.violation("C04:panic", format!("from_io panicked: {} (shape {})", p, text), vec![kv("kind", "dyn-io"), kv("shape", text), kv("input", hex(input))]);
        }
        let _ = take_strs();
    }
}

fn lean_c04(t: &mut Tctx) {
    c04_flavor_histories(t);
    let mut n = [0u64; 6];
    let mut shapes = 0u64;
    while !t.cfg.expired() && shapes < t.cfg.knob_u64("lean_shapes", 400) {
        shapes += 1;
        // alternate: random shape / borrow-heavy shapes / concrete types
        let shape = match shapes % 4 {
            0 => Shape::Struct("T0", vec![("f0", Shape::Str), ("f1", Shape::Bytes), ("f2", Shape::Seq(Box::new(Shape::Str))), ("f3", Shape::F64)]),
            1 => Shape::Seq(Box::new(Shape::Tuple(vec![Shape::U64, Shape::Char, Shape::Option(Box::new(Shape::Bytes))]))),
            _ => {
                let d = t.rng.range(0, 3) as u32;
                gen_shape(&mut t.rng, d, &ShapeOpts::small())
            }
        };
        let text = shape.text();
        let val = {
            let mut g = ValGen::small(&mut t.rng);
            g.max_len = 3;
            g.max_str = 12;
            g.gen(&shape)
        };
        let valid = spec::encode(&val);
        if valid.len() > 96 {
            continue;
        }
        let mut inputs: Vec<Vec<u8>> = vec![valid.clone()];
        for k in 0..valid.len() {
            if k % 3 == (shapes % 3) as usize {
                inputs.push(valid[..k].to_vec());
            }
        }
        for _ in 0..6 {
            if valid.is_empty() {
                break;
            }
            let o = t.rng.below(valid.len() as u64) as usize;
            let mut m = valid.clone();
            m[o] = *t.rng.pick(&SUBST);
            inputs.push(m);
        }
        for l in [u64::MAX, (1 << 40) + 1, valid.len() as u64 + 1, valid.len() as u64] {
            let mut m = varint_bytes(l as u128);
            m.extend_from_slice(&valid);
            inputs.push(m);
        }
        inputs.push(t.rng.bytes(9));
        for input in &inputs {
            if t.cfg.expired() {
                break;
            }
            if shape.has_zero_width_collection() {
                if let Ok((claimed, _)) = spec::decode_varint(64, input) {
                    if claimed > 200 {
                        continue;
                    }
                }
            }
            lean_decode_one(t, &shape, &text, input, &mut n);
        }
        // concrete borrowed / owned types on the same bytes
        if shapes % 4 == 0 {
            for input in inputs.iter().take(12) {
                let exact: Box<[u8]> = input.clone().into_boxed_slice();
                let r = catch(|| {
                    let _ = postcard::take_from_bytes::<Borrowing>(&exact);
                    let _ = postcard::from_bytes::<Vec<u64>>(&exact);
                    let _ = postcard::from_bytes::<String>(&exact);
                    let _ = postcard::from_bytes::<(f32, &str, Vec<u8>)>(&exact);
                    let _ = postcard::from_bytes::<heapless::Vec<u16, 4>>(&exact);
                });
                n[5] += 5;
                if let Err(p) = r {
                    t.st.violation("C04:panic", format!("concrete decode panicked: {}", p), vec![kv("kind", "concrete"), kv("input", hex(input))]);
                }
            }
        }
    }
    t.st.evaluations += n[0] + n[4] + n[5];
    t.st.add("interpreted_take_from_bytes", n[0]);
    t.st.add("decode_ok", n[1]);
    t.st.add("decode_err", n[2]);
    t.st.add("borrowed_ranges_checked", n[3]);
    t.st.add("interpreted_from_io", n[4]);
    t.st.add("interpreted_concrete_decodes", n[5]);
    t.st.add("random_shapes", shapes);
    t.st.distinct_enumerated += n[0];
}

pub fn run_c04(cfg: &Cfg) -> Report {
    let mut rep = Report::new("C04");
    if let Some(p) = &cfg.replay {
        rep.stats = replay(cfg, "C04", p);
        rep.rule = "replay".into();
        return rep;
    }
    if cfg.tier == Tier::Tiny {
        let s = parallel(cfg, 1, |t| lean_c04(t));
        rep.stats.merge(s);
        rep.rule = "lean interpreter workload: monitored decodes only (exact-size heap inputs), counted, not fingerprinted".into();
        return rep;
    }
    let s = parallel(cfg, 1, |t| {
        let mut gb = GuardBuf::new(16);
        let shapes = t.cfg.scale(4, 1200, 50_000);
        for _ in 0..shapes {
            if t.cfg.expired() {
                break;
            }
            let o = if t.rng.chance(1, 3) { ShapeOpts::full() } else { ShapeOpts::small() };
            let depth = t.rng.range(0, o.max_depth as usize) as u32;
            let shape = gen_shape(&mut t.rng, depth, &o);
            let text = shape.text();
            let sfp = fp(text.as_bytes());
            t.st.count("random_shapes");
            let judge = !shape.has_map() && !shape.has_zero_width_collection();
            let val = {
                let mut g = ValGen::small(&mut t.rng);
                g.gen(&shape)
            };
            let valid = spec::encode(&val);
            let mut inputs = hostile_inputs(&mut t.rng, &shape, &valid, false);
            for l in hostile_lengths(&mut t.rng, valid.len()).into_iter().take(10) {
                let mut m = varint_bytes(l as u128);
                m.extend_from_slice(&t.rng.bytes(t.rng.clone().range(0, 12)));
                inputs.push(("hostile_len", m));
            }
            for (class, input) in inputs {
                if t.cfg.expired() {
                    break;
                }
                c04_dyn_case(t, &mut gb, &shape, &text, sfp, class, &input, judge);
            }
        }
    });
    rep.stats.merge(s);
    let s = parallel(cfg, 2, |t| c04_concrete_all(t, false));
    rep.stats.merge(s);
    let s = parallel(cfg, 3, |t| c04_unservable(t));
    rep.stats.merge(s);
    let s = parallel(cfg, 4, |t| c04_flavor_histories(t));
    rep.stats.merge(s);
    let s = parallel(&Cfg { threads: 1, ..cfg.clone() }, 5, |t| c04_recursive_types(t));
    rep.stats.merge(s);
    rep.floor("reader_flavor_histories", 100);
    rep.floor("deserializer_reuse_cases", 50);
    finish_c04(&mut rep);
    rep
}

fn c04_concrete_all(t: &mut Tctx, all_on_this_thread: bool) {
    {
        let mut gb = GuardBuf::new(16);
        let mut i = 0u64;
        macro_rules! conc {
            ($ty:ty, $elem:expr, $judge:expr) => {
                i += 1;
                if all_on_this_thread || t.mine(i) || t.cfg.tier == Tier::Thorough {
                    c04_concrete::<$ty>(t, &mut gb, stringify!($ty), $elem, $judge);
                    t.st.count("concrete_types_run");
                }
            };
        }
        conc!(Vec<u8>, 1, true);
        conc!(Vec<u64>, 8, true);
        conc!(Vec<u128>, 16, true);
        conc!(Vec<String>, 24, true);
        conc!(Vec<Vec<u8>>, 24, true);
        conc!(Vec<Option<u32>>, 8, true);
        conc!(Vec<(u8, u16, String)>, 32, true);
        conc!(String, 1, true);
        conc!(Box<[u8]>, 1, true);
        conc!(Box<str>, 1, true);
        conc!(crate::corpus::OwnedBytes, 1, true);
        conc!(std::ffi::CString, 1, true);
        conc!(Vec<crate::corpus::OwnedBytes>, 24, true);
        conc!(std::collections::VecDeque<u32>, 4, true);
        conc!(heapless::Vec<u8, 16>, 1, true);
        conc!(heapless::String<16>, 1, true);
        conc!(std::collections::BTreeMap<u8, u8>, 2, false);
        conc!(std::collections::HashMap<u16, String>, 32, false);
        conc!(std::collections::BTreeSet<u32>, 4, false);
        conc!(Vec<()>, 1, false);
        conc!(crate::corpus::Strs, 24, true);
        conc!(crate::corpus::Nested, 64, true);
        conc!(crate::corpus::Data, 32, true);
        conc!(crate::corpus::Opts, 16, true);
        conc!(crate::corpus::Floats, 8, true);
        conc!(crate::corpus::Heap, 2, true);
        conc!(crate::corpus::E129, 8, true);
        conc!(Option<Vec<u16>>, 2, true);
        conc!(Result<Vec<u8>, String>, 1, true);
    }
}

fn finish_c04(rep: &mut Report) {
    rep.rule = "cases = (target, hostile input): for random shapes and 29 concrete types (Vec<u8/u64/String/..>, String, Box<[u8]>, heapless, maps, Vec<()>, derived \
                structs/enums) the valid encoding, strict prefixes, byte substitutions, bit flips, varint re-paddings, hostile length prefixes (2^k, 2^k+-1, \
                usize::MAX, isize::MAX, remaining+-1), random bytes; each decoded twice, flush against a PROT_NONE page on either side, under catch_unwind with \
                a thread-local counting allocator; plus unservable requests (any / identifier / ignored / untagged / internally tagged); concrete types also through the CRC-8/32/82 checksum-verifying slice decoders; \
                operation histories on one flavour object (IOReader over a guarded scratch buffer, Slice over a guarded input: pops and takes of fitting, too-large and address-wrapping sizes, model-checked slot positions, size_hint and finalize) and one Deserializer decoding several values after a refused one. Non-trivial = non-empty input."
        .into();
    rep.assumptions = vec![
        "allocation bound judged as: bytes requested during the call <= 16*(len(input)+1)*size_of(element)+256, for targets without maps and without zero-width-element sequences".into(),
        "map pre-allocation (MapAccess::size_hint is uncapped by postcard, capped at 1 MiB by serde) is counted, not judged".into(),
        "sequences of zero-width elements get claimed lengths <= 100000 (time proportional to the claim by construction)".into(),
        "a worker death (SIGSEGV/SIGABRT) is attributed through the breadcrumb file by the orchestrator".into(),
    ];
    rep.floor("guarded_decodes_tail", 100);
    rep.floor("guarded_decodes_head", 100);
    rep.floor("borrowed_ranges_checked", 20);
    rep.floor("alloc_bound_checked", 100);
    rep.floor("input_hostile_len", 50);
    rep.floor("unservable_requests", 10);
    rep.floor("decode_ok", 10);
    rep.floor("decode_err", 10);
}

// ------------------------------------------------------------------ replay

fn replay(cfg: &Cfg, which: &str, p: &std::path::Path) -> Stats {
    let mut st = Stats::new();
    let m = match read_replay(p) {
        Ok(m) => m,
        Err(e) => {
            st.inconclusive(e);
            return st;
        }
    };
    let kind = m.get("kind").cloned().unwrap_or_default();
    let input = unhex(m.get("input").map(|s| s.as_str()).unwrap_or("")).unwrap_or_default();
    let which = which.to_string();
    let s = parallel(&Cfg { threads: 1, ..cfg.clone() }, 9, |t| {
        if kind.starts_with("dyn") {
            let text = m.get("shape").cloned().unwrap_or_default();
            let shape = match Shape::parse(&text) {
                Ok(s) => s,
                Err(e) => {
                    t.st.inconclusive(format!("cannot parse shape: {}", e));
                    return;
                }
            };
            if which == "C03" {
                c03_compare(t, &shape, &text, 0, "replay", &input);
            } else {
                let mut gb = GuardBuf::new(16);
                let judge = !shape.has_map() && !shape.has_zero_width_collection();
                c04_dyn_case(t, &mut gb, &shape, &text, 0, "replay", &input, judge);
            }
        } else if kind == "huge_payload" && which == "C03" {
            c03_huge_payloads(t);
        } else if kind == "corpus" && which == "C03" {
            let name = m.get("type").cloned().unwrap_or_default();
            REPLAY_CONCRETE.with(|r| *r.borrow_mut() = Some((name, input.clone())));
            c03_corpus_all(t, true);
            REPLAY_CONCRETE.with(|r| *r.borrow_mut() = None);
        } else if kind == "concrete" && which == "C04" {
            let name = m.get("type").cloned().unwrap_or_default();
            REPLAY_CONCRETE.with(|r| *r.borrow_mut() = Some((name, input.clone())));
            c04_concrete_all(t, true);
            REPLAY_CONCRETE.with(|r| *r.borrow_mut() = None);
        } else if kind == "recursive-type" && which == "C04" {
            c04_recursive_types(t);
        } else if kind == "flavor-history" && which == "C04" {
            let cap: usize = m.get("scratch").or(m.get("input")).and_then(|s| s.parse().ok()).unwrap_or(0);
            let plan = parse_flavor_plan(m.get("plan").map(|s| s.as_str()).unwrap_or(""));
            let mut gb = GuardBuf::new(2);
            for at_tail in [true, false] {
                for step in [1usize, 3] {
                    flavor_history_one(t, &mut gb, cap, at_tail, step, &plan);
                }
            }
        } else if kind == "deserializer-reuse" && which == "C04" {
            let g = |k: &str| m.get(k).and_then(|s| s.parse::<usize>().ok()).unwrap_or(1);
            let mut gb = GuardBuf::new(2);
            for at_tail in [true, false] {
                deserializer_reuse_one(t, &mut gb, g("scratch"), g("claimed"), g("good_len"), at_tail);
            }
        } else if kind == "unservable" && which == "C04" {
            REPLAY_UNSERVABLE.with(|r| *r.borrow_mut() = Some(input.clone()));
            c04_unservable(t);
            REPLAY_UNSERVABLE.with(|r| *r.borrow_mut() = None);
        } else {
            t.st.inconclusive(format!(
                "replay of kind '{}' is by re-running the check (the concrete case is in the replay file: type and input bytes)",
                kind
            ));
        }
    });
    st.merge(s);
    // a replay that re-observes nothing is not "held"
    st.evaluations = st.evaluations.max(1);
    let _ = J::Null;
    st
}
