//! Helpers shared by the checks.
use crate::spec::SpecErr;
use postcard::Error;

pub fn err_label(e: &Error) -> &'static str {
    match e {
        Error::WontImplement => "WontImplement",
        Error::NotYetImplemented => "NotYetImplemented",
        Error::SerializeBufferFull => "SerializeBufferFull",
        Error::SerializeSeqLengthUnknown => "SerializeSeqLengthUnknown",
        Error::DeserializeUnexpectedEnd => "DeserializeUnexpectedEnd",
        Error::DeserializeBadVarint => "DeserializeBadVarint",
        Error::DeserializeBadBool => "DeserializeBadBool",
        Error::DeserializeBadChar => "DeserializeBadChar",
        Error::DeserializeBadUtf8 => "DeserializeBadUtf8",
        Error::DeserializeBadOption => "DeserializeBadOption",
        Error::DeserializeBadEnum => "DeserializeBadEnum",
        Error::DeserializeBadEncoding => "DeserializeBadEncoding",
        Error::DeserializeBadCrc => "DeserializeBadCrc",
        Error::SerdeSerCustom => "SerdeSerCustom",
        Error::SerdeDeCustom => "SerdeDeCustom",
        Error::CollectStrError => "CollectStrError",
        _ => "Other",
    }
}

/// Does the real error kind name the rule the oracle says was violated first?
pub fn err_matches(spec: SpecErr, real: &Error) -> bool {
    match spec {
        SpecErr::UnexpectedEnd => *real == Error::DeserializeUnexpectedEnd,
        SpecErr::BadVarint => *real == Error::DeserializeBadVarint,
        SpecErr::BadBool => *real == Error::DeserializeBadBool,
        SpecErr::BadOption => *real == Error::DeserializeBadOption,
        SpecErr::BadUtf8 => *real == Error::DeserializeBadUtf8,
        SpecErr::BadChar => *real == Error::DeserializeBadChar,
        // serde-derive's mapping of an undeclared discriminant: any error is accepted
        SpecErr::BadEnumIndex => true,
    }
}

pub fn hexs(b: &[u8]) -> String {
    if b.len() > 4096 {
        format!("{}..({} bytes)", crate::json::hex(&b[..4096]), b.len())
    } else {
        crate::json::hex(b)
    }
}
