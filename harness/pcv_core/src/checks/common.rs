//! Helpers shared by the checks.
use crate::spec::SpecErr;
use postcard::Error;

pub fn err_label(e: &Error) -> &'static str {
    match e {
        Error::WontImplement => "WontImplement",
        Error::NotYetImplemented => "NotYetImplemented",
        Error::SerializeBufferFull => "SerializeBufferFull",
        Error::SerializeSeqLengthUnknown => "SerializeSeqLengthUnknown",
        Error::DeserializeUnexpectedEnd => "DeserializeUnexpectedEnd",
        Error::DeserializeBadVarint => "DeserializeBadVarint",
        Error::DeserializeBadBool => "DeserializeBadBool",
        Error::DeserializeBadChar => "DeserializeBadChar",
        Error::DeserializeBadUtf8 => "DeserializeBadUtf8",
        Error::DeserializeBadOption => "DeserializeBadOption",
        Error::DeserializeBadEnum => "DeserializeBadEnum",
        Error::DeserializeBadEncoding => "DeserializeBadEncoding",
        Error::DeserializeBadCrc => "DeserializeBadCrc",
        Error::SerdeSerCustom => "SerdeSerCustom",
        Error::SerdeDeCustom => "SerdeDeCustom",
        Error::CollectStrError => "CollectStrError",
        _ => "Other",
    }
}

/// Does the real error kind name the rule the oracle says was violated first?
pub fn err_matches(spec: SpecErr, real: &Error) -> bool {
    match spec {
        SpecErr::UnexpectedEnd => *real == Error::DeserializeUnexpectedEnd,
        SpecErr::BadVarint => *real == Error::DeserializeBadVarint,
        SpecErr::BadBool => *real == Error::DeserializeBadBool,
        SpecErr::BadOption => *real == Error::DeserializeBadOption,
        SpecErr::BadUtf8 => *real == Error::DeserializeBadUtf8,
        SpecErr::BadChar => *real == Error::DeserializeBadChar,
        // serde-derive's mapping of an undeclared discriminant: any error is accepted
        SpecErr::BadEnumIndex => true,
    }
}

pub fn hexs(b: &[u8]) -> String {
    if b.len() > 4096 {
        format!("{}..({} bytes)", crate::json::hex(&b[..4096]), b.len())
    } else {
        crate::json::hex(b)
    }
}

// ------------------------------------------------------------------ values that can be serialised once

/// A sequence backed by a one-shot source (an iterator moved out of a `RefCell<Option<..>>`, the usual
/// way to serialise an iterator): the first `serialize` call emits it, a second one fails.
pub struct OneShot(pub std::cell::RefCell<Option<Vec<u16>>>);
impl serde::Serialize for OneShot {
    fn serialize<S: serde::Serializer>(&self, s: S) -> Result<S::Ok, S::Error> {
        match self.0.borrow_mut().take() {
            Some(v) => s.collect_seq(v.into_iter()),
            None => Err(<S::Error as serde::ser::Error>::custom("value was already serialised once")),
        }
    }
}
/// A frame that stamps itself with a sequence number each time it is serialised.
pub struct Stamped(pub std::cell::Cell<u32>, pub u16);
impl serde::Serialize for Stamped {
    fn serialize<S: serde::Serializer>(&self, s: S) -> Result<S::Ok, S::Error> {
        use serde::ser::SerializeTuple;
        let n = self.0.get();
        self.0.set(n + 1);
        let mut t = s.serialize_tuple(2)?;
        t.serialize_element(&n)?;
        t.serialize_element(&self.1)?;
        t.end()
    }
}

/// Every public serialising entry point on a fresh one-shot / stamped value: each must deliver the framing of the
/// encoding that the unbounded reference (`to_allocvec` on a fresh value) delivers - i.e. behave the same for
/// every storage - and a slice of sufficient capacity must succeed.  Violations are reported as
/// `<prop>:impure-value-differs:<entry point>`.
pub fn impure_values_lane(t: &mut crate::run::Tctx, prop: &str) {
    use crate::mem::catch;
    use crate::refs::cobs_encode;
    use crate::run::kv;
    let c32 = crc::Crc::<u32>::new(&crc::CRC_32_ISCSI);
    let n = t.cfg.scale(2, 200, 2000);
    for _ in 0..n {
        if t.cfg.expired() {
            break;
        }
        let items: Vec<u16> = (0..t.rng.range(0, 5)).map(|_| crate::gen::gen_uint(&mut t.rng, 16) as u16).collect();
        let payload = crate::gen::gen_uint(&mut t.rng, 16) as u16;
        for which in 0..2 {
            let plain: Vec<u8> = if which == 0 {
                crate::spec::encode(&crate::model::Val::Seq(items.iter().map(|x| crate::model::Val::U16(*x)).collect()))
            } else {
                crate::spec::encode(&crate::model::Val::Tuple(vec![crate::model::Val::U32(0), crate::model::Val::U16(payload)]))
            };
            let mut cobs = cobs_encode(&plain);
            cobs.push(0);
            let mut crc = plain.clone();
            crc.extend_from_slice(&c32.checksum(&plain).to_le_bytes());
            let l = plain.len();
            macro_rules! fresh {
                () => {{
                    enum Either {
                        A(OneShot),
                        B(Stamped),
                    }
                    impl serde::Serialize for Either {
                        fn serialize<S: serde::Serializer>(&self, s: S) -> Result<S::Ok, S::Error> {
                            match self {
                                Either::A(x) => x.serialize(s),
                                Either::B(x) => x.serialize(s),
                            }
                        }
                    }
                    if which == 0 {
                        Either::A(OneShot(std::cell::RefCell::new(Some(items.clone()))))
                    } else {
                        Either::B(Stamped(std::cell::Cell::new(0), payload))
                    }
                }};
            }
            let mut results: Vec<(&str, Result<postcard::Result<Vec<u8>>, String>, &Vec<u8>)> = Vec::new();
            results.push(("to_allocvec", catch(|| postcard::to_allocvec(&fresh!())), &plain));
            results.push(("to_stdvec", catch(|| postcard::to_stdvec(&fresh!())), &plain));
            results.push(("to_extend", catch(|| postcard::to_extend(&fresh!(), Vec::new())), &plain));
            results.push(("to_io", catch(|| postcard::to_io(&fresh!(), Vec::new())), &plain));
            results.push(("to_vec<32>", catch(|| postcard::to_vec::<_, 32>(&fresh!()).map(|v| v.to_vec())), &plain));
            for extra in [0usize, 3] {
                results.push((
                    if extra == 0 { "to_slice(exact)" } else { "to_slice(+3)" },
                    catch(|| {
                        let mut b = vec![0u8; l + extra];
                        postcard::to_slice(&fresh!(), &mut b).map(|s| s.to_vec())
                    }),
                    &plain,
                ));
            }
            results.push((
                "serialize_with_flavor(Slice)",
                catch(|| {
                    let mut b = vec![0u8; l + 1];
                    postcard::serialize_with_flavor(&fresh!(), postcard::ser_flavors::Slice::new(&mut b)).map(|s| s.to_vec())
                }),
                &plain,
            ));
            results.push(("to_allocvec_cobs", catch(|| postcard::to_allocvec_cobs(&fresh!())), &cobs));
            results.push(("to_stdvec_cobs", catch(|| postcard::to_stdvec_cobs(&fresh!())), &cobs));
            results.push(("to_vec_cobs<40>", catch(|| postcard::to_vec_cobs::<_, 40>(&fresh!()).map(|v| v.to_vec())), &cobs));
            results.push((
                "to_slice_cobs(exact)",
                catch(|| {
                    let mut b = vec![0u8; cobs.len()];
                    postcard::to_slice_cobs(&fresh!(), &mut b).map(|s| s.to_vec())
                }),
                &cobs,
            ));
            results.push(("to_allocvec_crc32", catch(|| postcard::to_allocvec_crc32(&fresh!(), c32.digest())), &crc));
            results.push(("to_stdvec_crc32", catch(|| postcard::to_stdvec_crc32(&fresh!(), c32.digest())), &crc));
            results.push(("to_vec_crc32<40>", catch(|| postcard::to_vec_crc32::<_, 40>(&fresh!(), c32.digest()).map(|v| v.to_vec())), &crc));
            results.push((
                "to_slice_crc32(exact)",
                catch(|| {
                    let mut b = vec![0u8; crc.len()];
                    postcard::to_slice_crc32(&fresh!(), &mut b, c32.digest()).map(|s| s.to_vec())
                }),
                &crc,
            ));
            t.st.count("impure_value_cases");
            for (entry, r, want) in results {
                t.st.eval();
                match r {
                    Ok(Ok(b)) if b == **want => {}
                    other => {
                        t.st.violation(
                            &format!("{}:impure-value-differs:{}", prop, entry),
                            format!(
                                "{} of a fresh {} gave {:?}, expected {} (a value whose Serialize impl is not idempotent must be serialised once, whatever the storage)",
                                entry,
                                if which == 0 { "one-shot sequence" } else { "self-stamping frame" },
                                other.map(|r| r.map(|b| hexs(&b)).map_err(|e| err_label(&e))),
                                hexs(want)
                            ),
                            vec![kv("kind", "impure"), kv("entry", entry)],
                        );
                        return;
                    }
                }
            }
            // the size counter on its own fresh value
            match catch(|| postcard::experimental::serialized_size(&fresh!())) {
                Ok(Ok(k)) if k == l => {}
                other => {
                    t.st.violation(&format!("{}:impure-value-differs:serialized_size", prop), format!("serialized_size of a fresh impure value gave {:?}, expected {}", other.map(|r| r.map_err(|e| err_label(&e))), l), vec![kv("kind", "impure"), kv("entry", "serialized_size")]);
                    return;
                }
            }
        }
    }
}

// ------------------------------------------------------------------ sequences of top-level calls on one thread

/// Emits one field, then refuses (a custom error from a nested value).
pub struct FailAfter(pub u32);
impl serde::Serialize for FailAfter {
    fn serialize<S: serde::Serializer>(&self, s: S) -> Result<S::Ok, S::Error> {
        use serde::ser::SerializeTuple;
        let mut t = s.serialize_tuple(3)?;
        t.serialize_element(&self.0)?;
        t.serialize_element("partly written")?;
        Err(<S::Error as serde::ser::Error>::custom("refused after two elements"))
    }
}
/// A sequence of undeclared length in a non-first position.
pub struct UnknownLenSecond(pub u16);
impl serde::Serialize for UnknownLenSecond {
    fn serialize<S: serde::Serializer>(&self, s: S) -> Result<S::Ok, S::Error> {
        use serde::ser::SerializeTuple;
        struct Hidden;
        impl serde::Serialize for Hidden {
            fn serialize<S: serde::Serializer>(&self, s: S) -> Result<S::Ok, S::Error> {
                use serde::ser::SerializeSeq;
                let mut q = s.serialize_seq(None)?;
                q.serialize_element(&1u8)?;
                q.end()
            }
        }
        let mut t = s.serialize_tuple(2)?;
        t.serialize_element(&self.0)?;
        t.serialize_element(&Hidden)?;
        t.end()
    }
}
/// Display that writes some text and then fails (or not), serialised through collect_str.
pub struct DisplayMaybeFails(pub String, pub bool);
impl std::fmt::Display for DisplayMaybeFails {
    fn fmt(&self, f: &mut std::fmt::Formatter<'_>) -> std::fmt::Result {
        f.write_str("temp=")?;
        f.write_str(&self.0)?;
        if self.1 {
            return Err(std::fmt::Error);
        }
        Ok(())
    }
}
impl serde::Serialize for DisplayMaybeFails {
    fn serialize<S: serde::Serializer>(&self, s: S) -> Result<S::Ok, S::Error> {
        s.collect_str(self)
    }
}
/// An ordinary message with a fixed-width field.
#[derive(serde::Serialize)]
pub struct GoodMsg {
    pub a: u32,
    #[serde(with = "postcard::fixint::le")]
    pub b: u32,
    pub s: String,
    #[serde(with = "postcard::fixint::be")]
    pub c: u16,
}
impl GoodMsg {
    pub fn spec_bytes(&self) -> Vec<u8> {
        let mut o = Vec::new();
        crate::spec::varint(self.a as u128, &mut o);
        o.extend_from_slice(&self.b.to_le_bytes());
        crate::spec::varint(self.s.len() as u128, &mut o);
        o.extend_from_slice(self.s.as_bytes());
        o.extend_from_slice(&self.c.to_be_bytes());
        o
    }
}

/// Every public encode entry point, called several times in a row on one thread: after a call that FAILED half
/// way (a value that refuses, an undeclared sequence length, a Display impl that writes and then fails), after a
/// call that succeeded, and re-entrantly (a Serialize impl that encodes a sub-message with the same entry point
/// and embeds it as bytes).  Each successful call must produce exactly the framing of its own value's encoding:
/// nothing may leak from one top-level call into another.  Signature `<prop>:call-sequence-differs:<entry>`.
static SEQ_C32: crc::Crc<u32> = crc::Crc::<u32>::new(&crc::CRC_32_ISCSI);

pub fn call_sequences_lane(t: &mut crate::run::Tctx, prop: &str) {
    use crate::mem::catch;
    use crate::refs::cobs_encode;
    use crate::run::kv;
    let c32 = &SEQ_C32;
    let rounds = t.cfg.scale(1, 60, 600);
    #[derive(Clone, Copy, PartialEq)]
    enum Fr {
        Plain,
        Cobs,
        Crc,
    }
    let frame = |f: Fr, plain: &[u8]| -> Vec<u8> {
        match f {
            Fr::Plain => plain.to_vec(),
            Fr::Cobs => {
                let mut o = cobs_encode(plain);
                o.push(0);
                o
            }
            Fr::Crc => {
                let mut o = plain.to_vec();
                o.extend_from_slice(&c32.checksum(plain).to_le_bytes());
                o
            }
        }
    };
    for round in 0..rounds {
        if t.cfg.expired() {
            break;
        }
        let g1 = GoodMsg { a: crate::gen::gen_uint(&mut t.rng, 32) as u32, b: t.rng.next() as u32, s: crate::gen::gen_string(&mut t.rng, 10), c: t.rng.next() as u16 };
        let g2 = GoodMsg { a: round as u32, b: !g1.b, s: crate::gen::gen_string(&mut t.rng, 40), c: 0x0102 };
        let text = crate::gen::gen_string(&mut t.rng, 8);
        macro_rules! entry {
            ($name:expr, $fr:expr, |$v:ident| $call:expr) => {{
                let fr: Fr = $fr;
                // a sub-message encoded by the SAME entry point from inside a Serialize impl
                struct Outer<'a>(&'a GoodMsg, u16);
                impl serde::Serialize for Outer<'_> {
                    fn serialize<S: serde::Serializer>(&self, s: S) -> Result<S::Ok, S::Error> {
                        use serde::ser::SerializeTuple;
                        let mut t = s.serialize_tuple(3)?;
                        t.serialize_element(&0x0403_0201u32)?;
                        let inner: Vec<u8> = {
                            let $v = self.0;
                            let r: postcard::Result<Vec<u8>> = $call;
                            r.map_err(|_| <S::Error as serde::ser::Error>::custom("inner encode failed"))?
                        };
                        t.serialize_element(&Bytes(&inner))?;
                        t.serialize_element(&self.1)?;
                        t.end()
                    }
                }
                let mut steps: Vec<(&str, bool, Result<postcard::Result<Vec<u8>>, String>, Vec<u8>)> = Vec::new();
                steps.push(("value that refuses after two elements", false, catch(|| { let $v = &FailAfter(round as u32); $call }), Vec::new()));
                steps.push(("good value after a refused one", true, catch(|| { let $v = &g1; $call }), frame(fr, &g1.spec_bytes())));
                steps.push(("sequence of undeclared length in second position", false, catch(|| { let $v = &UnknownLenSecond(7); $call }), Vec::new()));
                steps.push(("good value after the undeclared-length failure", true, catch(|| { let $v = &g2; $call }), frame(fr, &g2.spec_bytes())));
                steps.push(("Display that writes and then fails", false, catch(|| { let $v = &DisplayMaybeFails(text.clone(), true); $call }), Vec::new()));
                steps.push(("formatted text after the failing Display", true, catch(|| { let $v = &DisplayMaybeFails(text.clone(), false); $call }), frame(fr, &crate::spec::encode(&crate::model::Val::Str(format!("temp={}", text))))));
                steps.push(("good value after a good one", true, catch(|| { let $v = &g1; $call }), frame(fr, &g1.spec_bytes())));
                {
                    // re-entrant call: expected = tuple(u32, bytes(inner frame), u16)
                    let inner = frame(fr, &g2.spec_bytes());
                    let mut want = Vec::new();
                    crate::spec::varint(0x0403_0201u128, &mut want);
                    crate::spec::varint(inner.len() as u128, &mut want);
                    want.extend_from_slice(&inner);
                    crate::spec::varint(513, &mut want);
                    steps.push(("message embedding a sub-message encoded by the same entry point", true, catch(|| { let o = Outer(&g2, 513); let $v = &o; $call }), frame(fr, &want)));
                }
                steps.push(("good value after the re-entrant one", true, catch(|| { let $v = &g2; $call }), frame(fr, &g2.spec_bytes())));
                for (what, should_succeed, got, want) in steps {
                    t.st.eval();
                    t.st.count("call_sequence_steps");
                    let okay = match (&got, should_succeed) {
                        (Ok(Ok(b)), true) => *b == want,
                        (Ok(Err(_)), false) => true,
                        _ => false,
                    };
                    if !okay {
                        t.st.violation(
                            &format!("{}:call-sequence-differs:{}", prop, $name),
                            format!(
                                "{}, step '{}': got {:?}, expected {}",
                                $name,
                                what,
                                got.map(|r| r.map(|b| hexs(&b)).map_err(|e| err_label(&e))),
                                if should_succeed { hexs(&want) } else { "an error".to_string() }
                            ),
                            vec![kv("kind", "call-sequence"), kv("entry", $name)],
                        );
                        return;
                    }
                }
            }};
        }
        entry!("to_allocvec", Fr::Plain, |v| postcard::to_allocvec(v));
        entry!("to_stdvec", Fr::Plain, |v| postcard::to_stdvec(v));
        entry!("to_extend", Fr::Plain, |v| postcard::to_extend(v, Vec::new()));
        entry!("to_io", Fr::Plain, |v| postcard::to_io(v, Vec::new()));
        entry!("to_eio", Fr::Plain, |v| postcard::to_eio(v, super::io::EioEnd(super::io::Endpoint::writer(super::io::Sched::Whole, super::io::Fault::None))).map(|w| w.0.data));
        entry!("to_vec<160>", Fr::Plain, |v| postcard::to_vec::<_, 160>(v).map(|x| x.to_vec()));
        entry!("to_slice", Fr::Plain, |v| {
            let mut b = vec![0u8; 200];
            postcard::to_slice(v, &mut b).map(|s| s.to_vec())
        });
        entry!("to_allocvec_cobs", Fr::Cobs, |v| postcard::to_allocvec_cobs(v));
        entry!("to_stdvec_cobs", Fr::Cobs, |v| postcard::to_stdvec_cobs(v));
        entry!("to_vec_cobs<200>", Fr::Cobs, |v| postcard::to_vec_cobs::<_, 200>(v).map(|x| x.to_vec()));
        entry!("to_slice_cobs", Fr::Cobs, |v| {
            let mut b = vec![0u8; 240];
            postcard::to_slice_cobs(v, &mut b).map(|s| s.to_vec())
        });
        entry!("to_allocvec_crc32", Fr::Crc, |v| postcard::to_allocvec_crc32(v, SEQ_C32.digest()));
        entry!("to_stdvec_crc32", Fr::Crc, |v| postcard::to_stdvec_crc32(v, SEQ_C32.digest()));
        entry!("to_vec_crc32<200>", Fr::Crc, |v| postcard::to_vec_crc32::<_, 200>(v, SEQ_C32.digest()).map(|x| x.to_vec()));
        entry!("to_slice_crc32", Fr::Crc, |v| {
            let mut b = vec![0u8; 240];
            postcard::to_slice_crc32(v, &mut b, SEQ_C32.digest()).map(|s| s.to_vec())
        });
        t.st.count("call_sequence_rounds");
    }
}

/// bytes as `serialize_bytes`
struct Bytes<'a>(&'a [u8]);
impl serde::Serialize for Bytes<'_> {
    fn serialize<S: serde::Serializer>(&self, s: S) -> Result<S::Ok, S::Error> {
        s.serialize_bytes(self.0)
    }
}
