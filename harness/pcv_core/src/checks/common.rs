//! Helpers shared by the checks.
use crate::spec::SpecErr;
use postcard::Error;

pub fn err_label(e: &Error) -> &'static str {
    match e {
        Error::WontImplement => "WontImplement",
        Error::NotYetImplemented => "NotYetImplemented",
        Error::SerializeBufferFull => "SerializeBufferFull",
        Error::SerializeSeqLengthUnknown => "SerializeSeqLengthUnknown",
        Error::DeserializeUnexpectedEnd => "DeserializeUnexpectedEnd",
        Error::DeserializeBadVarint => "DeserializeBadVarint",
        Error::DeserializeBadBool => "DeserializeBadBool",
        Error::DeserializeBadChar => "DeserializeBadChar",
        Error::DeserializeBadUtf8 => "DeserializeBadUtf8",
        Error::DeserializeBadOption => "DeserializeBadOption",
        Error::DeserializeBadEnum => "DeserializeBadEnum",
        Error::DeserializeBadEncoding => "DeserializeBadEncoding",
        Error::DeserializeBadCrc => "DeserializeBadCrc",
        Error::SerdeSerCustom => "SerdeSerCustom",
        Error::SerdeDeCustom => "SerdeDeCustom",
        Error::CollectStrError => "CollectStrError",
        _ => "Other",
    }
}

/// Does the real error kind name the rule the oracle says was violated first?
pub fn err_matches(spec: SpecErr, real: &Error) -> bool {
    match spec {
        SpecErr::UnexpectedEnd => *real == Error::DeserializeUnexpectedEnd,
        SpecErr::BadVarint => *real == Error::DeserializeBadVarint,
        SpecErr::BadBool => *real == Error::DeserializeBadBool,
        SpecErr::BadOption => *real == Error::DeserializeBadOption,
        SpecErr::BadUtf8 => *real == Error::DeserializeBadUtf8,
        SpecErr::BadChar => *real == Error::DeserializeBadChar,
        // serde-derive's mapping of an undeclared discriminant: any error is accepted
        SpecErr::BadEnumIndex => true,
    }
}

pub fn hexs(b: &[u8]) -> String {
    if b.len() > 4096 {
        format!("{}..({} bytes)", crate::json::hex(&b[..4096]), b.len())
    } else {
        crate::json::hex(b)
    }
}

// ------------------------------------------------------------------ values that can be serialised once

/// A sequence backed by a one-shot source (an iterator moved out of a `RefCell<Option<..>>`, the usual
/// way to serialise an iterator): the first `serialize` call emits it, a second one fails.
pub struct OneShot(pub std::cell::RefCell<Option<Vec<u16>>>);
impl serde::Serialize for OneShot {
    fn serialize<S: serde::Serializer>(&self, s: S) -> Result<S::Ok, S::Error> {
        match self.0.borrow_mut().take() {
            Some(v) => s.collect_seq(v.into_iter()),
            None => Err(<S::Error as serde::ser::Error>::custom("value was already serialised once")),
        }
    }
}
/// A frame that stamps itself with a sequence number each time it is serialised.
pub struct Stamped(pub std::cell::Cell<u32>, pub u16);
impl serde::Serialize for Stamped {
    fn serialize<S: serde::Serializer>(&self, s: S) -> Result<S::Ok, S::Error> {
        use serde::ser::SerializeTuple;
        let n = self.0.get();
        self.0.set(n + 1);
        let mut t = s.serialize_tuple(2)?;
        t.serialize_element(&n)?;
        t.serialize_element(&self.1)?;
        t.end()
    }
}

/// Every public serialising entry point on a fresh one-shot / stamped value: each must deliver the framing of the
/// encoding that the unbounded reference (`to_allocvec` on a fresh value) delivers - i.e. behave the same for
/// every storage - and a slice of sufficient capacity must succeed.  Violations are reported as
/// `<prop>:impure-value-differs:<entry point>`.
pub fn impure_values_lane(t: &mut crate::run::Tctx, prop: &str) {
    use crate::mem::catch;
    use crate::refs::cobs_encode;
    use crate::run::kv;
    let c32 = crc::Crc::<u32>::new(&crc::CRC_32_ISCSI);
    let n = t.cfg.scale(2, 200, 2000);
    for _ in 0..n {
        if t.cfg.expired() {
            break;
        }
        let items: Vec<u16> = (0..t.rng.range(0, 5)).map(|_| crate::gen::gen_uint(&mut t.rng, 16) as u16).collect();
        let payload = crate::gen::gen_uint(&mut t.rng, 16) as u16;
        for which in 0..2 {
            let plain: Vec<u8> = if which == 0 {
                crate::spec::encode(&crate::model::Val::Seq(items.iter().map(|x| crate::model::Val::U16(*x)).collect()))
            } else {
                crate::spec::encode(&crate::model::Val::Tuple(vec![crate::model::Val::U32(0), crate::model::Val::U16(payload)]))
            };
            let mut cobs = cobs_encode(&plain);
            cobs.push(0);
            let mut crc = plain.clone();
            crc.extend_from_slice(&c32.checksum(&plain).to_le_bytes());
            let l = plain.len();
            macro_rules! fresh {
                () => {{
                    enum Either {
                        A(OneShot),
                        B(Stamped),
                    }
                    impl serde::Serialize for Either {
                        fn serialize<S: serde::Serializer>(&self, s: S) -> Result<S::Ok, S::Error> {
                            match self {
                                Either::A(x) => x.serialize(s),
                                Either::B(x) => x.serialize(s),
                            }
                        }
                    }
                    if which == 0 {
                        Either::A(OneShot(std::cell::RefCell::new(Some(items.clone()))))
                    } else {
                        Either::B(Stamped(std::cell::Cell::new(0), payload))
                    }
                }};
            }
            let mut results: Vec<(&str, Result<postcard::Result<Vec<u8>>, String>, &Vec<u8>)> = Vec::new();
            results.push(("to_allocvec", catch(|| postcard::to_allocvec(&fresh!())), &plain));
            results.push(("to_stdvec", catch(|| postcard::to_stdvec(&fresh!())), &plain));
            results.push(("to_extend", catch(|| postcard::to_extend(&fresh!(), Vec::new())), &plain));
            results.push(("to_io", catch(|| postcard::to_io(&fresh!(), Vec::new())), &plain));
            results.push(("to_vec<32>", catch(|| postcard::to_vec::<_, 32>(&fresh!()).map(|v| v.to_vec())), &plain));
            for extra in [0usize, 3] {
                results.push((
                    if extra == 0 { "to_slice(exact)" } else { "to_slice(+3)" },
                    catch(|| {
                        let mut b = vec![0u8; l + extra];
                        postcard::to_slice(&fresh!(), &mut b).map(|s| s.to_vec())
                    }),
                    &plain,
                ));
            }
            results.push((
                "serialize_with_flavor(Slice)",
                catch(|| {
                    let mut b = vec![0u8; l + 1];
                    postcard::serialize_with_flavor(&fresh!(), postcard::ser_flavors::Slice::new(&mut b)).map(|s| s.to_vec())
                }),
                &plain,
            ));
            results.push(("to_allocvec_cobs", catch(|| postcard::to_allocvec_cobs(&fresh!())), &cobs));
            results.push(("to_stdvec_cobs", catch(|| postcard::to_stdvec_cobs(&fresh!())), &cobs));
            results.push(("to_vec_cobs<40>", catch(|| postcard::to_vec_cobs::<_, 40>(&fresh!()).map(|v| v.to_vec())), &cobs));
            results.push((
                "to_slice_cobs(exact)",
                catch(|| {
                    let mut b = vec![0u8; cobs.len()];
                    postcard::to_slice_cobs(&fresh!(), &mut b).map(|s| s.to_vec())
                }),
                &cobs,
            ));
            results.push(("to_allocvec_crc32", catch(|| postcard::to_allocvec_crc32(&fresh!(), c32.digest())), &crc));
            results.push(("to_stdvec_crc32", catch(|| postcard::to_stdvec_crc32(&fresh!(), c32.digest())), &crc));
            results.push(("to_vec_crc32<40>", catch(|| postcard::to_vec_crc32::<_, 40>(&fresh!(), c32.digest()).map(|v| v.to_vec())), &crc));
            results.push((
                "to_slice_crc32(exact)",
                catch(|| {
                    let mut b = vec![0u8; crc.len()];
                    postcard::to_slice_crc32(&fresh!(), &mut b, c32.digest()).map(|s| s.to_vec())
                }),
                &crc,
            ));
            t.st.count("impure_value_cases");
            for (entry, r, want) in results {
                t.st.eval();
                match r {
                    Ok(Ok(b)) if b == **want => {}
                    other => {
                        t.st.violation(
                            &format!("{}:impure-value-differs:{}", prop, entry),
                            format!(
                                "{} of a fresh {} gave {:?}, expected {} (a value whose Serialize impl is not idempotent must be serialised once, whatever the storage)",
                                entry,
                                if which == 0 { "one-shot sequence" } else { "self-stamping frame" },
                                other.map(|r| r.map(|b| hexs(&b)).map_err(|e| err_label(&e))),
                                hexs(want)
                            ),
                            vec![kv("kind", "impure"), kv("entry", entry)],
                        );
                        return;
                    }
                }
            }
            // the size counter on its own fresh value
            match catch(|| postcard::experimental::serialized_size(&fresh!())) {
                Ok(Ok(k)) if k == l => {}
                other => {
                    t.st.violation(&format!("{}:impure-value-differs:serialized_size", prop), format!("serialized_size of a fresh impure value gave {:?}, expected {}", other.map(|r| r.map_err(|e| err_label(&e))), l), vec![kv("kind", "impure"), kv("entry", "serialized_size")]);
                    return;
                }
            }
        }
    }
}
