//! C11: reader / writer transports.  Instrumented readers and writers deliver / accept
//! data in scheduled pieces and fail, hit EOF or interrupt at every byte offset; scratch
//! buffers range over every size from 0 to required+1 and sit flush against guard pages.

use super::common::*;
use crate::bridge::{take_strs, with_shape, DynVal};
use crate::gen::*;
use crate::json::{hex, unhex, J};
use crate::mem::{catch, GuardBuf};
use crate::model::*;
use crate::rng::{fp, fp_mix, Rng};
use crate::run::*;
use crate::spec;

// ------------------------------------------------------------------ schedules and instrumented endpoints

#[derive(Clone, Copy, Debug, PartialEq, Eq)]
pub enum Sched {
    OneByte,
    Short(u64),
    Whole,
}

impl Sched {
    fn next(&self, want: usize, state: &mut u64) -> usize {
        if want == 0 {
            return 0;
        }
        match self {
            Sched::OneByte => 1,
            Sched::Whole => want,
            Sched::Short(_) => {
                // xorshift on the schedule state: deterministic, independent of the workload rng
                *state ^= *state << 13;
                *state ^= *state >> 7;
                *state ^= *state << 17;
                1 + (*state % 5) as usize % want.max(1)
            }
        }
    }
    fn label(&self) -> String {
        match self {
            Sched::OneByte => "1-byte".into(),
            Sched::Short(s) => format!("short:{}", s),
            Sched::Whole => "whole".into(),
        }
    }
    fn parse(s: &str) -> Sched {
        if s == "1-byte" {
            Sched::OneByte
        } else if let Some(x) = s.strip_prefix("short:") {
            Sched::Short(x.parse().unwrap_or(1))
        } else {
            Sched::Whole
        }
    }
}

#[derive(Clone, Copy, Debug, PartialEq, Eq)]
pub enum Fault {
    None,
    /// hard error when the transfer offset reaches k
    ErrorAt(usize),
    /// reader only: end of file at offset k
    EofAt(usize),
    /// flush fails (writer only)
    FlushError,
    /// writer only: a bounded sink that is full at offset k and then reports Ok(0), like `&mut [u8]`
    FullAt(usize),
}

pub struct Endpoint {
    /// reader: the data to deliver; writer: what has been received
    pub data: Vec<u8>,
    pub pos: usize,
    pub sched: Sched,
    pub sstate: u64,
    pub fault: Fault,
    /// inject one `Interrupted` before the transfer at these offsets (std only)
    pub interrupts: Vec<usize>,
    pub interrupted_at: Option<usize>,
    pub calls: usize,
    pub flushes: usize,
    pub max_request: usize,
}

pub enum IoFault {
    Interrupted,
    Hard,
}

impl Endpoint {
    pub fn reader(data: &[u8], sched: Sched, fault: Fault) -> Endpoint {
        let s = if let Sched::Short(s) = sched { s | 1 } else { 1 };
        Endpoint { data: data.to_vec(), pos: 0, sched, sstate: s, fault, interrupts: Vec::new(), interrupted_at: None, calls: 0, flushes: 0, max_request: 0 }
    }
    pub fn writer(sched: Sched, fault: Fault) -> Endpoint {
        Endpoint::reader(&[], sched, fault)
    }
    fn do_read(&mut self, buf: &mut [u8]) -> Result<usize, IoFault> {
        self.calls += 1;
        self.max_request = self.max_request.max(buf.len());
        if buf.is_empty() {
            return Ok(0);
        }
        if self.interrupts.contains(&self.pos) && self.interrupted_at != Some(self.pos) {
            self.interrupted_at = Some(self.pos);
            return Err(IoFault::Interrupted);
        }
        let mut limit = self.data.len();
        match self.fault {
            Fault::ErrorAt(k) => {
                if self.pos >= k {
                    return Err(IoFault::Hard);
                }
                limit = limit.min(k);
            }
            Fault::EofAt(k) => limit = limit.min(k),
            _ => {}
        }
        let avail = limit.saturating_sub(self.pos);
        if avail == 0 {
            return Ok(0);
        }
        let n = self.sched.next(buf.len().min(avail), &mut self.sstate).min(avail).min(buf.len());
        buf[..n].copy_from_slice(&self.data[self.pos..self.pos + n]);
        self.pos += n;
        Ok(n)
    }
    fn do_write(&mut self, buf: &[u8]) -> Result<usize, IoFault> {
        self.calls += 1;
        if buf.is_empty() {
            return Ok(0);
        }
        let at = self.data.len();
        if self.interrupts.contains(&at) && self.interrupted_at != Some(at) {
            self.interrupted_at = Some(at);
            return Err(IoFault::Interrupted);
        }
        let mut room = usize::MAX;
        if let Fault::ErrorAt(k) = self.fault {
            if at >= k {
                return Err(IoFault::Hard);
            }
            room = k - at;
        }
        if let Fault::FullAt(k) = self.fault {
            if at >= k {
                return Ok(0);
            }
            room = k - at;
        }
        let n = self.sched.next(buf.len().min(room), &mut self.sstate).min(room).min(buf.len());
        self.data.extend_from_slice(&buf[..n]);
        Ok(n)
    }
    fn do_flush(&mut self) -> Result<(), IoFault> {
        self.flushes += 1;
        if self.fault == Fault::FlushError {
            Err(IoFault::Hard)
        } else {
            Ok(())
        }
    }
}

pub struct StdEnd(pub Endpoint);
impl std::io::Read for StdEnd {
    fn read(&mut self, buf: &mut [u8]) -> std::io::Result<usize> {
        self.0.do_read(buf).map_err(|f| match f {
            IoFault::Interrupted => std::io::Error::from(std::io::ErrorKind::Interrupted),
            IoFault::Hard => std::io::Error::new(std::io::ErrorKind::Other, "injected"),
        })
    }
}
impl std::io::Write for StdEnd {
    fn write(&mut self, buf: &[u8]) -> std::io::Result<usize> {
        self.0.do_write(buf).map_err(|f| match f {
            IoFault::Interrupted => std::io::Error::from(std::io::ErrorKind::Interrupted),
            IoFault::Hard => std::io::Error::new(std::io::ErrorKind::Other, "injected"),
        })
    }
    fn flush(&mut self) -> std::io::Result<()> {
        self.0.do_flush().map_err(|_| std::io::Error::new(std::io::ErrorKind::Other, "injected flush failure"))
    }
}

pub struct EioEnd(pub Endpoint);
#[derive(Debug)]
pub struct EioErr;

#[cfg(feature = "eio06")]
mod eio_impl {
    use super::*;
    use embedded_io_06 as e;
    impl e::Error for EioErr {
        fn kind(&self) -> e::ErrorKind {
            e::ErrorKind::Other
        }
    }
    impl e::ErrorType for EioEnd {
        type Error = EioErr;
    }
    impl e::Read for EioEnd {
        fn read(&mut self, buf: &mut [u8]) -> Result<usize, EioErr> {
            self.0.do_read(buf).map_err(|_| EioErr)
        }
    }
    impl e::Write for EioEnd {
        fn write(&mut self, buf: &[u8]) -> Result<usize, EioErr> {
            self.0.do_write(buf).map_err(|_| EioErr)
        }
        fn flush(&mut self) -> Result<(), EioErr> {
            self.0.do_flush().map_err(|_| EioErr)
        }
    }
    pub const VERSION: &str = "embedded-io 0.6";
}
#[cfg(feature = "eio04")]
mod eio_impl {
    use super::*;
    use embedded_io_04 as e;
    impl e::Error for EioErr {
        fn kind(&self) -> e::ErrorKind {
            e::ErrorKind::Other
        }
    }
    impl e::Io for EioEnd {
        type Error = EioErr;
    }
    impl e::blocking::Read for EioEnd {
        fn read(&mut self, buf: &mut [u8]) -> Result<usize, EioErr> {
            self.0.do_read(buf).map_err(|_| EioErr)
        }
    }
    impl e::blocking::Write for EioEnd {
        fn write(&mut self, buf: &[u8]) -> Result<usize, EioErr> {
            self.0.do_write(buf).map_err(|_| EioErr)
        }
        fn flush(&mut self) -> Result<(), EioErr> {
            self.0.do_flush().map_err(|_| EioErr)
        }
    }
    pub const VERSION: &str = "embedded-io 0.4";
}
pub use eio_impl::VERSION as EIO_VERSION;

/// Convenience used by other checks: write through the embedded-io adapter in one piece.
pub fn eio_write_whole(val: &Val) -> postcard::Result<Vec<u8>> {
    postcard::to_eio(val, EioEnd(Endpoint::writer(Sched::Whole, Fault::None))).map(|w| w.0.data)
}
/// Convenience: decode through the embedded-io adapter; returns (value, bytes delivered).
pub fn eio_read_whole(shape: &Shape, input: &[u8], scratch: &mut [u8]) -> postcard::Result<(Val, usize)> {
    with_shape(shape, || postcard::from_eio::<DynVal, _>((EioEnd(Endpoint::reader(input, Sched::Whole, Fault::None)), scratch)).map(|(v, (r, _))| (v.0, r.0.pos)))
}

// ------------------------------------------------------------------ the monitors

fn rpw(shape: &Shape, plain: &[u8], adapter: &str, sched: &Sched, fault: Fault, scratch: usize, what: &str) -> Vec<(String, String)> {
    vec![
        kv("kind", "c11"),
        kv("what", what),
        kv("shape", shape.text()),
        kv("value_spec_bytes", hex(plain)),
        kv("adapter", adapter),
        kv("schedule", sched.label()),
        kv("fault", format!("{:?}", fault)),
        kv("scratch", scratch.to_string()),
    ]
}

/// Writer side: one (value, adapter, schedule, fault).
fn writer_case(t: &mut Tctx, shape: &Shape, val: &Val, plain: &[u8], eio: bool, sched: Sched, fault: Fault, interrupts: &[usize]) {
    t.st.eval();
    let adapter = if eio { EIO_VERSION } else { "std::io" };
    let mut ep = Endpoint::writer(sched, fault);
    if !eio {
        ep.interrupts = interrupts.to_vec();
    }
    let l = plain.len();
    let r: Result<Result<Endpoint, postcard::Error>, String> = if eio {
        catch(|| postcard::to_eio(val, EioEnd(ep)).map(|w| w.0))
    } else {
        catch(|| postcard::to_io(val, StdEnd(ep)).map(|w| w.0))
    };
    let rp = || rpw(shape, plain, adapter, &sched, fault, 0, "writer");
    let will_fail = match fault {
        Fault::ErrorAt(k) | Fault::FullAt(k) => k < l,
        Fault::FlushError => true,
        _ => false,
    };
    match r {
        Err(p) => t.st.violation("C11:writer-panic", format!("writing through {} panicked: {} (fault {:?}, schedule {})", adapter, p, fault, sched.label()), rp()),
        Ok(Ok(w)) => {
            t.st.count("writer_success");
            if will_fail {
                t.st.violation("C11:writer-failure-swallowed", format!("{}: the writer failed ({:?}) but serialisation reported success", adapter, fault), rp());
            } else if w.data != plain {
                t.st.violation(
                    "C11:writer-bytes-differ",
                    format!("{} ({}): received {} but the plain encoding is {}", adapter, sched.label(), hexs(&w.data), hexs(plain)),
                    rp(),
                );
            } else if w.flushes == 0 {
                t.st.violation("C11:writer-not-flushed", format!("{}: serialisation succeeded without flushing the writer", adapter), rp());
            }
            if w.interrupted_at.is_some() {
                t.st.count("writer_interrupts_transparent");
            }
        }
        Ok(Err(_e)) => {
            t.st.count("writer_failure_reported");
            if !will_fail {
                t.st.violation("C11:writer-spurious-error", format!("{} ({}): error although the writer never failed", adapter, sched.label()), rp());
            }
            // we cannot see the writer after an error (it is consumed); prefix property is checked below through a shared sink
        }
    }
}

/// Writer that records into a shared sink so the received bytes are visible after an error.
struct SharedSink<'a> {
    ep: Endpoint,
    sink: &'a std::cell::RefCell<Vec<u8>>,
}
impl std::io::Write for SharedSink<'_> {
    fn write(&mut self, buf: &[u8]) -> std::io::Result<usize> {
        let n = self.ep.do_write(buf).map_err(|_| std::io::Error::new(std::io::ErrorKind::Other, "injected"))?;
        self.sink.borrow_mut().extend_from_slice(&buf[..n]);
        Ok(n)
    }
    fn flush(&mut self) -> std::io::Result<()> {
        Ok(())
    }
}

fn writer_prefix_case(t: &mut Tctx, shape: &Shape, val: &Val, plain: &[u8], sched: Sched, k: usize) {
    t.st.eval();
    let sink = std::cell::RefCell::new(Vec::new());
    let r = catch(|| postcard::to_io(val, SharedSink { ep: Endpoint::writer(sched, Fault::ErrorAt(k)), sink: &sink }).map(|_| ()));
    let got = sink.borrow().clone();
    t.st.count("writer_prefix_cases");
    let rp = || rpw(shape, plain, "std::io", &sched, Fault::ErrorAt(k), 0, "writer-prefix");
    if r.is_err() {
        t.st.violation("C11:writer-panic", format!("writer failing at offset {} made serialisation panic", k), rp());
        return;
    }
    if got.len() > plain.len() || plain[..got.len()] != got[..] {
        t.st.violation(
            "C11:writer-wrote-non-prefix",
            format!("writer failing at offset {}: received {} which is not a prefix of the plain encoding {}", k, hexs(&got), hexs(plain)),
            rp(),
        );
    } else if got.len() > k {
        t.st.violation("C11:writer-wrote-past-failure", format!("{} bytes received although the writer failed at offset {}", got.len(), k), rp());
    }
}

/// A text produced piecewise by `Display` and serialised through `collect_str`.
struct FmtPieces(Vec<String>);
impl std::fmt::Display for FmtPieces {
    fn fmt(&self, f: &mut std::fmt::Formatter<'_>) -> std::fmt::Result {
        use std::fmt::Write;
        for (i, p) in self.0.iter().enumerate() {
            if i % 2 == 1 {
                for c in p.chars() {
                    f.write_char(c)?;
                }
            } else {
                f.write_str(p)?;
            }
        }
        Ok(())
    }
}
impl serde::Serialize for FmtPieces {
    fn serialize<S: serde::Serializer>(&self, s: S) -> Result<S::Ok, S::Error> {
        s.collect_str(self)
    }
}

#[derive(Clone, Copy, Debug)]
enum Picky {
    /// exactly one hard error, on the first write at or after offset k; later writes succeed
    GlitchAt(usize),
    /// a bounded all-or-nothing sink: a write that does not fit entirely is refused, a later smaller one is accepted
    AllOrNothing(usize),
}
struct PickySink<'a> {
    mode: Picky,
    refused: &'a std::cell::Cell<u32>,
    sink: &'a std::cell::RefCell<Vec<u8>>,
}
impl std::io::Write for PickySink<'_> {
    fn write(&mut self, buf: &[u8]) -> std::io::Result<usize> {
        if buf.is_empty() {
            return Ok(0);
        }
        let at = self.sink.borrow().len();
        let refuse = match self.mode {
            Picky::GlitchAt(k) => at >= k && self.refused.get() == 0,
            Picky::AllOrNothing(cap) => at + buf.len() > cap,
        };
        if refuse {
            self.refused.set(self.refused.get() + 1);
            return Err(std::io::Error::new(std::io::ErrorKind::Other, "refused"));
        }
        self.sink.borrow_mut().extend_from_slice(buf);
        Ok(buf.len())
    }
    fn flush(&mut self) -> std::io::Result<()> {
        Ok(())
    }
}

/// Writers that refuse one write and accept later ones: whatever the value (incl. text formatted piecewise
/// through collect_str), a refusal must surface as an error and the sink must hold a prefix of the encoding.
fn picky_writer_cases<T: serde::Serialize>(t: &mut Tctx, what: &str, v: &T, plain: &[u8]) {
    let l = plain.len();
    for k in 0..=l + 1 {
        for mode in [Picky::GlitchAt(k), Picky::AllOrNothing(k)] {
            t.st.eval();
            t.st.count("picky_writer_cases");
            let refused = std::cell::Cell::new(0u32);
            let sink = std::cell::RefCell::new(Vec::new());
            let r = catch(|| postcard::to_io(v, PickySink { mode, refused: &refused, sink: &sink }).map(|_| ()));
            let got = sink.borrow().clone();
            let rp = || vec![kv("kind", "c11-picky"), kv("what", what), kv("mode", format!("{:?}", mode)), kv("plain", hex(plain))];
            match r {
                Err(p) => t.st.violation("C11:writer-panic", format!("{}: a writer refusing one write ({:?}) made serialisation panic: {}", what, mode, p), rp()),
                Ok(res) => {
                    if refused.get() > 0 {
                        t.st.count("picky_writer_refusals");
                        if res.is_ok() {
                            t.st.violation("C11:writer-failure-swallowed", format!("{}: the writer refused a write ({:?}) but serialisation reported success", what, mode), rp());
                        } else if got.len() > l || plain[..got.len()] != got[..] {
                            t.st.violation(
                                "C11:writer-wrote-non-prefix",
                                format!("{}: writer refusing one write ({:?}, {} refusals): received {} which is not a prefix of the plain encoding {}", what, mode, refused.get(), hexs(&got), hexs(plain)),
                                rp(),
                            );
                        }
                    } else if res.is_err() || got != plain {
                        t.st.violation("C11:writer-bytes-differ", format!("{}: no write was refused ({:?}) yet the result is {:?} with {} received", what, mode, res.map_err(|e| err_label(&e)), hexs(&got)), rp());
                    }
                }
            }
        }
    }
}

/// Types that ask for the OWNED form of a byte / text payload (`deserialize_byte_buf`, `deserialize_string`:
/// CString, a ByteBuf-like type, String) through the reader flavours at every scratch size: decoding succeeds
/// exactly when the scratch holds the payload, returns the whole value, and leaves the reader right behind the
/// message so that the next one can be read.
fn owned_payload_lane(t: &mut Tctx) {
    use crate::corpus::OwnedBytes;
    let n = t.cfg.scale(2, 300, 6000);
    for _ in 0..n {
        if t.cfg.expired() {
            break;
        }
        let len = *t.rng.pick(&[0usize, 1, 2, 3, 7, 16, 40]);
        let payload: Vec<u8> = (0..len).map(|_| 1 + (t.rng.next() % 120) as u8).collect(); // no NUL, ASCII: valid for CString and String
        let msg = spec::encode(&Val::Bytes(payload.clone()));
        let mut stream = msg.clone();
        stream.extend_from_slice(&msg);
        let sched = schedules(&mut t.rng)[(len % 3) as usize];
        for scratch_len in 0..=len + 2 {
            for eio in [false, true] {
                t.st.eval();
                t.st.count("owned_payload_reader_cases");
                t.st.nontrivial(fp_mix(fp(&msg), (scratch_len as u64) << 1 | eio as u64));
                let r = catch(|| -> Result<(bool, bool, bool, usize), postcard::Error> {
                    // three target types on three fresh readers over the same two-message stream
                    let run = |which: u8| -> Result<(bool, usize), postcard::Error> {
                        let mut scratch = vec![0u8; scratch_len];
                        if eio {
                            let rd = EioEnd(Endpoint::reader(&stream, sched, Fault::None));
                            match which {
                                0 => postcard::from_eio::<std::ffi::CString, _>((rd, &mut scratch[..])).map(|(v, (r, _))| (v.as_bytes() == &payload[..], r.0.pos)),
                                1 => postcard::from_eio::<OwnedBytes, _>((rd, &mut scratch[..])).map(|(v, (r, _))| (v.0 == payload, r.0.pos)),
                                _ => postcard::from_eio::<String, _>((rd, &mut scratch[..])).map(|(v, (r, _))| (v.as_bytes() == &payload[..], r.0.pos)),
                            }
                        } else {
                            let rd = StdEnd(Endpoint::reader(&stream, sched, Fault::None));
                            match which {
                                0 => postcard::from_io::<std::ffi::CString, _>((rd, &mut scratch[..])).map(|(v, (r, _))| (v.as_bytes() == &payload[..], r.0.pos)),
                                1 => postcard::from_io::<OwnedBytes, _>((rd, &mut scratch[..])).map(|(v, (r, _))| (v.0 == payload, r.0.pos)),
                                _ => postcard::from_io::<String, _>((rd, &mut scratch[..])).map(|(v, (r, _))| (v.as_bytes() == &payload[..], r.0.pos)),
                            }
                        }
                    };
                    let a = run(0)?;
                    let b = run(1)?;
                    let c = run(2)?;
                    Ok((a.0, b.0, c.0, if a.1 == b.1 && b.1 == c.1 { a.1 } else { usize::MAX }))
                });
                let rp = || vec![kv("kind", "c11-owned-payload"), kv("payload", hex(&payload)), kv("scratch", scratch_len.to_string()), kv("adapter", if eio { EIO_VERSION } else { "std::io" })];
                match (r, scratch_len >= len) {
                    (Err(p), _) => {
                        t.st.violation("C11:reader-panic", format!("owned payload of {} bytes, scratch {}: panicked: {}", len, scratch_len, p), rp());
                        return;
                    }
                    (Ok(Ok((true, true, true, pos))), true) if pos == msg.len() => t.st.count("owned_payload_ok"),
                    (Ok(Err(_)), false) => t.st.count("owned_payload_scratch_too_small_rejected"),
                    (Ok(other), fits) => {
                        t.st.violation(
                            "C11:owned-payload-through-reader-differs",
                            format!(
                                "CString / byte buffer / String of {} bytes through {} with {} bytes of scratch ({}): got {:?}, expected {}",
                                len,
                                if eio { EIO_VERSION } else { "std::io" },
                                scratch_len,
                                if fits { "enough" } else { "too small" },
                                other.map_err(|e| err_label(&e)),
                                if fits { format!("the values with the reader at {}", msg.len()) } else { "an error".to_string() }
                            ),
                            rp(),
                        );
                        return;
                    }
                }
            }
        }
    }
}

fn picky_lane(t: &mut Tctx) {
    let n = t.cfg.scale(2, 300, 6000);
    for i in 0..n {
        if t.cfg.expired() {
            break;
        }
        // formatted text: 1..6 pieces of assorted sizes (the encoder learns the length in a first formatting pass)
        let np = t.rng.range(1, 6);
        let pieces: Vec<String> = (0..np)
            .map(|_| match t.rng.below(4) {
                0 => String::new(),
                1 => gen_string(&mut t.rng, 40),
                _ => gen_string(&mut t.rng, 6),
            })
            .collect();
        let text: String = pieces.concat();
        let plain = spec::encode(&Val::Str(text.clone()));
        if plain.len() > 200 {
            continue;
        }
        t.st.count("formatted_text_values");
        picky_writer_cases(t, "collect_str", &FmtPieces(pieces.clone()), &plain);
        let pre = t.rng.next() as u8;
        let post = gen_uint(&mut t.rng, 16) as u16;
        let mut wrapped = vec![pre];
        wrapped.extend_from_slice(&plain);
        crate::spec::varint(post as u128, &mut wrapped);
        picky_writer_cases(t, "collect_str-in-tuple", &(pre, FmtPieces(pieces), post), &wrapped);
        // an ordinary value as well
        if i % 2 == 0 {
            let shape = Shape::Tuple(vec![Shape::Str, Shape::U32, Shape::Bytes, Shape::Seq(Box::new(Shape::Str))]);
            let val = {
                let mut g = ValGen::small(&mut t.rng);
                g.max_len = 3;
                g.max_str = 12;
                g.gen(&shape)
            };
            let p = spec::encode(&val);
            picky_writer_cases(t, "ordinary", &val, &p);
        }
    }
}

struct ReadOutcome {
    val: Val,
    delivered: usize,
    rest_ptr: usize,
    rest_len: usize,
    strs: Vec<(usize, usize, bool)>,
    interrupted: bool,
    max_request: usize,
}

fn do_reader(shape: &Shape, input: &[u8], eio: bool, sched: Sched, fault: Fault, interrupts: &[usize], scratch: &mut [u8]) -> Result<Result<ReadOutcome, postcard::Error>, String> {
    let mut ep = Endpoint::reader(input, sched, fault);
    if !eio {
        ep.interrupts = interrupts.to_vec();
    }
    let r = catch(|| {
        with_shape(shape, || {
            if eio {
                postcard::from_eio::<DynVal, _>((EioEnd(ep), scratch)).map(|(v, (r, rest))| (v.0, r.0, rest.as_ptr() as usize, rest.len()))
            } else {
                postcard::from_io::<DynVal, _>((StdEnd(ep), scratch)).map(|(v, (r, rest))| (v.0, r.0, rest.as_ptr() as usize, rest.len()))
            }
        })
    });
    let strs = take_strs();
    r.map(|x| {
        x.map(|(val, ep, rest_ptr, rest_len)| ReadOutcome {
            val,
            delivered: ep.pos,
            rest_ptr,
            rest_len,
            strs,
            interrupted: ep.interrupted_at.is_some(),
            max_request: ep.max_request,
        })
    })
}

/// Reader side: one (value, adapter, schedule, fault, scratch size, placement).
#[allow(clippy::too_many_arguments)]
fn reader_case(t: &mut Tctx, gb: &mut GuardBuf, shape: &Shape, val: &Val, plain: &[u8], d: &spec::Decoded, tail: &[u8], eio: bool, sched: Sched, fault: Fault, interrupts: &[usize], slen: usize, at_tail: bool) {
    t.st.eval();
    let adapter = if eio { EIO_VERSION } else { "std::io" };
    let mut input = plain.to_vec();
    input.extend_from_slice(tail);
    let l = plain.len();
    let required = d.scratch_need;
    if slen > gb.usable() {
        return;
    }
    t.crumb.set(&format!(
        "kind: c11\nwhat: reader\nshape: {}\nvalue_spec_bytes: {}\nadapter: {}\nschedule: {}\nfault: {:?}\nscratch: {}",
        shape.text(),
        hex(plain),
        adapter,
        sched.label(),
        fault,
        slen
    ));
    let scratch: &mut [u8] = if at_tail { gb.tail(slen) } else { gb.head(slen) };
    for b in scratch.iter_mut() {
        *b = 0xEE;
    }
    let sp = scratch.as_ptr() as usize;
    t.st.count(if at_tail { "scratch_at_trailing_guard" } else { "scratch_at_leading_guard" });
    let r = do_reader(shape, &input, eio, sched, fault, interrupts, scratch);
    let rp = || rpw(shape, plain, adapter, &sched, fault, slen, "reader");
    let transfer_fails = match fault {
        Fault::ErrorAt(k) | Fault::EofAt(k) => k < l,
        _ => false,
    };
    let scratch_short = slen < required;
    match r {
        Err(p) => {
            t.st.violation("C11:reader-panic", format!("reading through {} panicked: {} (fault {:?}, schedule {}, scratch {} of {} required)", adapter, p, fault, sched.label(), slen, required), rp());
        }
        Ok(Err(_e)) => {
            t.st.count("reader_error_reported");
            if scratch_short {
                t.st.count("reader_scratch_too_small_rejected");
            }
            if !transfer_fails && !scratch_short {
                t.st.violation(
                    "C11:reader-spurious-error",
                    format!("{} ({}): error although the reader delivered everything and the scratch ({} bytes) covers the {} required", adapter, sched.label(), slen, required),
                    rp(),
                );
            }
        }
        Ok(Ok(o)) => {
            t.st.count("reader_success");
            if transfer_fails {
                t.st.violation("C11:reader-fault-swallowed", format!("{}: the reader failed ({:?}) before the end of the {}-byte message but decoding succeeded", adapter, fault, l), rp());
            } else if scratch_short {
                t.st.violation("C11:reader-success-with-short-scratch", format!("{}: decoding succeeded with {} scratch bytes although {} are required", adapter, slen, required), rp());
            } else if o.val != *val {
                t.st.violation("C11:reader-value-differs", format!("{} ({}): decoded {} but slice decoding gives {}", adapter, sched.label(), o.val.show(), val.show()), rp());
            } else if o.delivered != l {
                t.st.violation(
                    "C11:reader-consumed-wrong-amount",
                    format!("{} ({}): {} bytes were taken from the reader but the message is {} bytes", adapter, sched.label(), o.delivered, l),
                    rp(),
                );
            } else if o.rest_ptr != sp + required || o.rest_len != slen - required {
                t.st.violation(
                    "C11:reader-scratch-remainder-wrong",
                    format!("{}: returned scratch remainder offset {} len {}, expected offset {} len {}", adapter, o.rest_ptr.wrapping_sub(sp) as isize, o.rest_len, required, slen - required),
                    rp(),
                );
            } else {
                // borrowed ranges: inside scratch, in order, disjoint, contents intact after the whole decode
                let mut cursor = sp;
                let mut bi = 0usize;
                for (p, len, borrowed) in &o.strs {
                    if !*borrowed {
                        continue;
                    }
                    t.st.count("reader_borrows_checked");
                    let want = d.borrows.get(bi).map(|(off, l2)| &plain[*off..*off + *l2]);
                    bi += 1;
                    if *p < cursor || p + len > sp + slen {
                        t.st.violation(
                            "C11:reader-borrows-overlap-or-outside-scratch",
                            format!("{}: borrowed range at scratch offset {} len {} overlaps an earlier one or leaves the {}-byte scratch", adapter, p.wrapping_sub(sp) as isize, len, slen),
                            rp(),
                        );
                        break;
                    }
                    let got = unsafe { std::slice::from_raw_parts(*p as *const u8, *len) };
                    if Some(got) != want {
                        t.st.violation(
                            "C11:reader-borrowed-contents-corrupted",
                            format!("{}: borrowed data #{} reads {} after decoding, expected {:?}", adapter, bi - 1, hexs(got), want.map(hexs)),
                            rp(),
                        );
                        break;
                    }
                    cursor = p + len;
                }
                if o.interrupted {
                    t.st.count("reader_interrupts_transparent");
                }
                t.st.max("max_single_read_request", o.max_request as u64);
            }
        }
    }
    t.crumb.clear();
}

/// Several messages back to back on one stream, decoded with one reader.
fn multi_message_case(t: &mut Tctx, msgs: &[(Shape, Val, Vec<u8>)], eio: bool, sched: Sched) {
    t.st.eval();
    t.st.count("multi_message_streams");
    let mut stream = Vec::new();
    for (_, _, b) in msgs {
        stream.extend_from_slice(b);
    }
    let total_scratch: usize = msgs.iter().map(|m| m.2.len()).sum::<usize>() + 8;
    let mut scratch = vec![0u8; total_scratch];
    let rp = vec![kv("kind", "c11-multi"), kv("stream", hex(&stream)), kv("shapes", msgs.iter().map(|m| m.0.text()).collect::<Vec<_>>().join(" ; ")), kv("schedule", sched.label())];
    let r = catch(|| -> Result<(), String> {
        if eio {
            let mut rd = EioEnd(Endpoint::reader(&stream, sched, Fault::None));
            let mut rest: &mut [u8] = &mut scratch[..];
            let mut expect_pos = 0;
            for (i, (shape, val, bytes)) in msgs.iter().enumerate() {
                let (v, (r2, rest2)) = with_shape(shape, || postcard::from_eio::<DynVal, _>((rd, rest))).map_err(|e| format!("message {}: {}", i, err_label(&e)))?;
                expect_pos += bytes.len();
                if v.0 != *val {
                    return Err(format!("message {} decoded {} expected {}", i, v.0.show(), val.show()));
                }
                if r2.0.pos != expect_pos {
                    return Err(format!("after message {} the reader is at {} but the messages so far are {} bytes", i, r2.0.pos, expect_pos));
                }
                rd = r2;
                rest = rest2;
            }
        } else {
            let mut rd = StdEnd(Endpoint::reader(&stream, sched, Fault::None));
            let mut rest: &mut [u8] = &mut scratch[..];
            let mut expect_pos = 0;
            for (i, (shape, val, bytes)) in msgs.iter().enumerate() {
                let (v, (r2, rest2)) = with_shape(shape, || postcard::from_io::<DynVal, _>((rd, rest))).map_err(|e| format!("message {}: {}", i, err_label(&e)))?;
                expect_pos += bytes.len();
                if v.0 != *val {
                    return Err(format!("message {} decoded {} expected {}", i, v.0.show(), val.show()));
                }
                if r2.0.pos != expect_pos {
                    return Err(format!("after message {} the reader is at {} but the messages so far are {} bytes", i, r2.0.pos, expect_pos));
                }
                rd = r2;
                rest = rest2;
            }
        }
        Ok(())
    });
    let _ = take_strs();
    match r {
        Ok(Ok(())) => {}
        Ok(Err(m)) => t.st.violation("C11:multi-message-stream", m, rp),
        Err(p) => t.st.violation("C11:reader-panic", format!("multi-message decode panicked: {}", p), rp),
    }
}

fn schedules(rng: &mut Rng) -> [Sched; 3] {
    [Sched::OneByte, Sched::Short(rng.next() | 1), Sched::Whole]
}

pub fn one_value(t: &mut Tctx, gb: &mut GuardBuf, shape: &Shape, val: &Val, thin: bool) {
    let plain = spec::encode(val);
    let d = match spec::decode(shape, &plain) {
        Ok(d) => d,
        Err(_) => return,
    };
    let l = plain.len();
    let sfp = fp(shape.text().as_bytes());
    t.st.count("values");
    let scheds = schedules(&mut t.rng);
    for eio in [false, true] {
        for sched in scheds {
            // ---- writer: no fault, failure at every offset, flush failure, interrupts
            t.st.nontrivial(fp_mix(fp_mix(sfp, fp(&plain)), fp(sched.label().as_bytes()) ^ eio as u64));
            writer_case(t, shape, val, &plain, eio, sched, Fault::None, &[]);
            writer_case(t, shape, val, &plain, eio, sched, Fault::FlushError, &[]);
            if !eio && l > 0 {
                // Interrupted is transparent wherever it strikes: every offset for short messages
                let ats: Vec<usize> = if l <= 32 { (0..l).collect() } else { (0..8).map(|_| t.rng.below(l as u64) as usize).collect() };
                for at in ats {
                    writer_case(t, shape, val, &plain, false, sched, Fault::None, &[at]);
                }
            }
            let offs: Vec<usize> = if thin && l > 24 { (0..12).map(|_| t.rng.below(l as u64 + 2) as usize).collect() } else { (0..=l + 1).collect() };
            for &k in &offs {
                t.st.count("writer_fault_offsets");
                writer_case(t, shape, val, &plain, eio, sched, Fault::ErrorAt(k), &[]);
                if !eio {
                    // std::io only: a full bounded sink answers Ok(0) (embedded-io's write_all treats that as a contract violation)
                    writer_case(t, shape, val, &plain, false, sched, Fault::FullAt(k), &[]);
                    writer_prefix_case(t, shape, val, &plain, sched, k);
                }
            }
            // ---- reader: every fault offset (full scratch), every scratch size (no fault)
            let tail = t.rng.bytes(t.rng.clone().range(0, 4));
            let full = d.scratch_need;
            for &k in &offs {
                t.st.count("reader_fault_offsets");
                t.st.nontrivial(fp_mix(fp_mix(sfp, fp(&plain)), (k as u64) << 8 | eio as u64 | fp(sched.label().as_bytes()) << 32));
                reader_case(t, gb, shape, val, &plain, &d, &tail, eio, sched, Fault::ErrorAt(k), &[], full + 1, k % 2 == 0);
                reader_case(t, gb, shape, val, &plain, &d, &tail, eio, sched, Fault::EofAt(k), &[], full, k % 2 == 1);
            }
            let sizes: Vec<usize> = if thin && full > 24 { vec![0, 1, full / 2, full - 1, full, full + 1] } else { (0..=full + 1).collect() };
            for &s in &sizes {
                t.st.count("scratch_sizes");
                t.st.nontrivial(fp_mix(fp_mix(sfp, fp(&plain)), (s as u64) << 9 | 0x100 | eio as u64 | fp(sched.label().as_bytes()) << 32));
                reader_case(t, gb, shape, val, &plain, &d, &tail, eio, sched, Fault::None, &[], s, true);
                reader_case(t, gb, shape, val, &plain, &d, &tail, eio, sched, Fault::None, &[], s, false);
            }
            if !eio && l > 0 {
                // Interrupted is transparent wherever it strikes (single-byte pops and block reads alike)
                let ats: Vec<usize> = if l <= 32 { (0..l).collect() } else { (0..8).map(|_| t.rng.below(l as u64) as usize).collect() };
                for at in ats {
                    reader_case(t, gb, shape, val, &plain, &d, &tail, false, sched, Fault::None, &[at], full, true);
                }
            }
        }
    }
}

/// Lean interpreter workload: only the monitored transfers.
fn lean(t: &mut Tctx) {
    let mut gb = GuardBuf::new(1);
    let mut n = 0u64;
    while !t.cfg.expired() && n < t.cfg.knob_u64("lean_values", 60) {
        n += 1;
        let shape = match n % 3 {
            0 => Shape::Struct("T0", vec![("f0", Shape::Str), ("f1", Shape::F32), ("f2", Shape::Bytes), ("f3", Shape::Char), ("f4", Shape::Seq(Box::new(Shape::Str)))]),
            1 => Shape::Tuple(vec![Shape::F64, Shape::Str, Shape::U32, Shape::Bytes]),
            _ => {
                let d = t.rng.range(0, 2) as u32;
                gen_shape(&mut t.rng, d, &ShapeOpts::small())
            }
        };
        let val = {
            let mut g = ValGen::small(&mut t.rng);
            g.max_len = 2;
            g.max_str = 6;
            g.gen(&shape)
        };
        let plain = spec::encode(&val);
        if plain.len() > 40 {
            continue;
        }
        let d = match spec::decode(&shape, &plain) {
            Ok(d) => d,
            Err(_) => continue,
        };
        let full = d.scratch_need;
        for eio in [false, true] {
            let sched = if n % 2 == 0 { Sched::OneByte } else { Sched::Short(n | 1) };
            writer_case(t, &shape, &val, &plain, eio, sched, Fault::None, &[]);
            for s in [0, full / 2, full.saturating_sub(1), full, full + 1] {
                reader_case(t, &mut gb, &shape, &val, &plain, &d, &[7], eio, sched, Fault::None, &[], s, true);
            }
            let k = plain.len() / 2;
            reader_case(t, &mut gb, &shape, &val, &plain, &d, &[], eio, sched, Fault::EofAt(k), &[], full, true);
            writer_case(t, &shape, &val, &plain, eio, sched, Fault::ErrorAt(k), &[]);
        }
    }
    t.st.add("interpreted_values", n);
}

pub fn run(cfg: &Cfg) -> Report {
    let mut rep = Report::new("C11");
    rep.extra.insert("embedded_io_adapter".into(), J::s(EIO_VERSION));
    if let Some(p) = &cfg.replay {
        let m = read_replay(p).unwrap_or_default();
        let s = parallel(&Cfg { threads: 1, ..cfg.clone() }, 9, |t| {
            if m.get("kind").map(|s| s.as_str()) == Some("call-sequence") {
                call_sequences_lane(t, "C11");
                return;
            }
            if m.get("kind").map(|s| s.as_str()) == Some("c11-owned-payload") {
                owned_payload_lane(t);
                return;
            }
            if m.get("kind").map(|s| s.as_str()) == Some("c11-picky") {
                // the pieces of a formatted text are not recoverable from its encoding: the lane is re-run
                picky_lane(t);
                return;
            }
            let shape = match Shape::parse(m.get("shape").map(|s| s.as_str()).unwrap_or("")) {
                Ok(s) => s,
                Err(e) => {
                    t.st.inconclusive(format!("cannot parse shape (multi-message replays are re-run through the check): {}", e));
                    return;
                }
            };
            let bytes = unhex(m.get("value_spec_bytes").map(|s| s.as_str()).unwrap_or("")).unwrap_or_default();
            let _ = Sched::parse(m.get("schedule").map(|s| s.as_str()).unwrap_or("whole"));
            match spec::decode(&shape, &bytes) {
                Ok(d) => {
                    let mut gb = GuardBuf::new(8);
                    one_value(t, &mut gb, &shape, &d.val, false);
                }
                Err(_) => t.st.inconclusive("replay value does not decode under the reference decoder".into()),
            }
        });
        rep.stats.merge(s);
        rep.rule = "replay (the value is re-run through every adapter, schedule, fault offset and scratch size)".into();
        return rep;
    }
    if cfg.tier == Tier::Tiny {
        let s = parallel(cfg, 1, |t| lean(t));
        rep.stats.merge(s);
        rep.rule = "lean interpreter workload: monitored transfers only".into();
        return rep;
    }
    let s = parallel(cfg, 1, |t| {
        let mut gb = GuardBuf::new(8);
        let n = t.cfg.scale(2, 500, 10_000);
        let mut pool: Vec<(Shape, Val, Vec<u8>)> = Vec::new();
        for i in 0..n {
            if t.cfg.expired() {
                break;
            }
            // borrow-heavy shapes are over-represented: they exercise the scratch buffer
            let shape = match i % 5 {
                4 => Shape::Tuple(vec![Shape::Tuple(vec![Shape::U8; 4]), Shape::Bool, Shape::Str, Shape::Tuple(vec![Shape::U8; 3]), Shape::Bytes, Shape::U8]),
                0 => Shape::Struct("T0", vec![("f0", Shape::Str), ("f1", Shape::F32), ("f2", Shape::Bytes), ("f3", Shape::Char), ("f4", Shape::Seq(Box::new(Shape::Str))), ("f5", Shape::F64)]),
                1 => Shape::Seq(Box::new(Shape::Tuple(vec![Shape::Str, Shape::Option(Box::new(Shape::Bytes)), Shape::U32]))),
                _ => {
                    let d = t.rng.range(0, 3) as u32;
                    gen_shape(&mut t.rng, d, &ShapeOpts::small())
                }
            };
            let val = {
                let mut g = ValGen::small(&mut t.rng);
                g.max_len = 4;
                g.max_str = 40;
                g.gen(&shape)
            };
            let plain = spec::encode(&val);
            if plain.len() > 400 {
                continue;
            }
            if t.st.want_sample() && plain.len() > 4 && plain.len() < 40 {
                let mut j = J::obj();
                j.set("shape", J::s(shape.text())).set("value", J::s(val.show())).set("plain", J::s(hex(&plain)));
                j.set("faults", J::s(format!("writer/reader failure and EOF at every offset 0..={}; scratch sizes 0..=required+1; schedules 1-byte/short/whole; std::io and {}", plain.len() + 1, EIO_VERSION)));
                t.st.sample(j);
            }
            one_value(t, &mut gb, &shape, &val, plain.len() > 64);
            if pool.len() < 40 {
                pool.push((shape, val, plain));
            }
            if pool.len() >= 3 && i % 3 == 0 {
                let k = t.rng.range(2, 5);
                let msgs: Vec<_> = (0..k).map(|_| pool[t.rng.below(pool.len() as u64) as usize].clone()).collect();
                let sc = schedules(&mut t.rng);
                for eio in [false, true] {
                    for s in sc {
                        multi_message_case(t, &msgs, eio, s);
                    }
                }
            }
        }
    });
    rep.stats.merge(s);
    let s = parallel(cfg, 2, |t| {
        picky_lane(t);
        call_sequences_lane(t, "C11");
        owned_payload_lane(t);
    });
    rep.stats.merge(s);
    rep.floor("picky_writer_refusals", 100);
    rep.floor("owned_payload_ok", 50);
    rep.floor("owned_payload_scratch_too_small_rejected", 50);
    rep.rule = format!(
        "cases = (value, adapter, schedule, fault, scratch size, placement): random-shape values (borrow-heavy shapes over-represented); adapters std::io and {}; schedules 1-byte, random short, whole; \
         writer failure at EVERY byte offset 0..L+1 (plus flush failure, Interrupted), reader failure and EOF at every offset, scratch sizes 0..required+1 with the scratch flush against a guard page on either side; \
         sequences of 2..5 messages on one stream; writers that refuse exactly one write (a one-shot error at every offset; an all-or-nothing bounded sink of every capacity) under ordinary values and text formatted piecewise through collect_str. distinct = fingerprint of (shape, value, schedule, adapter, fault offset / scratch size).",
        EIO_VERSION
    );
    rep.assumptions = vec![
        "required scratch = sum of str/bytes/char payload lengths + 4/8 per float (computed by the reference decoder)".into(),
        "embedded-io 0.4 and 0.6 are mutually exclusive cargo features: this build exercises one of them (see embedded_io_adapter)".into(),
        "an endpoint never returns Ok(0) for a non-empty write (embedded-io's write_all treats that as a contract violation)".into(),
    ];
    rep.floor("writer_success", 50);
    rep.floor("writer_failure_reported", 50);
    rep.floor("writer_prefix_cases", 50);
    rep.floor("reader_success", 50);
    rep.floor("reader_error_reported", 50);
    rep.floor("reader_scratch_too_small_rejected", 20);
    rep.floor("reader_borrows_checked", 50);
    rep.floor("scratch_at_trailing_guard", 50);
    rep.floor("scratch_at_leading_guard", 50);
    rep.floor("multi_message_streams", 10);
    rep.floor("writer_interrupts_transparent", 5);
    rep.floor("reader_interrupts_transparent", 5);
    rep
}
