//! C06 (COBS-framed output is one well-formed frame and decodes back, frame by frame) and
//! C07 (COBS decoding of arbitrary bytes is total and agrees with the COBS definition).

use super::common::*;
use super::frames::*;
use crate::bridge::{take_strs, with_shape, DynVal};
use crate::gen::*;
use crate::json::{hex, unhex, J};
use crate::mem::{catch, GuardBuf};
use crate::model::*;
use crate::refs::{cobs_decode_frame, cobs_encode, cobs_frame_len, CobsRef};
use crate::rng::{fp, fp_mix};
use crate::run::*;
use crate::spec;

fn msg_shape(n: usize) -> Shape {
    Shape::Tuple((0..n).map(|_| Shape::U8).collect())
}
fn msg_val(m: &[u8]) -> Val {
    Val::Tuple(m.iter().map(|b| Val::U8(*b)).collect())
}

fn rp06(shape: &Shape, plain: &[u8]) -> Vec<(String, String)> {
    vec![kv("kind", "c06"), kv("shape", shape.text()), kv("value_spec_bytes", hex(plain))]
}

/// One value: frame well-formedness, equality with reference COBS, decode back, storage kinds.
fn c06_value(t: &mut Tctx, shape: &Shape, val: &Val, light: bool) -> Option<Vec<u8>> {
    let plain = spec::encode(val);
    let n = plain.len();
    t.st.eval();
    t.st.nontrivial(fp_mix(fp(shape.text().as_bytes()), fp(&plain)));
    let mut want = cobs_encode(&plain);
    want.push(0);
    let frame = match catch(|| postcard::to_allocvec_cobs(val)) {
        Ok(Ok(f)) => f,
        other => {
            t.st.violation(
                "C06:encode-failed",
                format!("to_allocvec_cobs gave {:?} for a {}-byte message", other.map(|r| r.map(|_| ()).map_err(|e| err_label(&e))), n),
                rp06(shape, &plain),
            );
            return None;
        }
    };
    let zeros = frame.iter().filter(|b| **b == 0).count();
    if zeros != 1 || frame.last() != Some(&0) {
        t.st.violation(
            "C06:not-exactly-one-trailing-zero",
            format!("frame of a {}-byte message has {} zero bytes, last byte {:?}: {}", n, zeros, frame.last(), hexs(&frame)),
            rp06(shape, &plain),
        );
        return None;
    }
    if frame != want {
        t.st.violation(
            "C06:differs-from-reference-cobs",
            format!("frame {} differs from the standard COBS transform {} of message {}", hexs(&frame), hexs(&want), hexs(&plain)),
            rp06(shape, &plain),
        );
        return None;
    }
    let bound = cobs_frame_len(n);
    let zero_free = !plain.contains(&0);
    if frame.len() > bound || (zero_free && frame.len() != bound) {
        t.st.violation(
            "C06:length-formula",
            format!("frame of a {}-byte {}message is {} bytes; n+floor(n/254)+2 = {}", n, if zero_free { "zero-free " } else { "" }, frame.len(), bound),
            rp06(shape, &plain),
        );
        return None;
    }
    if zero_free {
        t.st.count("zero_free_messages");
    }
    if t.st.want_sample() && n >= 2 && n <= 12 && t.rng.chance(1, 32) {
        let mut j = J::obj();
        j.set("message", J::s(hex(&plain))).set("frame", J::s(hex(&frame))).set("reference_cobs", J::s(hex(&want)));
        t.st.sample(j);
    }
    if n >= 254 {
        t.st.count("messages_with_full_block");
    }
    // other storage kinds
    if !light {
        let mut buf = vec![0xEEu8; frame.len() + 2];
        match catch(|| postcard::to_slice_cobs(val, &mut buf).map(|s| s.to_vec())) {
            Ok(Ok(s)) if s == want => t.st.count("storage_slice"),
            _ => {
                t.st.violation("C06:slice-storage-differs", format!("to_slice_cobs differs for message {}", hexs(&plain)), rp06(shape, &plain));
                return None;
            }
        }
        macro_rules! hv {
            ($b:expr) => {
                if frame.len() <= $b && frame.len() + 40 > $b {
                    match catch(|| postcard::to_vec_cobs::<_, $b>(val).map(|s| s.to_vec())) {
                        Ok(Ok(s)) if s == want => t.st.count("storage_heapless"),
                        _ => {
                            t.st.violation("C06:heapless-storage-differs", format!("to_vec_cobs::<{}> differs for message {}", $b, hexs(&plain)), rp06(shape, &plain));
                            return None;
                        }
                    }
                }
            };
        }
        hv!(16);
        hv!(48);
        hv!(260);
        hv!(300);
        hv!(520);
        hv!(1060);
        match catch(|| postcard::to_stdvec_cobs(val)) {
            Ok(Ok(s)) if s == want => t.st.count("storage_growable"),
            _ => {
                t.st.violation("C06:stdvec-storage-differs", "to_stdvec_cobs differs".into(), rp06(shape, &plain));
                return None;
            }
        }
    }
    // decodes back
    let mut copy = frame.clone();
    match catch(|| with_shape(shape, || postcard::from_bytes_cobs::<DynVal>(&mut copy))) {
        Ok(Ok(DynVal(v))) if v == *val => t.st.count("decoded_back"),
        other => {
            t.st.violation(
                "C06:does-not-decode-back",
                format!("from_bytes_cobs gave {:?} for frame {}", other.map(|r| r.map(|v| v.0.show()).map_err(|e| err_label(&e))), hexs(&frame)),
                rp06(shape, &plain),
            );
            return None;
        }
    }
    let _ = take_strs();
    Some(frame)
}

/// k frames back to back; frame-at-a-time decoding must return each value and exactly the
/// bytes that follow its frame (pointer identity), with and without the last sentinel.
fn c06_multi(t: &mut Tctx, items: &[(Shape, Val, Vec<u8>)], drop_last_sentinel: bool) {
    let mut buf: Vec<u8> = Vec::new();
    let mut ends = Vec::new();
    for (_, _, f) in items {
        buf.extend_from_slice(f);
        ends.push(buf.len());
    }
    if drop_last_sentinel {
        buf.pop();
    }
    t.st.eval();
    t.st.count(if drop_last_sentinel { "multi_frame_without_last_sentinel" } else { "multi_frame_with_last_sentinel" });
    t.st.count(&format!("multi_frame_k{}", items.len()));
    let total = buf.len();
    let original = buf.clone();
    let base = buf.as_ptr() as usize;
    let mut rest: &mut [u8] = &mut buf[..];
    for (i, (shape, val, _)) in items.iter().enumerate() {
        let rest_off = rest.as_ptr() as usize - base;
        let r = catch(|| with_shape(shape, || postcard::take_from_bytes_cobs::<DynVal>(rest)));
        let rpv = vec![
            kv("kind", "c06-multi"),
            kv("buffer", hex(&original)),
            kv("frame_index", i.to_string()),
            kv("shapes", items.iter().map(|x| x.0.text()).collect::<Vec<_>>().join(" ; ")),
        ];
        match r {
            Ok(Ok((DynVal(v), rem))) => {
                let want_off = ends[i].min(total);
                let got_off = rem.as_ptr() as usize - base;
                if v != *val {
                    t.st.violation("C06:multi-frame-value-differs", format!("frame {} decoded {} expected {}", i, v.show(), val.show()), rpv);
                    return;
                }
                if got_off != want_off || rem.len() != total - want_off {
                    t.st.violation(
                        "C06:multi-frame-remainder-wrong",
                        format!("after frame {} (starting at {}) the remainder starts at {} (len {}), expected {} (len {})", i, rest_off, got_off, rem.len(), want_off, total - want_off),
                        rpv,
                    );
                    return;
                }
                rest = rem;
            }
            other => {
                t.st.violation(
                    "C06:multi-frame-decode-failed",
                    format!("frame {} of {}: {:?}", i, items.len(), other.map(|r| r.map(|_| ()).map_err(|e| err_label(&e)))),
                    rpv,
                );
                return;
            }
        }
    }
    let _ = take_strs();
}

pub fn run_c06(cfg: &Cfg) -> Report {
    let mut rep = Report::new("C06");
    if let Some(p) = &cfg.replay {
        rep.stats.merge(replay(cfg, "C06", p));
        rep.rule = "replay".into();
        return rep;
    }
    // lane 1: exhaustive short messages over {00,01,02,FF}
    let s = parallel(cfg, 1, |t| {
        let alpha = [0x00u8, 0x01, 0x02, 0xFF];
        let maxlen = match t.cfg.tier {
            Tier::Tiny => 3,
            Tier::Quick => 8,
            Tier::Thorough => 13,
        };
        let mut idx = 0u64;
        let mut total = 0u64;
        for len in 0..=maxlen {
            let shape = msg_shape(len);
            let count = 4u64.pow(len as u32);
            for code in 0..count {
                idx += 1;
                if !t.mine(idx) {
                    continue;
                }
                let mut m = Vec::with_capacity(len);
                let mut c = code;
                for _ in 0..len {
                    m.push(alpha[(c % 4) as usize]);
                    c /= 4;
                }
                let val = msg_val(&m);
                c06_value(t, &shape, &val, len > 4);
                total += 1;
            }
        }
        t.st.add("exhaustive_messages", total);
        if t.tid == 0 {
            let all: u64 = (0..=maxlen).map(|l| 4u64.pow(l as u32)).sum();
            t.st.space(&format!("every message of length <= {} over {{00,01,02,FF}}", maxlen), all, true);
        }
    });
    rep.stats.merge(s);
    // lane 2: run lengths around multiples of 254, random messages, ordinary values, multi-frame buffers
    let s = parallel(cfg, 2, |t| {
        let mut lens = vec![252usize, 253, 254, 255, 256, 507, 508, 509, 510, 761, 762, 763, 764, 1015, 1016, 1017, 1018];
        if t.cfg.tier == Tier::Tiny {
            lens = vec![253, 254, 255, 508];
        }
        let reps = t.cfg.scale(1, 40, 400);
        let mut pool: Vec<(Shape, Val, Vec<u8>)> = Vec::new();
        let mut i = 0u64;
        for _ in 0..reps {
            for &n in &lens {
                for style in 0..4 {
                    i += 1;
                    if !t.mine(i) || t.cfg.expired() {
                        continue;
                    }
                    let mut m: Vec<u8> = (0..n).map(|_| 1 + (t.rng.next() % 255) as u8).collect();
                    match style {
                        1 => {
                            let k = t.rng.below(n as u64) as usize;
                            m[k] = 0;
                        }
                        2 => {
                            for x in m.iter_mut() {
                                if t.rng.chance(1, 40) {
                                    *x = 0;
                                }
                            }
                        }
                        3 => {
                            // zero exactly at a block edge
                            for k in [253usize, 254, 255, 507, 508, 509] {
                                if k < n && t.rng.chance(1, 2) {
                                    m[k] = 0;
                                }
                            }
                        }
                        _ => {}
                    }
                    t.st.count("block_boundary_messages");
                    let shape = msg_shape(n);
                    let val = msg_val(&m);
                    if let Some(f) = c06_value(t, &shape, &val, false) {
                        if pool.len() < 64 {
                            pool.push((shape, val, f));
                        }
                    }
                }
            }
        }
        let nrand = t.cfg.scale(5, 4_000, 80_000);
        for _ in 0..nrand {
            if t.cfg.expired() {
                break;
            }
            let (shape, val) = if t.rng.chance(1, 2) {
                let hi = if t.rng.chance(1, 8) { 1200 } else { 40 };
                let n = t.rng.range(0, hi);
                let m = gen_bytes_val(&mut t.rng, n);
                (msg_shape(m.len()), msg_val(&m))
            } else {
                let o = ShapeOpts::small();
                let depth = t.rng.range(0, 3) as u32;
                let shape = gen_shape(&mut t.rng, depth, &o);
                let val = {
                    let mut g = ValGen::small(&mut t.rng);
                    g.gen(&shape)
                };
                (shape, val)
            };
            t.st.count("random_messages");
            if let Some(f) = c06_value(t, &shape, &val, false) {
                if pool.len() < 200 || t.rng.chance(1, 4) {
                    if pool.len() >= 200 {
                        let k = t.rng.below(pool.len() as u64) as usize;
                        pool[k] = (shape, val, f);
                    } else {
                        pool.push((shape, val, f));
                    }
                }
            }
            // frame sequences of 1..6
            if pool.len() >= 6 && t.rng.chance(1, 2) {
                let k = t.rng.range(1, 6);
                let items: Vec<(Shape, Val, Vec<u8>)> = (0..k).map(|_| pool[t.rng.below(pool.len() as u64) as usize].clone()).collect();
                c06_multi(t, &items, false);
                c06_multi(t, &items, true);
            }
        }
        // frames of empty messages in sequences
        let e = (Shape::Unit, Val::Unit, vec![0x01u8, 0x00]);
        let one = (Shape::U8, Val::U8(0), vec![0x01u8, 0x01, 0x00]);
        for k in 1..=6 {
            let items: Vec<_> = (0..k).map(|i| if i % 2 == 0 { e.clone() } else { one.clone() }).collect();
            c06_multi(t, &items, false);
            c06_multi(t, &items, true);
        }
    });
    rep.stats.merge(s);
    // lane 3: messages the encoder hands to the flavour as BLOCKS (strings / byte arrays), so that block-write
    // paths of the COBS flavour meet every alignment of chunk boundary and 254-byte run boundary
    let s = parallel(cfg, 3, |t| {
        let (single_hi, firsts, second_hi): (usize, Vec<usize>, usize) = match t.cfg.tier {
            Tier::Tiny => (300, vec![0, 16, 253], 40),
            Tier::Quick => (1100, vec![0, 1, 15, 16, 17, 100, 250, 251, 252, 253, 254, 255, 300, 507, 508, 600], 560),
            Tier::Thorough => (4200, vec![0, 1, 2, 3, 14, 15, 16, 17, 18, 31, 32, 100, 200, 236, 237, 238, 250, 251, 252, 253, 254, 255, 256, 257, 300, 400, 490, 491, 492, 506, 507, 508, 509, 510, 600, 700, 761, 762, 763, 1015, 1016, 1017], 2200),
        };
        let mut idx = 0u64;
        let piece = |rng: &mut crate::rng::Rng, n: usize, style: u32| -> (Shape, Val) {
            match style {
                0 => (Shape::Str, Val::Str((0..n).map(|i| (b'a' + (i % 26) as u8) as char).collect())),
                1 => (Shape::Bytes, Val::Bytes((0..n).map(|_| 1 + (rng.next() % 255) as u8).collect())),
                _ => (Shape::Bytes, Val::Bytes((0..n).map(|_| if rng.chance(1, 60) { 0 } else { 1 + (rng.next() % 255) as u8 }).collect())),
            }
        };
        for n in 0..=single_hi {
            for style in 0..3u32 {
                idx += 1;
                if !t.mine(idx) || t.cfg.expired() {
                    continue;
                }
                let (shape, val) = piece(&mut t.rng, n, style);
                t.st.count("block_written_messages");
                c06_value(t, &shape, &val, n > 64);
            }
        }
        for &a in &firsts {
            for b in 0..=second_hi {
                idx += 1;
                if !t.mine(idx) || t.cfg.expired() {
                    continue;
                }
                let style = (b % 3) as u32;
                let (s1, v1) = piece(&mut t.rng, a, if style == 2 { 1 } else { style });
                let (s2, v2) = piece(&mut t.rng, b, style);
                t.st.count("block_written_messages");
                t.st.count("two_block_messages");
                c06_value(t, &Shape::Tuple(vec![s1, s2]), &Val::Tuple(vec![v1, v2]), true);
            }
        }
        let nr = t.cfg.scale(3, 1500, 30_000);
        for _ in 0..nr {
            if t.cfg.expired() {
                break;
            }
            // 3..5 blocks of random lengths with scalars in between
            let k = t.rng.range(3, 5);
            let mut shapes = Vec::new();
            let mut vals = Vec::new();
            for _ in 0..k {
                let n = *t.rng.pick(&[0usize, 3, 16, 17, 40, 120, 200, 236, 237, 238, 250, 253, 254, 300]) + t.rng.range(0, 3);
                let style = t.rng.below(3) as u32;
                let (s1, v1) = piece(&mut t.rng, n, style);
                shapes.push(s1);
                vals.push(v1);
                if t.rng.chance(1, 3) {
                    shapes.push(Shape::U32);
                    vals.push(Val::U32(gen_uint(&mut t.rng, 32) as u32));
                }
            }
            t.st.count("block_written_messages");
            c06_value(t, &Shape::Tuple(shapes), &Val::Tuple(vals), true);
        }
    });
    rep.stats.merge(s);
    rep.floor("block_written_messages", 100);
    rep.rule = "cases = message (plain encoding) x storage kind, and frame sequences: every message up to length 8 (quick) / 13 (thorough) over {00,01,02,FF} produced through \
                tuple-of-u8 shapes, zero-free / single-zero / sprinkled / edge-zero runs of length 252..256, 507..510, 761..764, 1015..1018, random messages up to 1200 bytes, \
                messages written as blocks (one string / byte array of every length 0..1100 quick / 4200 thorough; pairs with the first block at 16 (42) lengths and the second of every length 0..560 (2200); 3-5 random blocks with scalars between), ordinary random-shape values; storage = slice, heapless (6 capacities), growable; sequences of 1..6 frames walked with take_from_bytes_cobs, with and without \
                the last sentinel. Non-trivial = every message; distinct = fingerprint of (shape, plain bytes)."
        .into();
    rep.assumptions = vec![
        "reference COBS (Cheshire-Baker) validated against published example vectors at start-up".into(),
        "the length n+floor(n/254)+2 is asserted as exact for zero-free messages and as an upper bound otherwise; equality with the reference transform is the binding oracle".into(),
    ];
    rep.floor("exhaustive_messages", 50);
    rep.floor("messages_with_full_block", 4);
    rep.floor("zero_free_messages", 10);
    rep.floor("multi_frame_with_last_sentinel", 10);
    rep.floor("multi_frame_without_last_sentinel", 10);
    rep.floor("storage_heapless", 10);
    rep.floor("decoded_back", 100);
    rep
}

// ------------------------------------------------------------------ C07

fn c07_targets() -> Vec<Shape> {
    vec![
        Shape::U8,
        Shape::Tuple(vec![Shape::U8, Shape::U8]),
        Shape::Bytes,
        Shape::Str,
        Shape::Seq(Box::new(Shape::U16)),
        Shape::Option(Box::new(Shape::Bool)),
        Shape::Unit,
    ]
}

fn rp07(shape_text: &str, input: &[u8]) -> String {
    format!("kind: c07\nshape: {}\ninput: {}", shape_text, hex(input))
}

/// One (shape, input): compare the COBS entry points with reference COBS + plain decoding.
pub fn c07_case(t: &mut Tctx, gb: &mut GuardBuf, shape: &Shape, text: &str, sfp: u64, class: &str, input: &[u8]) {
    if input.len() > gb.usable() {
        return;
    }
    t.st.eval();
    t.st.count(&format!("input_{}", class));
    if !input.is_empty() {
        t.st.nontrivial(fp_mix(sfp, fp(input)));
    }
    let first_zero = input.iter().position(|b| *b == 0);
    let frame = &input[..first_zero.unwrap_or(input.len())];
    let reference = cobs_decode_frame(frame);
    let rpv = || vec![kv("kind", "c07"), kv("shape", text), kv("input", hex(input))];
    // what plain decoding of the payload does (real plain decoder; C03 judges that one)
    let plain_outcome = match &reference {
        CobsRef::Bad => None,
        CobsRef::Ok(payload) => {
            let budget_ok = !matches!(spec::decode_budget(shape, payload, t.cfg.oracle_budget()), Err(spec::DecodeFail::OracleBudget));
            if !budget_ok {
                t.st.count("oracle_budget_skips");
                return;
            }
            match catch(|| with_shape(shape, || postcard::from_bytes::<DynVal>(payload).map(|v| v.0))) {
                Ok(r) => Some(r),
                Err(_) => return, // a panic of the plain decoder is C04's finding
            }
        }
    };
    t.crumb.set(&rp07(text, input));
    for at_tail in [true, false] {
        // ---- take_from_bytes_cobs
        let placed = gb.place(input, at_tail);
        let base = placed.as_ptr() as usize;
        let total = placed.len();
        let r = catch(|| {
            with_shape(shape, || postcard::take_from_bytes_cobs::<DynVal>(placed).map(|(v, rem)| (v.0, rem.as_ptr() as usize, rem.len())))
        });
        t.st.count("guarded_cobs_decodes");
        let after: Vec<u8> = gb.peek(at_tail, total).to_vec();
        if at_tail && t.st.want_sample() && input.len() >= 2 && input.len() <= 16 && t.rng.chance(1, 128) {
            let mut j = J::obj();
            j.set("target", J::s(text)).set("input", J::s(hex(input))).set("class", J::s(class));
            j.set("reference_cobs", J::s(match &reference {
                CobsRef::Bad => "ill-formed (code byte points past the frame)".to_string(),
                CobsRef::Ok(p) => format!("payload {}", hex(p)),
            }));
            j.set("postcard", J::s(match &r {
                Ok(Ok((v, rp, rl))) => format!("Ok({}) remainder at {} len {}", v.show(), rp - base, rl),
                Ok(Err(e)) => format!("Err({})", err_label(e)),
                Err(_) => "panic".to_string(),
            }));
            t.st.sample(j);
        }
        match (&r, &reference, &plain_outcome) {
            (Err(p), _, _) => {
                t.st.violation("C07:panic", format!("take_from_bytes_cobs panicked: {} (shape {}, input {})", p, text, hexs(input)), rpv());
                break;
            }
            (Ok(res), CobsRef::Bad, _) => {
                t.st.count("ill_formed_cobs_inputs");
                if !matches!(res, Err(postcard::Error::DeserializeBadEncoding)) {
                    t.st.violation(
                        "C07:ill-formed-cobs-not-rejected",
                        format!(
                            "a code byte points past the end of the frame but take_from_bytes_cobs gave {:?} (shape {}, input {})",
                            res.as_ref().map(|x| x.0.show()).map_err(err_label),
                            text,
                            hexs(input)
                        ),
                        rpv(),
                    );
                    break;
                }
            }
            (Ok(res), CobsRef::Ok(_), Some(plain)) => {
                t.st.count("well_formed_cobs_inputs");
                match (res, plain) {
                    (Ok((v, rptr, rlen)), Ok(pv)) => {
                        t.st.count("cobs_decode_ok");
                        let want_off = first_zero.map(|z| z + 1).unwrap_or(total);
                        if v != pv {
                            t.st.violation(
                                "C07:value-differs-from-plain-decoding",
                                format!("decoded {} but plain decoding of the COBS payload gives {} (shape {}, input {})", v.show(), pv.show(), text, hexs(input)),
                                rpv(),
                            );
                            break;
                        }
                        if rptr - base != want_off || *rlen != total - want_off {
                            t.st.violation(
                                "C07:remainder-wrong",
                                format!("remainder starts at {} (len {}), expected immediately after the sentinel at {} (len {}) (shape {}, input {})", rptr - base, rlen, want_off, total - want_off, text, hexs(input)),
                                rpv(),
                            );
                            break;
                        }
                    }
                    (Err(e), Err(pe)) => {
                        t.st.count("cobs_decode_err");
                        if e != pe {
                            t.st.violation(
                                "C07:error-differs-from-plain-decoding",
                                format!("error {} but plain decoding of the payload gives {} (shape {}, input {})", err_label(e), err_label(pe), text, hexs(input)),
                                rpv(),
                            );
                            break;
                        }
                    }
                    (a, b) => {
                        t.st.violation(
                            "C07:outcome-differs-from-plain-decoding",
                            format!(
                                "COBS decoding gave {:?} but plain decoding of the payload gives {:?} (shape {}, input {})",
                                a.as_ref().map(|x| x.0.show()).map_err(err_label),
                                b.as_ref().map(|x| x.show()).map_err(err_label),
                                text,
                                hexs(input)
                            ),
                            rpv(),
                        );
                        break;
                    }
                }
            }
            _ => {}
        }
        // bytes from the sentinel onward are untouched
        if let Some(z) = first_zero {
            if after[z..] != input[z..] {
                t.st.violation(
                    "C07:bytes-after-frame-modified",
                    format!("bytes from the sentinel (offset {}) onward changed: {} -> {}", z, hexs(&input[z..]), hexs(&after[z..])),
                    rpv(),
                );
                break;
            }
        }
        // ---- from_bytes_cobs
        let placed = gb.place(input, at_tail);
        let r2 = catch(|| with_shape(shape, || postcard::from_bytes_cobs::<DynVal>(placed).map(|v| v.0)));
        match (&r2, &reference, &plain_outcome) {
            (Err(p), _, _) => {
                t.st.violation("C07:panic", format!("from_bytes_cobs panicked: {} (shape {}, input {})", p, text, hexs(input)), rpv());
                break;
            }
            (Ok(res), CobsRef::Bad, _) => {
                if !matches!(res, Err(postcard::Error::DeserializeBadEncoding)) {
                    t.st.violation(
                        "C07:ill-formed-cobs-not-rejected",
                        format!("from_bytes_cobs gave {:?} for ill-formed COBS (shape {}, input {})", res.as_ref().map(|x| x.show()).map_err(err_label), text, hexs(input)),
                        rpv(),
                    );
                    break;
                }
            }
            (Ok(res), CobsRef::Ok(_), Some(plain)) => {
                let same = match (res, plain) {
                    (Ok(a), Ok(b)) => a == b,
                    (Err(a), Err(b)) => a == b,
                    _ => false,
                };
                if !same {
                    t.st.violation(
                        "C07:from_bytes_cobs-differs-from-plain-decoding",
                        format!("from_bytes_cobs differs from plain decoding of the payload (shape {}, input {})", text, hexs(input)),
                        rpv(),
                    );
                    break;
                }
            }
            _ => {}
        }
    }
    t.crumb.clear();
    let _ = take_strs();
}

pub fn run_c07(cfg: &Cfg) -> Report {
    let mut rep = Report::new("C07");
    if let Some(p) = &cfg.replay {
        rep.stats.merge(replay(cfg, "C07", p));
        rep.rule = "replay".into();
        return rep;
    }
    // lane 1: exhaustive short strings over a code-byte-relevant alphabet
    let s = parallel(cfg, 1, |t| {
        let mut gb = GuardBuf::new(4);
        let alpha = [0x00u8, 0x01, 0x02, 0x03, 0x05, 0xFF];
        let maxlen = match t.cfg.tier {
            Tier::Tiny => 3,
            Tier::Quick => 7,
            Tier::Thorough => 9,
        };
        let targets = c07_targets();
        let texts: Vec<String> = targets.iter().map(|s| s.text()).collect();
        let fps: Vec<u64> = texts.iter().map(|s| fp(s.as_bytes())).collect();
        let mut idx = 0u64;
        let mut total = 0u64;
        for len in 0..=maxlen {
            let count = 6u64.pow(len as u32);
            for code in 0..count {
                idx += 1;
                if !t.mine(idx) {
                    continue;
                }
                let mut m = Vec::with_capacity(len);
                let mut c = code;
                for _ in 0..len {
                    m.push(alpha[(c % 6) as usize]);
                    c /= 6;
                }
                // all targets for short strings, a rotating one for the long tail
                if len <= 5 {
                    for k in 0..targets.len() {
                        c07_case(t, &mut gb, &targets[k], &texts[k], fps[k], "exhaustive", &m);
                    }
                } else {
                    let k = (code % targets.len() as u64) as usize;
                    c07_case(t, &mut gb, &targets[k], &texts[k], fps[k], "exhaustive", &m);
                }
                total += 1;
            }
        }
        t.st.add("exhaustive_strings", total);
        if t.tid == 0 {
            let all: u64 = (0..=maxlen).map(|l| 6u64.pow(l as u32)).sum();
            t.st.space(&format!("every byte string of length <= {} over {{00,01,02,03,05,FF}} (all 7 targets up to length 5, rotating target beyond)", maxlen), all, true);
        }
    });
    rep.stats.merge(s);
    // lane 2: valid frames with every single-byte corruption and truncation; random bytes; random shapes
    let s = parallel(cfg, 2, |t| {
        let mut gb = GuardBuf::new(4);
        let n = t.cfg.scale(4, 3_000, 60_000);
        for _ in 0..n {
            if t.cfg.expired() {
                break;
            }
            let (shape, val) = if t.rng.chance(1, 3) {
                let len = *t.rng.pick(&[0usize, 1, 5, 30, 253, 254, 255, 300]);
                let m = t.rng.bytes(len);
                (msg_shape(len), msg_val(&m))
            } else {
                let targets = c07_targets();
                let shape = if t.rng.chance(1, 2) {
                    targets[t.rng.below(targets.len() as u64) as usize].clone()
                } else {
                    let d = t.rng.range(0, 3) as u32;
                    gen_shape(&mut t.rng, d, &ShapeOpts::small())
                };
                let val = {
                    let mut g = ValGen::small(&mut t.rng);
                    g.gen(&shape)
                };
                (shape, val)
            };
            let text = shape.text();
            let sfp = fp(text.as_bytes());
            let plain = spec::encode(&val);
            let mut frame = cobs_encode(&plain);
            frame.push(0);
            // valid, followed by other data
            let mut with_tail = frame.clone();
            with_tail.extend_from_slice(&t.rng.bytes(t.rng.clone().range(0, 5)));
            c07_case(t, &mut gb, &shape, &text, sfp, "valid_frame", &frame);
            c07_case(t, &mut gb, &shape, &text, sfp, "valid_frame_with_tail", &with_tail);
            // every truncation
            let trunc: Vec<usize> = if frame.len() <= 40 { (0..frame.len()).collect() } else { (0..24).map(|_| t.rng.below(frame.len() as u64) as usize).collect() };
            for k in trunc {
                c07_case(t, &mut gb, &shape, &text, sfp, "truncated_frame", &frame[..k]);
            }
            // every single-byte substitution
            let offs: Vec<usize> = if frame.len() <= 40 { (0..frame.len()).collect() } else { (0..24).map(|_| t.rng.below(frame.len() as u64) as usize).collect() };
            for o in offs {
                for sub in [0x00u8, 0x01, 0x02, 0xFF, frame[o].wrapping_add(1), frame[o].wrapping_sub(1)] {
                    if sub != frame[o] {
                        let mut m = with_tail.clone();
                        m[o] = sub;
                        c07_case(t, &mut gb, &shape, &text, sfp, "corrupted_frame", &m);
                    }
                }
            }
            // random bytes
            let r = t.rng.bytes(t.rng.clone().range(0, 24));
            c07_case(t, &mut gb, &shape, &text, sfp, "random", &r);
            // code byte exactly at / beyond the end
            for extra in [0usize, 1, 2] {
                let l = t.rng.range(1, 12);
                let mut m: Vec<u8> = (0..l).map(|_| 1 + (t.rng.next() % 254) as u8).collect();
                m[0] = (l + extra) as u8;
                c07_case(t, &mut gb, &shape, &text, sfp, "code_byte_at_edge", &m);
            }
        }
    });
    rep.stats.merge(s);
    // lane 2b: run structure: payloads made of zero-separated runs whose lengths sit around the 254-byte block size
    let s = parallel(cfg, 4, |t| {
        let mut gb = GuardBuf::new(4);
        let menu: &[usize] = if t.cfg.tier == Tier::Tiny { &[0, 253, 254] } else { &[0, 1, 2, 252, 253, 254, 255, 507, 508, 509] };
        let mut idx = 0u64;
        let k = menu.len();
        for nruns in 1..=3usize {
            for code in 0..k.pow(nruns as u32) {
                for trailing_zero in [false, true] {
                    idx += 1;
                    if !t.mine(idx) || t.cfg.expired() {
                        continue;
                    }
                    let mut plain: Vec<u8> = Vec::new();
                    let mut c = code;
                    for r in 0..nruns {
                        if r > 0 {
                            plain.push(0);
                        }
                        let len = menu[c % k];
                        c /= k;
                        plain.extend((0..len).map(|i| 1 + ((i * 7 + r) % 255) as u8));
                    }
                    if trailing_zero {
                        plain.push(0);
                    }
                    let shape = msg_shape(plain.len());
                    let text = shape.text();
                    let sfp = fp(text.as_bytes());
                    let mut frame = cobs_encode(&plain);
                    frame.push(0);
                    t.st.count("run_structure_frames");
                    c07_case(t, &mut gb, &shape, &text, sfp, "run_structure", &frame);
                    frame.extend_from_slice(&[3, 9, 9, 0]);
                    c07_case(t, &mut gb, &shape, &text, sfp, "run_structure_with_tail", &frame);
                }
            }
        }
    });
    rep.stats.merge(s);
    rep.floor("run_structure_frames", if cfg.tier == Tier::Tiny { 1 } else { 500 });
    // lane 3: long frames (encoded lengths around every power of two up to 2^20 / 2^17 quick), zero-free and mixed
    if !matches!(cfg.tier, Tier::Tiny) {
        let s = parallel(cfg, 3, |t| {
            let top = if matches!(t.cfg.tier, Tier::Thorough) { 20u32 } else { 17 };
            let mut gb = GuardBuf::new(((1usize << top) + 8192) / 4096 + 2);
            let mut idx = 0u64;
            for k in 9..=top {
                for d in [-3i64, -2, -1, 0, 1, 2, 5] {
                    for style in 0..3u32 {
                        idx += 1;
                        if !t.mine(idx) || t.cfg.expired() {
                            continue;
                        }
                        // payload length such that the frame (code bytes + sentinel) is about 2^k + d bytes
                        let target = ((1i64 << k) + d) as usize;
                        let body = target - target / 255 - 4;
                        let content: Vec<u8> = (0..body)
                            .map(|i| match style {
                                0 => 1 + (i % 251) as u8,                             // zero-free
                                1 => if i % 300 == 299 { 0 } else { 0x41 + (i % 20) as u8 }, // a zero now and then
                                _ => (t.rng.next() % 256) as u8,
                            })
                            .collect();
                        let (shape, val) = match (style + k) % 3 {
                            0 => (Shape::Bytes, Val::Bytes(content)),
                            1 => (Shape::Str, Val::Str(content.iter().map(|b| (0x20 + b % 0x5F) as char).collect())),
                            _ => (Shape::Seq(Box::new(Shape::U8)), Val::Seq(content.iter().map(|b| Val::U8(*b)).collect())),
                        };
                        let text = shape.text();
                        let sfp = fp(text.as_bytes());
                        let mut frame = cobs_encode(&spec::encode(&val));
                        frame.push(0);
                        t.st.count("long_frames");
                        c07_case(t, &mut gb, &shape, &text, sfp, "long_frame", &frame);
                        let mut tail = frame.clone();
                        tail.extend_from_slice(&[2, 7, 0]);
                        c07_case(t, &mut gb, &shape, &text, sfp, "long_frame_with_tail", &tail);
                        c07_case(t, &mut gb, &shape, &text, sfp, "long_frame_truncated", &frame[..frame.len() - 2]);
                        let o = t.rng.below(frame.len() as u64 - 1) as usize;
                        let mut bad = frame.clone();
                        bad[o] = if bad[o] == 0xFF { 0xFE } else { 0xFF };
                        c07_case(t, &mut gb, &shape, &text, sfp, "long_frame_corrupted", &bad);
                    }
                }
            }
        });
        rep.stats.merge(s);
        rep.floor("long_frames", 50);
    }
    rep.rule = "cases = (target shape, input bytes): every byte string up to length 7 (quick) / 9 (thorough) over {00,01,02,03,05,FF}; valid frames of random values with every \
                truncation and every single-byte substitution; code bytes pointing exactly at / 1 / 2 past the end; random bytes; every payload made of 1-3 zero-separated runs of lengths {0,1,2,252,253,254,255,507,508,509} (with and without a trailing zero, alone and followed by other data); long frames of bytes/str/seq(u8) with encoded lengths 2^k-3..2^k+5 for k = 9..17 (quick) / 20 (thorough), zero-free, sparse-zero and random, valid / with tail / truncated / one byte corrupted; targets u8, (u8,u8), bytes, str, seq(u16), \
                option(bool), unit and random shapes; every input decoded by take_from_bytes_cobs and from_bytes_cobs flush against a guard page on either side. \
                Non-trivial = non-empty input; distinct = fingerprint of (shape, input)."
        .into();
    rep.assumptions = vec![
        "reference COBS decoder validated against published vectors".into(),
        "'behaves as plain decoding would' is judged against the real plain decoder (whose own correctness is C03's subject)".into(),
    ];
    rep.floor("ill_formed_cobs_inputs", 50);
    rep.floor("well_formed_cobs_inputs", 50);
    rep.floor("cobs_decode_ok", 20);
    rep.floor("cobs_decode_err", 20);
    rep.floor("exhaustive_strings", 100);
    rep.floor("input_corrupted_frame", 50);
    rep.floor("input_truncated_frame", 20);
    rep
}

fn replay(cfg: &Cfg, which: &str, p: &std::path::Path) -> Stats {
    let mut st = Stats::new();
    let m = match read_replay(p) {
        Ok(m) => m,
        Err(e) => {
            st.inconclusive(e);
            return st;
        }
    };
    let which = which.to_string();
    let s = parallel(&Cfg { threads: 1, ..cfg.clone() }, 9, |t| {
        let kind = m.get("kind").cloned().unwrap_or_default();
        if kind == "c06-multi" {
            // rebuild the items from the recorded buffer: split at zeros, reference-decode each frame
            let buffer = unhex(m.get("buffer").map(|s| s.as_str()).unwrap_or("")).unwrap_or_default();
            let shapes: Vec<Shape> = m.get("shapes").map(|s| s.split(" ; ").filter_map(|x| Shape::parse(x.trim()).ok()).collect()).unwrap_or_default();
            let drop_last = buffer.last() != Some(&0);
            let mut items = Vec::new();
            let mut start = 0usize;
            let mut k = 0usize;
            for i in 0..=buffer.len() {
                let at_end = i == buffer.len();
                if (at_end && start < buffer.len()) || (!at_end && buffer[i] == 0) {
                    if k >= shapes.len() {
                        break;
                    }
                    let body = &buffer[start..i];
                    if let CobsRef::Ok(payload) = cobs_decode_frame(body) {
                        if let Ok(d) = spec::decode(&shapes[k], &payload) {
                            let mut f = body.to_vec();
                            f.push(0);
                            items.push((shapes[k].clone(), d.val, f));
                        }
                    }
                    k += 1;
                    start = i + 1;
                }
            }
            if items.len() != shapes.len() {
                t.st.inconclusive("multi-frame replay: could not rebuild the frame sequence from the replay file".into());
                return;
            }
            c06_multi(t, &items, drop_last);
            return;
        }
        let text = m.get("shape").cloned().unwrap_or_default();
        let shape = match Shape::parse(&text) {
            Ok(s) => s,
            Err(e) => {
                t.st.inconclusive(format!("cannot parse shape: {}", e));
                return;
            }
        };
        if which == "C06" {
            let bytes = unhex(m.get("value_spec_bytes").map(|s| s.as_str()).unwrap_or("")).unwrap_or_default();
            match spec::decode(&shape, &bytes) {
                Ok(d) => {
                    c06_value(t, &shape, &d.val, false);
                }
                Err(_) => t.st.inconclusive("replay value does not decode under the reference decoder".into()),
            }
        } else {
            let input = unhex(m.get("input").map(|s| s.as_str()).unwrap_or("")).unwrap_or_default();
            let mut gb = GuardBuf::new(input.len() / 4096 + 4);
            c07_case(t, &mut gb, &shape, &text, 0, "replay", &input);
        }
    });
    st.merge(s);
    let _ = (J::Null, &crc_algos);
    st
}
