//! C10: CRC framing appends the right checksum and never accepts a wrong one.
//! Corruption faults are enumerated per sampled frame: every single-bit flip, every burst
//! pattern no longer than the width at every bit offset of the payload (exhaustive for
//! widths <= 16, sampled above), every corruption class confined to the checksum, every
//! truncation; the soundness invariant is checked on every input that is accepted.

use super::common::*;
use super::frames::*;
use crate::bridge::{take_strs, with_shape};
use crate::gen::*;
use crate::json::{hex, unhex, J};
use crate::mem::catch;
use crate::model::*;
use crate::rng::{fp, fp_mix};
use crate::run::*;
use crate::spec;

thread_local! {
    static CUR_PLAIN: std::cell::RefCell<Vec<u8>> = const { std::cell::RefCell::new(Vec::new()) };
}
fn rp(a: &CrcAlgo, shape: &Shape, input: &[u8]) -> Vec<(String, String)> {
    let plain = CUR_PLAIN.with(|p| p.borrow().clone());
    vec![kv("kind", "c10"), kv("algorithm", a.name), kv("shape", shape.text()), kv("input", hex(input)), kv("value_spec_bytes", hex(&plain))]
}

/// Decode `input`; if accepted, check the soundness invariant.  Returns Some(consumed) on accept.
fn decode_and_check(t: &mut Tctx, a: &CrcAlgo, shape: &Shape, input: &[u8]) -> Option<usize> {
    t.st.eval();
    t.st.nontrivial(fp_mix(fp(a.name.as_bytes()), fp(input)));
    let r = catch(|| with_shape(shape, || (a.take_from)(input)));
    let _ = take_strs();
    // the remainder-dropping entry point must agree with the remainder-returning one
    let r2 = catch(|| with_shape(shape, || (a.from)(input)));
    let _ = take_strs();
    let agree = match (&r, &r2) {
        (Ok(Ok((v, _, _))), Ok(Ok(v2))) => v == v2,
        (Ok(Err(e)), Ok(Err(e2))) => e == e2,
        (Err(_), Err(_)) => true,
        _ => false,
    };
    if !agree {
        t.st.violation(
            "C10:from_bytes-disagrees-with-take_from_bytes",
            format!(
                "{}: from_bytes_crc gave {:?} but take_from_bytes_crc gave {:?} on {}",
                a.name,
                r2.as_ref().map(|x| x.as_ref().map(|v| v.show()).map_err(err_label)),
                r.as_ref().map(|x| x.as_ref().map(|v| v.0.show()).map_err(err_label)),
                hexs(input)
            ),
            rp(a, shape, input),
        );
        return None;
    }
    match r {
        Err(p) => {
            t.st.violation("C10:panic", format!("CRC-checked decoding panicked: {} ({}, input {})", p, a.name, hexs(input)), rp(a, shape, input));
            None
        }
        Ok(Err(_)) => {
            t.st.count("rejected");
            None
        }
        Ok(Ok((_v, rptr, rlen))) => {
            t.st.count("accepted");
            let base = input.as_ptr() as usize;
            let consumed = rptr.wrapping_sub(base);
            if consumed > input.len() || consumed + rlen != input.len() || consumed < a.bytes {
                t.st.violation(
                    "C10:remainder-wrong",
                    format!("remainder offset {} len {} for a {}-byte input ({})", consumed as isize, rlen, input.len(), a.name),
                    rp(a, shape, input),
                );
                return None;
            }
            let body = &input[..consumed - a.bytes];
            let stored = &input[consumed - a.bytes..consumed];
            t.st.count("soundness_invariant_checked");
            if ref_crc_le(a, body) != stored {
                t.st.violation(
                    "C10:accepted-with-wrong-checksum",
                    format!(
                        "decoding accepted {} bytes whose stored checksum {} is not the {} checksum {} of the preceding {} bytes (input {})",
                        consumed,
                        hex(stored),
                        a.name,
                        hex(&ref_crc_le(a, body)),
                        body.len(),
                        hexs(input)
                    ),
                    rp(a, shape, input),
                );
                return None;
            }
            Some(consumed)
        }
    }
}

/// flip bit `k` of the payload in the algorithm's own bit order
fn flip_bit(buf: &mut [u8], k: usize, refin: bool) {
    let byte = k / 8;
    let j = k % 8;
    let mask = if refin { 1u8 << j } else { 0x80u8 >> j };
    buf[byte] ^= mask;
}

fn one_frame(t: &mut Tctx, ai: usize, algos: &[CrcAlgo], shape: &Shape, val: &Val, exhaustive_bursts: bool) {
    let a = &algos[ai];
    let plain = spec::encode(val);
    CUR_PLAIN.with(|p| *p.borrow_mut() = plain.clone());
    let sfp = fp_mix(fp(shape.text().as_bytes()), fp(a.name.as_bytes()));
    t.st.nontrivial(fp_mix(sfp, fp(&plain)));
    t.st.count(&format!("frames_{}bit", a.bytes * 8));
    let rpv = |input: &[u8]| rp(a, shape, input);
    // (a) frame == plain ++ LE(reference CRC)
    let want = ref_frame(Framing::Crc(ai), algos, &plain);
    if (a.crate_crc)(&plain).to_le_bytes()[..a.bytes] != want[plain.len()..] {
        t.st.inconclusive(format!("reference CRC disagrees with the crc crate for {} (oracle parameters wrong?)", a.name));
        return;
    }
    t.st.eval();
    let frame = match catch(|| (a.to_allocvec)(val)) {
        Ok(Ok(f)) => f,
        other => {
            t.st.violation("C10:encode-failed", format!("{}: {:?}", a.name, other.map(|r| r.map(|_| ()).map_err(|e| err_label(&e)))), rpv(&plain));
            return;
        }
    };
    if frame != want {
        t.st.violation(
            "C10:frame-differs",
            format!("{} frame {} but plain ++ little-endian checksum is {}", a.name, hexs(&frame), hexs(&want)),
            rpv(&plain),
        );
        return;
    }
    // other storage kinds
    let mut buf = vec![0u8; want.len() + 3];
    match catch(|| (a.to_slice)(val, &mut buf)) {
        Ok(Ok((p, l))) if p == buf.as_ptr() as usize && buf[..l] == want[..] => t.st.count("storage_slice"),
        _ => {
            t.st.violation("C10:slice-storage-differs", format!("{} to_slice differs", a.name), rpv(&plain));
            return;
        }
    }
    // a slice that holds the payload but not the whole checksum must be refused, not truncated
    for c in plain.len()..want.len() {
        let mut small = vec![0u8; c];
        t.st.count("slice_capacity_inside_checksum");
        match catch(|| (a.to_slice)(val, &mut small)) {
            Ok(Err(postcard::Error::SerializeBufferFull)) => {}
            other => {
                t.st.violation(
                    "C10:truncated-checksum-emitted",
                    format!("{}: to_slice into {} bytes (frame is {} bytes) gave {:?} instead of SerializeBufferFull", a.name, c, want.len(), other.map(|r| r.map(|x| x.1).map_err(|e| err_label(&e)))),
                    rpv(&plain),
                );
                return;
            }
        }
    }
    if want.len() <= 64 {
        if let Some(r) = to_hvec_framed::<64>(Framing::Crc(ai), algos, val) {
            match r {
                Ok(b) if b == want => t.st.count("storage_heapless"),
                _ => {
                    t.st.violation("C10:heapless-storage-differs", format!("{} to_vec differs", a.name), rpv(&plain));
                    return;
                }
            }
        }
    }
    // (b) decode with a tail
    let tail = t.rng.bytes(t.rng.clone().range(0, 5));
    let mut input = frame.clone();
    input.extend_from_slice(&tail);
    let r = catch(|| with_shape(shape, || (a.take_from)(&input)));
    match r {
        Ok(Ok((v, rptr, rlen))) if v == *val && rptr == input.as_ptr() as usize + frame.len() && rlen == tail.len() => t.st.count("decoded_back"),
        other => {
            t.st.violation(
                "C10:does-not-decode-back",
                format!("{}: take_from_bytes_crc gave {:?}", a.name, other.map(|r| r.map(|x| (x.0.show(), x.2)).map_err(|e| err_label(&e)))),
                rpv(&input),
            );
            return;
        }
    }
    match catch(|| with_shape(shape, || (a.from)(&frame))) {
        Ok(Ok(v)) if v == *val => {}
        _ => {
            t.st.violation("C10:from_bytes-disagrees", format!("{}: from_bytes_crc differs from take_from_bytes_crc", a.name), rpv(&frame));
            return;
        }
    }
    let _ = take_strs();
    // the exact frame and the frame followed by other bytes, through both entry points
    if decode_and_check(t, a, shape, &frame) != Some(frame.len()) {
        t.st.violation("C10:valid-frame-rejected", format!("{}: the encoder's own frame was not accepted by both entry points", a.name), rpv(&frame));
        return;
    }
    if !tail.is_empty() && decode_and_check(t, a, shape, &input) != Some(frame.len()) {
        t.st.violation("C10:valid-frame-rejected", format!("{}: a valid frame followed by {} other bytes was not accepted with the frame's length", a.name, tail.len()), rpv(&input));
        return;
    }
    let n = plain.len();
    let w = a.bytes * 8;
    // (d1) every single bit flip of the whole frame
    for k in 0..frame.len() * 8 {
        let mut m = frame.clone();
        flip_bit(&mut m, k, a.params.refin);
        t.st.count("single_bit_flips");
        if let Some(c) = decode_and_check(t, a, shape, &m) {
            if c == frame.len() {
                t.st.violation(
                    "C10:single-bit-flip-accepted",
                    format!("{}: flipping bit {} of the frame was accepted with unchanged length (frame {})", a.name, k, hexs(&frame)),
                    rpv(&m),
                );
                return;
            }
            t.st.count("corruption_changed_length_not_claimed");
        }
    }
    // (d2) corruptions confined to the checksum field
    for _ in 0..(if exhaustive_bursts { 200 } else { 40 }) {
        let mut m = frame.clone();
        match t.rng.below(4) {
            0 => {
                let i = n + t.rng.below(a.bytes as u64) as usize;
                m[i] = m[i].wrapping_add(1 + (t.rng.next() % 255) as u8);
            }
            1 => {
                for i in n..frame.len() {
                    m[i] = t.rng.next() as u8;
                }
                if m == frame {
                    continue;
                }
            }
            2 => {
                m[n..].reverse();
                if m == frame {
                    continue;
                }
            }
            _ => {
                for i in n..frame.len() {
                    m[i] = !m[i];
                }
            }
        }
        t.st.count("checksum_field_corruptions");
        if let Some(c) = decode_and_check(t, a, shape, &m) {
            if c == frame.len() {
                t.st.violation("C10:checksum-corruption-accepted", format!("{}: corrupted checksum accepted (frame {})", a.name, hexs(&frame)), rpv(&m));
                return;
            }
        }
    }
    // (d3) bursts no longer than the width inside the payload, at every bit offset
    if n > 0 {
        let payload_bits = n * 8;
        for blen in 2..=w.min(payload_bits) {
            // burst pattern: first and last bit set, inner bits arbitrary
            let inner = blen - 2;
            let npat: u128 = if inner >= 64 { u128::MAX } else { 1u128 << inner };
            let exhaustive_here = exhaustive_bursts && inner <= 14;
            let samples: u64 = if exhaustive_here { npat as u64 } else { (npat.min(if exhaustive_bursts { 24 } else { 4 })) as u64 };
            for off in 0..=(payload_bits - blen) {
                // sample offsets for wide bursts in the non-exhaustive mode
                if !exhaustive_bursts && !t.rng.chance(1, 3) {
                    continue;
                }
                for s in 0..samples {
                    let pat: u128 = if exhaustive_here { s as u128 } else { t.rng.u128() & (npat.wrapping_sub(1)) };
                    let mut m = frame.clone();
                    flip_bit(&mut m, off, a.params.refin);
                    flip_bit(&mut m, off + blen - 1, a.params.refin);
                    for b in 0..inner.min(128) {
                        if (pat >> b) & 1 == 1 {
                            flip_bit(&mut m, off + 1 + b, a.params.refin);
                        }
                    }
                    t.st.count("payload_bursts");
                    if let Some(c) = decode_and_check(t, a, shape, &m) {
                        if c == frame.len() {
                            t.st.violation(
                                "C10:payload-burst-accepted",
                                format!("{}: a {}-bit burst at payload bit {} was accepted with unchanged length (frame {})", a.name, blen, off, hexs(&frame)),
                                rpv(&m),
                            );
                            return;
                        }
                        t.st.count("corruption_changed_length_not_claimed");
                    }
                }
            }
        }
    }
    // (e) every truncation is rejected
    for k in 0..frame.len() {
        t.st.count("truncations");
        if decode_and_check(t, a, shape, &frame[..k]).is_some() {
            t.st.violation("C10:truncated-frame-accepted", format!("{}: a {}-byte prefix of the {}-byte frame was accepted", a.name, k, frame.len()), rpv(&frame[..k]));
            return;
        }
    }
    // (f) random multi-byte damage and random bytes: soundness invariant only
    for _ in 0..20 {
        let mut m = input.clone();
        let k = t.rng.range(1, 4);
        for _ in 0..k {
            let i = t.rng.below(m.len() as u64) as usize;
            m[i] = t.rng.next() as u8;
        }
        t.st.count("random_damage");
        decode_and_check(t, a, shape, &m);
    }
    let r = t.rng.bytes(t.rng.clone().range(0, 24));
    decode_and_check(t, a, shape, &r);
}

/// Lean variant of the per-frame monitor for the interpreter stages: frame bytes through two storages, decode
/// back with a tail, a handful of single-bit flips with the soundness invariant.
fn lean_frame(t: &mut Tctx, ai: usize, algos: &[CrcAlgo], shape: &Shape, val: &Val) {
    let a = &algos[ai];
    let plain = spec::encode(val);
    CUR_PLAIN.with(|p| *p.borrow_mut() = plain.clone());
    let want = ref_frame(Framing::Crc(ai), algos, &plain);
    t.st.eval();
    t.st.count(&format!("frames_{}bit", a.bytes * 8));
    let got = catch(|| (a.to_allocvec)(val));
    let mut buf = vec![0u8; want.len()];
    let got2 = catch(|| (a.to_slice)(val, &mut buf).map(|(_, l)| l));
    if !matches!(&got, Ok(Ok(f)) if *f == want) || !matches!(got2, Ok(Ok(l)) if l == want.len() && buf == want) {
        t.st.violation("C10:frame-differs", format!("{}: frame differs from plain ++ little-endian checksum {}", a.name, hexs(&want)), rp(a, shape, &plain));
        return;
    }
    let mut with_tail = want.clone();
    with_tail.extend_from_slice(&[0x11, 0x22]);
    match decode_and_check(t, a, shape, &with_tail) {
        Some(c) if c == want.len() => t.st.count("decoded_back"),
        other => {
            t.st.violation("C10:valid-frame-rejected", format!("{}: a valid frame followed by two bytes gave {:?}", a.name, other), rp(a, shape, &with_tail));
            return;
        }
    }
    for _ in 0..6 {
        let mut bad = want.clone();
        let k = t.rng.below(bad.len() as u64 * 8) as usize;
        bad[k / 8] ^= 1 << (k % 8);
        t.st.count("single_bit_flips");
        // decode_and_check reports an accepted frame whose consumed bytes do not carry their own checksum
        let _ = decode_and_check(t, a, shape, &bad);
    }
}

/// CRC-checked decoding over a byte READER (the checksum flavour stacked on `IOReader` / `EIOReader`) with the
/// scratch buffer sized exactly: what the value borrows plus the checksum bytes (read through the scratch).  The
/// frame must decode to the value, consume exactly the frame from the reader, and a corrupted frame must be refused.
fn reader_backed(t: &mut Tctx, shape: &Shape, val: &Val) {
    use super::io::{EioEnd, Endpoint, Fault, Sched, StdEnd};
    use crate::bridge::DynVal;
    use postcard::de_flavors::crc::CrcModifier;
    use postcard::de_flavors::io::eio::EIOReader;
    use postcard::de_flavors::io::io::IOReader;
    use serde::Deserialize;
    let plain = spec::encode(val);
    let d = match spec::decode(shape, &plain) {
        Ok(d) => d,
        Err(_) => return,
    };
    let rpv = |w: usize, extra: usize, what: &str| vec![kv("kind", "c10-reader"), kv("width", w.to_string()), kv("shape", shape.text()), kv("value_spec_bytes", hex(&plain)), kv("scratch_extra", extra.to_string()), kv("what", what)];
    macro_rules! width {
        ($w:ty, $alg:path) => {{
            let c = crc::Crc::<$w>::new(&$alg);
            let wbytes = std::mem::size_of::<$w>();
            let mut frame = plain.clone();
            frame.extend_from_slice(&c.checksum(&plain).to_le_bytes());
            let tail = t.rng.bytes(t.rng.clone().range(0, 4));
            let mut stream = frame.clone();
            stream.extend_from_slice(&tail);
            for extra in [0usize, 1, 7] {
                for eio in [false, true] {
                    for corrupt in [false, true] {
                        let mut input = stream.clone();
                        if corrupt {
                            let o = t.rng.below(frame.len() as u64) as usize;
                            input[o] ^= 1 << t.rng.below(8);
                        }
                        let sched = if extra == 1 { Sched::OneByte } else { Sched::Short(t.rng.next() | 1) };
                        let mut scratch = vec![0u8; d.scratch_need + wbytes + extra];
                        t.st.eval();
                        t.st.count("reader_backed_crc_decodes");
                        let r = catch(|| {
                            with_shape(shape, || -> Result<(Val, usize), postcard::Error> {
                                if eio {
                                    let fl = CrcModifier::new(EIOReader::new(EioEnd(Endpoint::reader(&input, sched, Fault::None)), &mut scratch[..]), c.digest());
                                    let mut de = postcard::Deserializer::from_flavor(fl);
                                    let v = DynVal::deserialize(&mut de)?;
                                    let (rd, _) = de.finalize()?;
                                    Ok((v.0, rd.0.pos))
                                } else {
                                    let fl = CrcModifier::new(IOReader::new(StdEnd(Endpoint::reader(&input, sched, Fault::None)), &mut scratch[..]), c.digest());
                                    let mut de = postcard::Deserializer::from_flavor(fl);
                                    let v = DynVal::deserialize(&mut de)?;
                                    let (rd, _) = de.finalize()?;
                                    Ok((v.0, rd.0.pos))
                                }
                            })
                        });
                        let _ = take_strs();
                        let what = if eio { "CrcModifier<EIOReader>" } else { "CrcModifier<IOReader>" };
                        match (r, corrupt) {
                            (Err(p), _) => {
                                t.st.violation("C10:panic", format!("{} ({}-bit): panicked: {}", what, wbytes * 8, p), rpv(wbytes, extra, what));
                                return;
                            }
                            (Ok(Ok((v, pos))), false) if v == *val && pos == frame.len() => t.st.count("reader_backed_frames_accepted"),
                            (Ok(other), false) => {
                                t.st.violation(
                                    "C10:valid-frame-over-reader-not-decoded",
                                    format!(
                                        "{} ({}-bit checksum, scratch = borrowed bytes {} + checksum {} + {}): a valid {}-byte frame gave {:?}, expected the value with the reader at {}",
                                        what,
                                        wbytes * 8,
                                        d.scratch_need,
                                        wbytes,
                                        extra,
                                        frame.len(),
                                        other.map(|(v, p)| (v.show(), p)).map_err(|e| err_label(&e)),
                                        frame.len()
                                    ),
                                    rpv(wbytes, extra, what),
                                );
                                return;
                            }
                            (Ok(Ok((v, pos))), true) => {
                                // accepted although a bit was flipped: the consumed bytes must carry their own correct checksum
                                let ok = pos >= wbytes && pos <= input.len() && {
                                    let body = &input[..pos - wbytes];
                                    c.checksum(body).to_le_bytes()[..] == input[pos - wbytes..pos]
                                };
                                if !ok {
                                    t.st.violation(
                                        "C10:accepted-with-wrong-checksum",
                                        format!("{} ({}-bit): a frame with one flipped bit decoded to {} with the reader at {}, but those bytes do not end in their checksum", what, wbytes * 8, v.show(), pos),
                                        rpv(wbytes, extra, what),
                                    );
                                    return;
                                }
                            }
                            (Ok(Err(_)), true) => t.st.count("reader_backed_corruptions_rejected"),
                        }
                    }
                }
            }
        }};
    }
    width!(u8, crc::CRC_8_SMBUS);
    width!(u16, crc::CRC_16_IBM_SDLC);
    width!(u32, crc::CRC_32_ISCSI);
    width!(u64, crc::CRC_64_XZ);
    width!(u128, crc::CRC_82_DARC);
}

/// The crate-level convenience wrappers for the 32-bit width.
fn crc32_wrappers(t: &mut Tctx, shape: &Shape, val: &Val) {
    let c = crc::Crc::<u32>::new(&crc::CRC_32_ISO_HDLC);
    let plain = spec::encode(val);
    let mut want = plain.clone();
    want.extend_from_slice(&c.checksum(&plain).to_le_bytes());
    let rpv = || vec![kv("kind", "c10-wrappers"), kv("shape", shape.text()), kv("value_spec_bytes", hex(&plain))];
    t.st.eval();
    t.st.count("crc32_wrapper_cases");
    let outs: Vec<(&str, Result<postcard::Result<Vec<u8>>, String>)> = vec![
        ("to_allocvec_crc32", catch(|| postcard::to_allocvec_crc32(val, c.digest()))),
        ("to_stdvec_crc32", catch(|| postcard::to_stdvec_crc32(val, c.digest()))),
        ("to_vec_crc32", if want.len() <= 256 { catch(|| postcard::to_vec_crc32::<_, 256>(val, c.digest()).map(|v| v.to_vec())) } else { Ok(Ok(want.clone())) }),
        ("to_slice_crc32", catch(|| {
            let mut b = vec![0u8; want.len()];
            postcard::to_slice_crc32(val, &mut b, c.digest()).map(|s| s.to_vec())
        })),
    ];
    for (name, r) in outs {
        if !matches!(&r, Ok(Ok(b)) if *b == want) {
            t.st.violation(&format!("C10:frame-differs:{}", name), format!("{} gave {:?}, expected plain ++ little-endian CRC-32 {}", name, r.map(|x| x.map(|b| hexs(&b)).map_err(|e| err_label(&e))), hexs(&want)), rpv());
            return;
        }
    }
    let mut with_tail = want.clone();
    with_tail.extend_from_slice(&[9, 8, 7]);
    let a = catch(|| with_shape(shape, || postcard::from_bytes_crc32::<crate::bridge::DynVal>(&want, c.digest()).map(|v| v.0)));
    let b = catch(|| with_shape(shape, || postcard::take_from_bytes_crc32::<crate::bridge::DynVal>(&with_tail, c.digest()).map(|(v, r)| (v.0, r.to_vec()))));
    let _ = take_strs();
    if !matches!(&a, Ok(Ok(v)) if v == val) || !matches!(&b, Ok(Ok((v, r))) if v == val && r[..] == [9, 8, 7]) {
        t.st.violation("C10:crc32-wrapper-decode-differs", "from_bytes_crc32 / take_from_bytes_crc32 do not return the value (and the bytes after the checksum)".into(), rpv());
        return;
    }
    // one flipped bit anywhere must be refused or leave a self-consistent shorter frame
    let o = t.rng.below(want.len() as u64) as usize;
    let mut bad = want.clone();
    bad[o] ^= 1 << t.rng.below(8);
    if let Ok(Ok(_)) = catch(|| with_shape(shape, || postcard::from_bytes_crc32::<crate::bridge::DynVal>(&bad, c.digest()).map(|v| v.0))) {
        // accepted: then some prefix must end in its own checksum (decoded length changed)
        let okay = (4..=bad.len()).any(|p| c.checksum(&bad[..p - 4]).to_le_bytes()[..] == bad[p - 4..p]);
        if !okay {
            t.st.violation("C10:accepted-with-wrong-checksum", format!("from_bytes_crc32 accepted {} (bit flipped at byte {})", hexs(&bad), o), rpv());
        }
    } else {
        t.st.count("crc32_wrapper_corruptions_rejected");
    }
    let _ = take_strs();
}

pub fn run(cfg: &Cfg) -> Report {
    let mut rep = Report::new("C10");
    let algos = crc_algos();
    match crc_selfcheck(&algos) {
        Ok(n) => {
            rep.extra.insert("crc_algorithms_validated_against_check_values".into(), J::i(n as u64));
        }
        Err(e) => rep.stats.inconclusive(e),
    }
    if let Some(p) = &cfg.replay {
        let m = read_replay(p).unwrap_or_default();
        let s = parallel(&Cfg { threads: 1, ..cfg.clone() }, 9, |t| {
            let algos = crc_algos();
            if m.get("kind").map(|s| s.as_str()) == Some("call-sequence") {
                call_sequences_lane(t, "C10");
                return;
            }
            let name = m.get("algorithm").cloned().unwrap_or_default();
            let ai = algos.iter().position(|a| a.name == name).unwrap_or(0);
            let shape = match Shape::parse(m.get("shape").map(|s| s.as_str()).unwrap_or("")) {
                Ok(s) => s,
                Err(e) => {
                    t.st.inconclusive(format!("cannot parse shape: {}", e));
                    return;
                }
            };
            let input = unhex(m.get("input").map(|s| s.as_str()).unwrap_or("")).unwrap_or_default();
            // the replay input is either a corrupted frame (soundness) or a plain encoding (re-run the frame)
            decode_and_check(t, &algos[ai], &shape, &input);
            let vb = unhex(m.get("value_spec_bytes").map(|s| s.as_str()).unwrap_or("")).unwrap_or_default();
            if let Ok(d) = spec::decode(&shape, &vb) {
                if d.consumed == vb.len() {
                    one_frame(t, ai, &algos, &shape, &d.val, false);
                    reader_backed(t, &shape, &d.val);
                    crc32_wrappers(t, &shape, &d.val);
                }
            }
        });
        rep.stats.merge(s);
        rep.rule = "replay".into();
        return rep;
    }
    if cfg.tier == Tier::Tiny && cfg.knob_u64("lean", 0) == 1 {
        // lean interpreter workload (other byte orders): a few short frames per algorithm through the full monitor
        let s = parallel(cfg, 1, |t| {
            let algos = crc_algos();
            let mut n = 0u64;
            let limit = t.cfg.knob_u64("lean_values", 200);
            while !t.cfg.expired() && n < limit {
                let ai = (n as usize) % algos.len();
                n += 1;
                let len = t.rng.range(1, 5);
                let (shape, val) = super::ser::value_of_len(&mut t.rng, len);
                lean_frame(t, ai, &algos, &shape, &val);
                if n % 5 == 0 {
                    crc32_wrappers(t, &shape, &val);
                }
            }
            t.st.add("lean_frames", n);
        });
        rep.stats.merge(s);
        rep.rule = "lean interpreter workload: short frames of every catalogue algorithm through the frame, storage, corruption and soundness monitors".into();
        return rep;
    }
    let s = parallel(cfg, 1, |t| {
        let algos = crc_algos();
        let frames = t.cfg.scale(1, 32, 320);
        let mut i = 0u64;
        for ai in 0..algos.len() {
            for rep_i in 0..frames {
                i += 1;
                if !t.mine(i) || t.cfg.expired() {
                    continue;
                }
                // short frames for the exhaustive burst enumeration, ordinary values otherwise
                let w = algos[ai].bytes * 8;
                let exhaustive = w <= 16 && rep_i < 2.max(frames / 4);
                let (shape, val) = if !exhaustive && rep_i % 5 == 4 {
                    // a single block write of >= 32 bytes (str / bytes payload) inside a small struct
                    let n = if rep_i % 10 == 9 { t.rng.range(65, 140) } else { t.rng.range(32, 40) };
                    let shape = Shape::Struct("T0", vec![("f0", Shape::U8), ("f1", if rep_i % 2 == 0 { Shape::Str } else { Shape::Bytes }), ("f2", Shape::U16)]);
                    // both a repeating run (period divides 64) and a non-repeating one
                    let payload = if rep_i % 2 == 0 { Val::Str(if rep_i % 4 == 0 { "k".repeat(n) } else { (0..n).map(|i| (b'a' + (i % 23) as u8) as char).collect() }) } else { Val::Bytes(t.rng.bytes(n)) };
                    let val = Val::Struct("T0", vec![("f0", Val::U8(7)), ("f1", payload), ("f2", Val::U16(513))]);
                    t.st.count("frames_with_block_write_ge_32");
                    (shape, val)
                } else if exhaustive || t.rng.chance(1, 2) {
                    let n = t.rng.range(1, if exhaustive { 6 } else { 24 });
                    super::ser::value_of_len(&mut t.rng, n)
                } else {
                    let d = t.rng.range(0, 3) as u32;
                    let shape = gen_shape(&mut t.rng, d, &ShapeOpts::small());
                    let val = {
                        let mut g = ValGen::small(&mut t.rng);
                        g.max_len = 4;
                        g.max_str = 24;
                        g.gen(&shape)
                    };
                    (shape, val)
                };
                if spec::encode(&val).len() > 160 {
                    continue;
                }
                if exhaustive {
                    t.st.count("frames_with_exhaustive_bursts");
                }
                if t.st.want_sample() {
                    let mut j = J::obj();
                    j.set("algorithm", J::s(algos[ai].name)).set("shape", J::s(shape.text())).set("value", J::s(val.show()));
                    j.set("faults", J::s("every single-bit flip; checksum-field corruptions; payload bursts <= width at every bit offset; every truncation; random damage"));
                    t.st.sample(j);
                }
                one_frame(t, ai, &algos, &shape, &val, exhaustive);
            }
        }
    });
    rep.stats.merge(s);
    let s = parallel(cfg, 2, |t| {
        let n = t.cfg.scale(2, 300, 6000);
        for i in 0..n {
            if t.cfg.expired() {
                break;
            }
            let (shape, val) = match i % 4 {
                // integers only (nothing borrowed: the scratch holds the checksum alone), borrow-heavy, random
                0 => {
                    let shape = Shape::Struct("T0", vec![("f0", Shape::U32), ("f1", Shape::I64), ("f2", Shape::Bool), ("f3", Shape::U16)]);
                    let val = ValGen::small(&mut t.rng).gen(&shape);
                    (shape, val)
                }
                1 => {
                    let shape = Shape::Tuple(vec![Shape::U64, Shape::Str, Shape::U32, Shape::Bytes, Shape::Seq(Box::new(Shape::U16))]);
                    let val = {
                        let mut g = ValGen::small(&mut t.rng);
                        g.max_str = 12;
                        g.max_len = 4;
                        g.gen(&shape)
                    };
                    (shape, val)
                }
                _ => {
                    let d = t.rng.range(0, 2) as u32;
                    let shape = gen_shape(&mut t.rng, d, &ShapeOpts::small());
                    let val = {
                        let mut g = ValGen::small(&mut t.rng);
                        g.max_len = 3;
                        g.max_str = 16;
                        g.gen(&shape)
                    };
                    (shape, val)
                }
            };
            if shape.has_zero_width_collection() || spec::encode(&val).len() > 120 {
                continue;
            }
            t.st.nontrivial(fp_mix(fp(shape.text().as_bytes()), fp(&spec::encode(&val)) ^ 0xC10));
            reader_backed(t, &shape, &val);
            crc32_wrappers(t, &shape, &val);
        }
        call_sequences_lane(t, "C10");
    });
    rep.stats.merge(s);
    rep.floor("reader_backed_frames_accepted", 100);
    rep.floor("reader_backed_corruptions_rejected", 100);
    rep.floor("crc32_wrapper_cases", 50);
    rep.rule = "cases = (algorithm, frame, injected corruption): 10 catalogue algorithms over widths 8/16/32/64/128 (reflected and unreflected); per sampled frame every \
                single-bit flip of the frame, corruptions confined to the checksum field, every burst pattern (first and last bit set) of length 2..width at every payload bit \
                offset (all patterns for widths <= 16 on short frames, sampled patterns/offsets otherwise), every truncation, random multi-byte damage and random bytes; the \
                soundness invariant (accepted => stored checksum == reference CRC of the preceding bytes) is evaluated on every accepted input. Bursts are laid out in each \
                algorithm's own bit order (LSB-first for reflected input), the order in which the burst-detection guarantee of a CRC holds. distinct = fingerprint of (algorithm, shape, plain)."
        .into();
    rep.assumptions = vec![
        "reference CRC is a bit-at-a-time Rocksoft-model implementation validated against each algorithm's published check value; parameters are read from crc-catalog constants".into(),
        "bursts that straddle payload and checksum are not claimed by the statement (checksum is stored little-endian, which is not the polynomial order for unreflected algorithms)".into(),
    ];
    for w in [8, 16, 32, 64, 128] {
        rep.floor(&format!("frames_{}bit", w), 1);
    }
    rep.floor("single_bit_flips", 100);
    rep.floor("payload_bursts", 1000);
    rep.floor("checksum_field_corruptions", 50);
    rep.floor("truncations", 20);
    rep.floor("soundness_invariant_checked", 5);
    rep.floor("decoded_back", 10);
    rep.floor("frames_with_block_write_ge_32", 5);
    rep
}
