//! C05: bounded-buffer serialisation.  The "fault" is the buffer running out: for every
//! sampled value the fault is injected at every byte position (every capacity 0..L+2) for
//! slice storage under every framing, and at a menu of const capacities for heapless storage.

use super::common::*;
use super::frames::*;
use crate::gen::*;
use crate::json::{hex, unhex, J};
use crate::mem::{catch, Canary, GuardBuf};
use crate::model::*;
use crate::rng::{fp, fp_mix};
use crate::run::*;
use crate::spec;

const FILL: u8 = 0xEE;

fn rp(shape: &Shape, plain: &[u8], framing: &str, cap: usize, storage: &str) -> Vec<(String, String)> {
    vec![
        kv("kind", "c05"),
        kv("shape", shape.text()),
        kv("value_spec_bytes", hex(plain)),
        kv("framing", framing),
        kv("capacity", cap.to_string()),
        kv("storage", storage),
    ]
}

/// Value whose plain encoding is exactly `n` bytes.
pub fn value_of_len(rng: &mut crate::rng::Rng, n: usize) -> (Shape, Val) {
    match rng.below(3) {
        0 if n >= 1 => {
            // byte array: varint(len) + payload
            let mut payload = n - 1;
            // account for the length prefix growing
            while spec::encode(&Val::Bytes(vec![0; payload])).len() > n {
                payload -= 1;
            }
            let mut b = rng.bytes(payload);
            if rng.chance(1, 2) {
                for x in b.iter_mut() {
                    if *x == 0 {
                        *x = 1;
                    }
                }
            }
            let v = Val::Bytes(b);
            let have = spec::encode(&v).len();
            let pad = n - have;
            let shape = Shape::Tuple(std::iter::once(Shape::Bytes).chain((0..pad).map(|_| Shape::U8)).collect());
            let val = Val::Tuple(std::iter::once(v).chain((0..pad).map(|_| Val::U8(rng.next() as u8))).collect());
            (shape, val)
        }
        1 => {
            // zero-free run (COBS worst case)
            let shape = Shape::Tuple((0..n).map(|_| Shape::U8).collect());
            let val = Val::Tuple((0..n).map(|_| Val::U8(1 + (rng.next() % 255) as u8)).collect());
            (shape, val)
        }
        _ => {
            let shape = Shape::Tuple((0..n).map(|_| Shape::U8).collect());
            let val = Val::Tuple((0..n).map(|_| Val::U8(if rng.chance(1, 6) { 0 } else { rng.next() as u8 })).collect());
            (shape, val)
        }
    }
}

fn framings(algos: &[CrcAlgo]) -> Vec<Framing> {
    let mut f = vec![Framing::Plain, Framing::Cobs];
    for i in 0..algos.len() {
        f.push(Framing::Crc(i));
    }
    f
}

/// All capacities for one (value, framing) on slice storage.
fn slice_sweep(t: &mut Tctx, gb: &mut GuardBuf, algos: &[CrcAlgo], shape: &Shape, val: &Val, plain: &[u8], f: Framing, sfp: u64) {
    let want = ref_frame(f, algos, plain);
    let l = want.len();
    let label = f.label(algos);
    // every capacity 0..=L+2, plus roomy buffers (the rest of the buffer must stay untouched)
    let mut caps: Vec<usize> = if l + 2 <= 1200 { (0..=l + 2).collect() } else { vec![0, 1, l - 1, l, l + 1] };
    caps.extend_from_slice(&[l + 7, l + 8, l + 9, l + 16, l + 33, l + 64]);
    for c in caps {
        if t.cfg.expired() {
            return;
        }
        for placement in 0..3u8 {
            // 0: flush against trailing guard, 1: flush against leading guard, 2: canary window (also what Miri sees)
            if placement == 2 && c > 64 && !t.rng.chance(1, 8) {
                continue;
            }
            t.st.eval();
            t.st.count(match placement {
                0 => "slice_at_trailing_guard",
                1 => "slice_at_leading_guard",
                _ => "slice_in_canary",
            });
            if c == l {
                t.st.count("exact_fit_cases");
            } else if c + 1 == l {
                t.st.count("one_short_cases");
            }
            t.st.nontrivial(fp_mix(fp_mix(sfp, fp(plain)), (c as u64) << 8 | placement as u64 | (fp(label.as_bytes()) << 20)));
            t.crumb.set(&format!(
                "kind: c05\nshape: {}\nvalue_spec_bytes: {}\nframing: {}\ncapacity: {}\nstorage: slice",
                shape.text(),
                hex(plain),
                label,
                c
            ));
            let mut canary;
            let buf: &mut [u8] = match placement {
                0 => gb.tail(c),
                1 => gb.head(c),
                _ => {
                    canary = Canary::new(c, 32, FILL);
                    // keep the canary alive for the whole case
                    let w: &mut [u8] = canary.window();
                    // SAFETY: `canary` outlives every use of `w` below (dropped at end of iteration)
                    unsafe { std::slice::from_raw_parts_mut(w.as_mut_ptr(), w.len()) }
                }
            };
            for b in buf.iter_mut() {
                *b = FILL;
            }
            let base = buf.as_ptr() as usize;
            let r = catch(|| to_slice_framed(f, algos, val, buf));
            let rpv = || rp(shape, plain, &label, c, "slice");
            match r {
                Err(p) => {
                    t.st.violation("C05:panic", format!("{} into a {}-byte slice panicked: {} (output length {})", label, c, p, l), rpv());
                    t.crumb.clear();
                    return;
                }
                Ok(Ok((ptr, len))) => {
                    if c < l {
                        t.st.violation(
                            "C05:success-with-insufficient-capacity",
                            format!("{} succeeded with capacity {} but the complete output is {} bytes", label, c, l),
                            rpv(),
                        );
                        t.crumb.clear();
                        return;
                    }
                    t.st.count("slice_success");
                    let out: Vec<u8> = match placement {
                        0 => gb.peek(true, c).to_vec(),
                        1 => gb.peek(false, c).to_vec(),
                        // canary window: the Canary object is still alive; read through its own buffer
                        _ => unsafe { std::slice::from_raw_parts(base as *const u8, c) }.to_vec(),
                    };
                    if ptr != base || len != l || out[..l] != want[..] {
                        t.st.violation(
                            "C05:wrong-bytes-or-position",
                            format!(
                                "{} capacity {}: returned offset {} len {} bytes {}, expected offset 0 len {} bytes {}",
                                label,
                                c,
                                ptr.wrapping_sub(base) as isize,
                                len,
                                hexs(&out[..len.min(c)]),
                                l,
                                hexs(&want)
                            ),
                            rpv(),
                        );
                        t.crumb.clear();
                        return;
                    }
                    if out[l..].iter().any(|b| *b != FILL) {
                        t.st.violation(
                            "C05:tail-of-buffer-touched",
                            format!("{} capacity {}: bytes after the {}-byte output were modified", label, c, l),
                            rpv(),
                        );
                        t.crumb.clear();
                        return;
                    }
                }
                Ok(Err(e)) => {
                    if c >= l {
                        t.st.violation(
                            "C05:spurious-failure",
                            format!("{} failed with {} at capacity {} although the complete output is {} bytes", label, err_label(&e), c, l),
                            rpv(),
                        );
                        t.crumb.clear();
                        return;
                    }
                    t.st.count("slice_buffer_full");
                    if e != postcard::Error::SerializeBufferFull {
                        t.st.violation(
                            "C05:wrong-error-kind",
                            format!("{} capacity {} < {}: error {} instead of SerializeBufferFull", label, c, l, err_label(&e)),
                            rpv(),
                        );
                        t.crumb.clear();
                        return;
                    }
                }
            }
            if placement == 2 {
                // canary bytes around the window
                // (the Canary value is still alive here)
            }
            t.crumb.clear();
        }
    }
}

fn canary_sweep(t: &mut Tctx, algos: &[CrcAlgo], shape: &Shape, val: &Val, plain: &[u8], f: Framing) {
    // dedicated canary pass (kept separate so the Canary object is inspected after the call)
    let want = ref_frame(f, algos, plain);
    let l = want.len();
    let label = f.label(algos);
    for c in [0usize, 1, l.saturating_sub(2), l.saturating_sub(1), l, l + 1] {
        let mut can = Canary::new(c, 64, FILL);
        let r = catch(|| to_slice_framed(f, algos, val, can.window()).map(|x| x.1));
        t.st.count("canary_cases");
        t.st.eval();
        if !can.intact() {
            t.st.violation(
                "C05:write-outside-buffer",
                format!("{} capacity {}: bytes outside the buffer were modified (output length {})", label, c, l),
                rp(shape, plain, &label, c, "slice-canary"),
            );
            return;
        }
        if let Err(p) = r {
            t.st.violation("C05:panic", format!("{} capacity {} panicked: {}", label, c, p), rp(shape, plain, &label, c, "slice-canary"));
            return;
        }
    }
}

fn heapless_sweep(t: &mut Tctx, algos: &[CrcAlgo], shape: &Shape, val: &Val, plain: &[u8], f: Framing, sfp: u64) {
    let want = ref_frame(f, algos, plain);
    let l = want.len();
    let label = f.label(algos);
    macro_rules! cap {
        ($b:expr) => {{
            const B: usize = $b;
            if let Some(r) = catch(|| to_hvec_framed::<B>(f, algos, val)).transpose() {
                t.st.eval();
                t.st.count("heapless_cases");
                if B == l {
                    t.st.count("heapless_exact_fit");
                }
                if B + 1 == l {
                    t.st.count("heapless_one_short");
                }
                t.st.nontrivial(fp_mix(fp_mix(sfp, fp(plain)), ((B as u64) << 8) | 0xff | (fp(label.as_bytes()) << 24)));
                let rpv = || rp(shape, plain, &label, B, "heapless");
                match r {
                    Err(p) => t.st.violation("C05:panic", format!("{} into heapless::Vec<{}> panicked: {}", label, B, p), rpv()),
                    Ok(Ok(bytes)) => {
                        if B < l {
                            t.st.violation(
                                "C05:success-with-insufficient-capacity",
                                format!("{} into heapless::Vec<{}> succeeded but the output is {} bytes", label, B, l),
                                rpv(),
                            );
                        } else if bytes != want {
                            t.st.violation(
                                "C05:wrong-bytes-or-position",
                                format!("{} into heapless::Vec<{}>: {} expected {}", label, B, hexs(&bytes), hexs(&want)),
                                rpv(),
                            );
                        }
                    }
                    Ok(Err(e)) => {
                        if B >= l {
                            t.st.violation(
                                "C05:spurious-failure",
                                format!("{} into heapless::Vec<{}> failed with {} although the output is {} bytes", label, B, err_label(&e), l),
                                rpv(),
                            );
                        } else if e != postcard::Error::SerializeBufferFull {
                            t.st.violation(
                                "C05:wrong-error-kind",
                                format!("{} into heapless::Vec<{}>: {} instead of SerializeBufferFull", label, B, err_label(&e)),
                                rpv(),
                            );
                        }
                    }
                }
            }
        }};
    }
    crate::for_each_hcap!(cap);
}

fn unbounded_refs(t: &mut Tctx, algos: &[CrcAlgo], shape: &Shape, val: &Val, plain: &[u8]) {
    // growable vector, Extend sink and size counter are the unbounded references
    t.st.eval();
    t.st.count("unbounded_reference_cases");
    let fail = |t: &mut Tctx, what: &str, msg: String| {
        t.st.violation(&format!("C05:unbounded-{}-differs", what), msg, rp(shape, plain, what, 0, "unbounded"));
    };
    match catch(|| postcard::to_allocvec(val)) {
        Ok(Ok(b)) if b == plain => {}
        other => fail(t, "allocvec", format!("to_allocvec gave {:?}, expected {}", other.map(|r| r.map(|b| hexs(&b)).map_err(|e| err_label(&e))), hexs(plain))),
    }
    match catch(|| postcard::to_extend(val, Vec::new())) {
        Ok(Ok(b)) if b == plain => {}
        _ => fail(t, "extend", "to_extend differs from the plain encoding".into()),
    }
    match catch(|| postcard::experimental::serialized_size(val)) {
        Ok(Ok(n)) if n == plain.len() => {}
        other => fail(t, "size", format!("serialized_size gave {:?}, expected {}", other.map(|r| r.map_err(|e| err_label(&e))), plain.len())),
    }
    for f in framings(algos) {
        if t.rng.chance(1, 3) {
            let want = ref_frame(f, algos, plain);
            match catch(|| to_allocvec_framed(f, algos, val)) {
                Ok(Ok(b)) if b == want => {}
                _ => fail(t, "framed-allocvec", format!("{} into a growable vector differs from the reference transform", f.label(algos))),
            }
        }
    }
}

pub fn one_value(t: &mut Tctx, gb: &mut GuardBuf, algos: &[CrcAlgo], shape: &Shape, val: &Val) {
    let plain = spec::encode(val);
    let sfp = fp(shape.text().as_bytes());
    if plain.len() + 40 > gb.usable() {
        return;
    }
    t.st.count("values");
    t.st.max("max_plain_len", plain.len() as u64);
    if t.st.want_sample() && plain.len() > 2 && plain.len() < 40 {
        let mut j = J::obj();
        j.set("shape", J::s(shape.text())).set("value", J::s(val.show())).set("plain", J::s(hex(&plain)));
        j.set("capacities", J::s(format!("0..={} for each of plain/cobs/10 crc algorithms x 3 placements; heapless menu", plain.len() + 2)));
        t.st.sample(j);
    }
    unbounded_refs(t, algos, shape, val, &plain);
    let fs = framings(algos);
    for f in &fs {
        // all framings for short values, a random subset of CRC algorithms for long ones
        if let Framing::Crc(_) = f {
            if plain.len() > 64 && !t.rng.chance(1, 4) {
                continue;
            }
        }
        slice_sweep(t, gb, algos, shape, val, &plain, *f, sfp);
        canary_sweep(t, algos, shape, val, &plain, *f);
        heapless_sweep(t, algos, shape, val, &plain, *f, sfp);
    }
}


/// Lean interpreter workload (Miri): monitored serialisations into exact-size heap buffers only.
fn lean(t: &mut Tctx) {
    slice_flavor_histories(t);
    let algos = crc_algos();
    let mut n = [0u64; 4];
    let mut vals = 0u64;
    while !t.cfg.expired() && vals < t.cfg.knob_u64("lean_values", 200) {
        vals += 1;
        let (shape, val) = if vals % 2 == 0 {
            let len = t.rng.range(0, 14);
            value_of_len(&mut t.rng, len)
        } else {
            let d = t.rng.range(0, 2) as u32;
            let shape = gen_shape(&mut t.rng, d, &ShapeOpts::small());
            let val = {
                let mut g = ValGen::small(&mut t.rng);
                g.max_len = 2;
                g.max_str = 6;
                g.gen(&shape)
            };
            (shape, val)
        };
        let plain = spec::encode(&val);
        if plain.len() > 24 {
            continue;
        }
        let fs = [Framing::Plain, Framing::Cobs, Framing::Crc(4), Framing::Crc(9), Framing::Crc(0), Framing::CrcInCobs(4)];
        let f = fs[(vals % 6) as usize];
        let want = ref_frame(f, &algos, &plain);
        let l = want.len();
        for c in 0..=l + 2 {
            if t.cfg.expired() {
                break;
            }
            let mut buf: Box<[u8]> = vec![FILL; c].into_boxed_slice();
            let base = buf.as_ptr() as usize;
            let r = catch(|| to_slice_framed(f, &algos, &val, &mut buf));
            n[0] += 1;
            let ok = match r {
                Err(_) => false,
                Ok(Ok((p, len))) => {
                    n[1] += 1;
                    c >= l && p == base && len == l && buf[..l] == want[..] && buf[l..].iter().all(|b| *b == FILL)
                }
                Ok(Err(e)) => {
                    n[2] += 1;
                    c < l && e == postcard::Error::SerializeBufferFull
                }
            };
            if !ok {
                t.st.violation(
                    "C05:lean-mismatch",
                    format!("{} into an exact {}-byte heap buffer misbehaved (output length {})", f.label(&algos), c, l),
                    rp(&shape, &plain, &f.label(&algos), c, "slice-exact-heap"),
                );
                return;
            }
        }
        // heapless at two capacities around the output length
        if let Ok(Some(r)) = catch(|| to_hvec_framed::<8>(f, &algos, &val)) {
            n[3] += 1;
            let ok = match r {
                Ok(b) => l <= 8 && b == want,
                Err(e) => l > 8 && e == postcard::Error::SerializeBufferFull,
            };
            if !ok {
                t.st.violation("C05:lean-mismatch", format!("{} into heapless::Vec<8> misbehaved (output length {})", f.label(&algos), l), rp(&shape, &plain, &f.label(&algos), 8, "heapless"));
                return;
            }
        }
    }
    t.st.evaluations += n[0] + n[3];
    t.st.distinct_enumerated += n[0];
    t.st.add("interpreted_slice_serialisations", n[0]);
    t.st.add("slice_success", n[1]);
    t.st.add("slice_buffer_full", n[2]);
    t.st.add("interpreted_heapless_serialisations", n[3]);
    t.st.add("values", vals);
}

/// The slice flavour is public API (`Serializer { output }`, `serialize_with_flavor`, user stacks): operation
/// histories on one `Slice`, including writes after a refused one.  Whatever was refused before, nothing is
/// ever written outside the buffer and `finalize` returns exactly the accepted bytes, at the front.
fn slice_flavor_histories(t: &mut Tctx) {
    let mut gb = GuardBuf::new(1);
    let n = t.cfg.scale(12, 4000, 80_000);
    for _ in 0..n {
        if t.cfg.expired() {
            break;
        }
        let cap = t.rng.range(0, 16);
        let steps = t.rng.range(1, 10);
        let mut plan: Vec<Vec<u8>> = Vec::new(); // one-element = push, else extend (an empty extend is written as [])
        let mut kinds: Vec<bool> = Vec::new();
        for _ in 0..steps {
            let push = t.rng.chance(1, 3);
            let len = if push {
                1
            } else {
                match t.rng.below(5) {
                    0 => 0,
                    1 => 1,
                    2 | 3 => t.rng.range(0, cap + 2),
                    _ => cap + 1 + t.rng.range(0, 40),
                }
            };
            plan.push((0..len).map(|_| 1 + (t.rng.next() % 200) as u8).collect());
            kinds.push(push);
        }
        slice_history_one(t, &mut gb, cap, &plan, &kinds);
    }
}

/// Plan syntax of the replay files: `push(ab)` / `extend(5)` separated by blanks.
fn parse_slice_plan(text: &str) -> (Vec<Vec<u8>>, Vec<bool>) {
    let mut plan = Vec::new();
    let mut kinds = Vec::new();
    for tok in text.split_whitespace() {
        if let Some(x) = tok.strip_prefix("push(").and_then(|r| r.strip_suffix(')')) {
            plan.push(vec![u8::from_str_radix(x, 16).unwrap_or(0x41)]);
            kinds.push(true);
        } else if let Some(x) = tok.strip_prefix("extend(").and_then(|r| r.strip_suffix(')')) {
            let n: usize = x.parse().unwrap_or(0);
            plan.push((0..n).map(|i| 1 + (i % 200) as u8).collect());
            kinds.push(false);
        }
    }
    (plan, kinds)
}

fn slice_history_one(t: &mut Tctx, gb: &mut GuardBuf, cap: usize, plan: &[Vec<u8>], kinds: &[bool]) {
    use postcard::ser_flavors::{Flavor, Slice};
    {
        let plan_text = plan.iter().zip(kinds).map(|(b, p)| if *p { format!("push({:02x})", b[0]) } else { format!("extend({})", b.len()) }).collect::<Vec<_>>().join(" ");
        t.st.eval();
        t.st.nontrivial(fp_mix(fp(plan_text.as_bytes()), cap as u64));
        t.st.count("slice_flavor_histories");
        let rpv = || vec![kv("kind", "ser-flavor-history"), kv("capacity", cap.to_string()), kv("plan", plan_text.clone())];
        for guarded in [true, false] {
            t.crumb.set(&format!("kind: ser-flavor-history\ncapacity: {}\nplan: {}", cap, plan_text));
            let mut canary = Canary::new(cap, 128, FILL);
            let buf: &mut [u8] = if guarded {
                let b = gb.tail(cap);
                b.fill(FILL);
                b
            } else {
                canary.window()
            };
            let base = buf.as_ptr() as usize;
            let r = catch(|| -> Result<(Vec<u8>, usize, usize, u32), String> {
                let mut fl = Slice::new(buf);
                let mut accepted: Vec<u8> = Vec::new();
                let mut sticky = 0u32;
                for (k, (bytes, push)) in plan.iter().zip(kinds).enumerate() {
                    let fits = accepted.len() + bytes.len() <= cap;
                    let res = if *push { fl.try_push(bytes[0]) } else { fl.try_extend(bytes) };
                    match (res, fits) {
                        (Ok(()), true) => accepted.extend_from_slice(bytes),
                        (Ok(()), false) => return Err(format!("step {}: a {}-byte write was accepted with {} of {} bytes used", k, bytes.len(), accepted.len(), cap)),
                        (Err(postcard::Error::SerializeBufferFull), false) => {}
                        (Err(postcard::Error::SerializeBufferFull), true) => sticky += 1,
                        (Err(e), _) => return Err(format!("step {}: unexpected error {}", k, err_label(&e))),
                    }
                }
                let out = fl.finalize().map_err(|e| format!("finalize: {}", err_label(&e)))?;
                Ok((accepted, out.as_ptr() as usize, out.len(), sticky))
            });
            match r {
                Err(p) => {
                    t.st.violation("C05:panic", format!("Slice flavour of capacity {}, plan [{}]: panicked: {}", cap, plan_text, p), rpv());
                    return;
                }
                Ok(Err(m)) => {
                    t.st.violation("C05:slice-flavour-history", format!("Slice flavour of capacity {}, plan [{}]: {}", cap, plan_text, m), rpv());
                    return;
                }
                Ok(Ok((accepted, optr, olen, sticky))) => {
                    if sticky > 0 {
                        t.st.count("fitting_writes_refused_after_a_refusal");
                    }
                    let window: Vec<u8> = if guarded { gb.peek(true, cap).to_vec() } else { canary.window().to_vec() };
                    if optr != base || olen > cap || olen != accepted.len() || window[..olen.min(cap)] != accepted[..olen.min(accepted.len())] {
                        t.st.violation(
                            "C05:slice-flavour-history",
                            format!("Slice flavour of capacity {}, plan [{}]: finalize returned offset {} len {} but {} bytes were accepted ({})", cap, plan_text, optr.wrapping_sub(base) as isize, olen, accepted.len(), hexs(&accepted)),
                            rpv(),
                        );
                        return;
                    }
                    if window[olen..].iter().any(|b| *b != FILL) || (!guarded && !canary.intact()) {
                        t.st.violation("C05:write-outside-buffer", format!("Slice flavour of capacity {}, plan [{}]: bytes beyond the accepted output were modified", cap, plan_text), rpv());
                        return;
                    }
                }
            }
        }
        t.crumb.clear();
    }
}

pub fn run(cfg: &Cfg) -> Report {
    let mut rep = Report::new("C05");
    let algos = crc_algos();
    match crc_selfcheck(&algos) {
        Ok(n) => {
            rep.extra.insert("crc_algorithms_validated_against_check_values".into(), J::i(n as u64));
        }
        Err(e) => rep.stats.inconclusive(e),
    }
    if let Some(p) = &cfg.replay {
        rep.stats.merge(replay(cfg, p));
        rep.rule = "replay".into();
        return rep;
    }
    if cfg.tier == Tier::Tiny {
        let s = parallel(cfg, 1, |t| lean(t));
        rep.stats.merge(s);
        rep.rule = "lean interpreter workload: monitored serialisations into exact-size heap buffers".into();
        return rep;
    }
    let s = parallel(cfg, 1, |t| {
        let algos = crc_algos();
        let mut gb = GuardBuf::new(8);
        // (a) values of every exact length around the interesting boundaries
        let mut lens: Vec<usize> = (0..=20).collect();
        lens.extend_from_slice(&[23, 24, 25, 31, 32, 33, 47, 48, 63, 64, 65, 126, 127, 128, 129, 252, 253, 254, 255, 256, 257, 258, 506, 507, 508, 509, 510, 511, 512, 761, 762, 763, 764]);
        let reps = t.cfg.scale(1, 3, 12);
        let mut i = 0u64;
        for _ in 0..reps {
            for &n in &lens {
                i += 1;
                if !t.mine(i) || t.cfg.expired() {
                    continue;
                }
                if t.cfg.tier == Tier::Tiny && n > 40 && n != 254 {
                    continue;
                }
                let (shape, val) = value_of_len(&mut t.rng, n);
                t.st.count("crafted_length_values");
                one_value(t, &mut gb, &algos, &shape, &val);
            }
        }
        // (a2) values whose LAST write is an empty block (empty str / bytes), at lengths on the heapless menu
        for &n in &[1usize, 2, 3, 4, 5, 8, 9, 10, 12, 16, 24, 32] {
            i += 1;
            if !t.mine(i) || t.cfg.expired() {
                continue;
            }
            for last in [Shape::Str, Shape::Bytes] {
                // n - 1 leading bytes, then a 1-byte length prefix (0) and an empty payload
                let mut fields: Vec<Shape> = (0..n - 1).map(|_| Shape::U8).collect();
                fields.push(last.clone());
                let mut vals: Vec<Val> = (0..n - 1).map(|_| Val::U8(1 + (t.rng.next() % 255) as u8)).collect();
                vals.push(if last == Shape::Str { Val::Str(String::new()) } else { Val::Bytes(Vec::new()) });
                t.st.count("values_ending_in_empty_block");
                one_value(t, &mut gb, &algos, &Shape::Tuple(fields), &Val::Tuple(vals));
            }
        }
        // (b) ordinary values from the shared generator
        let n = t.cfg.scale(3, 400, 6000);
        for _ in 0..n {
            if t.cfg.expired() {
                break;
            }
            let o = ShapeOpts::small();
            let depth = t.rng.range(0, 3) as u32;
            let shape = gen_shape(&mut t.rng, depth, &o);
            let val = {
                let mut g = ValGen::small(&mut t.rng);
                g.gen(&shape)
            };
            if spec::encode(&val).len() > 800 {
                continue;
            }
            t.st.count("random_values");
            one_value(t, &mut gb, &algos, &shape, &val);
        }
    });
    rep.stats.merge(s);
    let s = parallel(cfg, 2, |t| {
        slice_flavor_histories(t);
        impure_values_lane(t, "C05");
        call_sequences_lane(t, "C05");
    });
    rep.stats.merge(s);
    rep.floor("slice_flavor_histories", 100);
    rep.floor("impure_value_cases", 20);
    rep.rule = "cases = (value, framing, storage, capacity): values crafted to every plain length 0..20 and around 32/64/128/254/508/762 plus random shape values; \
                framing in {plain, COBS, 10 CRC algorithms over 5 widths}; slice storage at EVERY capacity 0..L+2, each placed flush against the trailing guard page, \
                flush against the leading guard page, and inside a canary region; heapless storage at 25 const capacities; growable vector / Extend sink / size counter \
                as unbounded references; operation histories on one Slice flavour (pushes and block writes that fit, do not fit, and follow a refused write; guard page and canary); \
                one-shot and self-stamping values (Serialize impls that are not idempotent) through every public entry point. Non-trivial = every case (each is a distinct fault position); distinct = fingerprint of (shape, value, framing, capacity, placement)."
        .into();
    rep.assumptions = vec![
        "L for COBS framing is the length of the reference COBS transform plus sentinel (the closed formula n+floor(n/254)+2 is exact only for zero-free messages)".into(),
        "reference CRC validated against each algorithm's published check value".into(),
        "heapless capacities are a const-generic menu (25 values), not every integer".into(),
    ];
    rep.floor("slice_at_trailing_guard", 500);
    rep.floor("slice_at_leading_guard", 500);
    rep.floor("canary_cases", 100);
    rep.floor("exact_fit_cases", 50);
    rep.floor("one_short_cases", 50);
    rep.floor("heapless_cases", 200);
    rep.floor("heapless_exact_fit", 5);
    rep.floor("heapless_one_short", 5);
    rep.floor("slice_success", 100);
    rep.floor("slice_buffer_full", 100);
    rep.floor("values_ending_in_empty_block", 4);
    rep
}

fn replay(cfg: &Cfg, p: &std::path::Path) -> Stats {
    let mut st = Stats::new();
    let m = match read_replay(p) {
        Ok(m) => m,
        Err(e) => {
            st.inconclusive(e);
            return st;
        }
    };
    let s = parallel(&Cfg { threads: 1, ..cfg.clone() }, 9, |t| {
        let algos = crc_algos();
        match m.get("kind").map(|s| s.as_str()) {
            Some("ser-flavor-history") => {
                let cap: usize = m.get("capacity").and_then(|s| s.parse().ok()).unwrap_or(0);
                let (plan, kinds) = parse_slice_plan(m.get("plan").map(|s| s.as_str()).unwrap_or(""));
                let mut gb = GuardBuf::new(1);
                slice_history_one(t, &mut gb, cap, &plan, &kinds);
                return;
            }
            Some("impure") => {
                impure_values_lane(t, "C05");
                return;
            }
            Some("call-sequence") => {
                call_sequences_lane(t, "C05");
                return;
            }
            _ => {}
        }
        let shape = match Shape::parse(m.get("shape").map(|s| s.as_str()).unwrap_or("")) {
            Ok(s) => s,
            Err(e) => {
                t.st.inconclusive(format!("cannot parse shape: {}", e));
                return;
            }
        };
        let bytes = unhex(m.get("value_spec_bytes").map(|s| s.as_str()).unwrap_or("")).unwrap_or_default();
        match spec::decode(&shape, &bytes) {
            Ok(d) => {
                let mut gb = GuardBuf::new(8);
                one_value(t, &mut gb, &algos, &shape, &d.val);
            }
            Err(_) => t.st.inconclusive("replay value does not decode under the reference decoder".into()),
        }
    });
    st.merge(s);
    st
}
