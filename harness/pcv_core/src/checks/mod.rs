//! One module per property (or pair of properties sharing a workload).
use crate::json::J;
use crate::run::{Cfg, Report};

pub mod acc;
pub mod cobs;
pub mod common;
pub mod crc;
pub mod dec;
pub mod enc;
pub mod frames;
pub mod io;
pub mod maxsize;
pub mod misc;
pub mod ser;

/// Validate the oracles against the documents / published vectors they were written from.
/// Err => the run is inconclusive (oracle broken), never a violation.
pub fn oracle_selfcheck(cfg: &Cfg) -> Result<J, String> {
    let md_path = cfg.repo.join("spec/src/wire-format.md");
    let md = std::fs::read_to_string(&md_path).map_err(|e| format!("{}: {}", md_path.display(), e))?;
    let rows = crate::spec::selfcheck(&md)?;
    let cobs = crate::refs::cobs_selfcheck()?;
    if !crate::refs::fnv_selfcheck() {
        return Err("reference FNV-1a does not reproduce published vectors".into());
    }
    let mut j = J::obj();
    j.set("wire_format_md_rows_reproduced", J::i(rows as u64));
    j.set("cobs_vectors_reproduced", J::i(cobs as u64));
    j.set("fnv_vectors_reproduced", J::i(3));
    Ok(j)
}

pub fn dispatch(cfg: &Cfg) -> Option<Report> {
    Some(match cfg.prop.as_str() {
        "C01" => enc::run(cfg, "C01"),
        "C02" => enc::run(cfg, "C02"),
        "C03" => dec::run_c03(cfg),
        "C04" => dec::run_c04(cfg),
        "C05" => ser::run(cfg),
        "C08" => acc::run_c08(cfg),
        "C09" => acc::run_c09(cfg),
        "C10" => crc::run(cfg),
        "C11" => io::run(cfg),
        "C12" => maxsize::run(cfg),
        "C13" => misc::run_c13(cfg),
        "C20" => misc::run_c20(cfg),
        "C06" => cobs::run_c06(cfg),
        "C07" => cobs::run_c07(cfg),
        _ => return None,
    })
}
