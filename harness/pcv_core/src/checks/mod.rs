//! One module per property (or pair of properties sharing a workload).
use crate::json::J;
use crate::run::{Cfg, Report};

pub mod acc;
pub mod cobs;
pub mod common;
pub mod crc;
pub mod dec;
pub mod enc;
pub mod frames;
pub mod io;
pub mod maxsize;
pub mod misc;
pub mod ser;

/// Validate the oracles against the documents / published vectors they were written from.
/// Err => the run is inconclusive (oracle broken), never a violation.
pub fn oracle_selfcheck(cfg: &Cfg) -> Result<J, String> {
    let md_path = cfg.repo.join("spec/src/wire-format.md");
    let md = std::fs::read_to_string(&md_path).map_err(|e| format!("{}: {}", md_path.display(), e))?;
    let rows = crate::spec::selfcheck(&md)?;
    let cobs = crate::refs::cobs_selfcheck()?;
    if !crate::refs::fnv_selfcheck() {
        return Err("reference FNV-1a does not reproduce published vectors".into());
    }
    // shape text syntax round-trips (replay files depend on it), including non-identifier names
    {
        use crate::model::{Shape, VData, VariantShape};
        let odd = Shape::Struct(
            crate::model::intern("Result<T, E>"),
            vec![
                (crate::model::intern(""), Shape::Option(Box::new(Shape::Unit))),
                (crate::model::intern("with space"), Shape::Map(Box::new(Shape::Str), Box::new(Shape::Tuple(vec![])))),
                (
                    crate::model::intern("\u{540d}\u{524d}"),
                    Shape::Enum(
                        crate::model::intern("\u{1f980}"),
                        vec![
                            VariantShape { name: crate::model::intern("A"), data: VData::Unit },
                            VariantShape { name: crate::model::intern("\u{0}"), data: VData::Tuple(vec![Shape::U8]) },
                            VariantShape { name: crate::model::intern("B"), data: VData::Struct(vec![(crate::model::intern("k\u{e4}se"), Shape::F32)]) },
                            VariantShape { name: crate::model::intern("C"), data: VData::Newtype(Box::new(Shape::TupleStruct(crate::model::intern("x"), vec![]))) },
                        ],
                    ),
                ),
            ],
        );
        let mut rng = crate::rng::Rng::new(7);
        let mut shapes = vec![odd];
        for _ in 0..50 {
            shapes.push(crate::gen::gen_shape(&mut rng, 4, &crate::gen::ShapeOpts::full()));
        }
        for sh in shapes {
            match Shape::parse(&sh.text()) {
                Ok(back) if back == sh => {}
                other => return Err(format!("shape text syntax does not round-trip for {}: {:?}", sh.text(), other.map(|s| s.text()))),
            }
        }
    }
    let mut j = J::obj();
    j.set("wire_format_md_rows_reproduced", J::i(rows as u64));
    j.set("cobs_vectors_reproduced", J::i(cobs as u64));
    j.set("fnv_vectors_reproduced", J::i(3));
    Ok(j)
}

pub fn dispatch(cfg: &Cfg) -> Option<Report> {
    Some(match cfg.prop.as_str() {
        "C01" => enc::run(cfg, "C01"),
        "C02" => enc::run(cfg, "C02"),
        "C03" => dec::run_c03(cfg),
        "C04" => dec::run_c04(cfg),
        "C05" => ser::run(cfg),
        "C08" => acc::run_c08(cfg),
        "C09" => acc::run_c09(cfg),
        "C10" => crc::run(cfg),
        "C11" => io::run(cfg),
        "C12" => maxsize::run(cfg),
        "C13" => misc::run_c13(cfg),
        "C20" => misc::run_c20(cfg),
        "C06" => cobs::run_c06(cfg),
        "C07" => cobs::run_c07(cfg),
        _ => return None,
    })
}

pub use dec::recprobe_child;
