//! Framing helpers shared by C05, C06, C10, C20: the CRC algorithm table (real `crc`
//! crate digests next to bit-level reference parameters) and wrappers around postcard's
//! per-width CRC entry points, specialised to the run-time `Val` / `DynVal` types.

use crate::bridge::DynVal;
use crate::model::Val;
use crate::refs::{cobs_encode, crc_ref, CrcParams};
use crc::Crc;

pub struct CrcAlgo {
    pub name: &'static str,
    pub bytes: usize,
    pub params: CrcParams,
    /// (returned slice ptr, len)
    pub to_slice: fn(&Val, &mut [u8]) -> postcard::Result<(usize, usize)>,
    pub to_allocvec: fn(&Val) -> postcard::Result<Vec<u8>>,
    /// requires `with_shape`; returns (value, remainder ptr, remainder len)
    pub take_from: fn(&[u8]) -> postcard::Result<(Val, usize, usize)>,
    pub from: fn(&[u8]) -> postcard::Result<Val>,
    /// the `crc` crate's own checksum (cross-check of the reference only)
    pub crate_crc: fn(&[u8]) -> u128,
    /// CrcModifier<Cobs<Slice>> / <Cobs<AllocVec>> stacks
    pub to_slice_crc_in_cobs: fn(&Val, &mut [u8]) -> postcard::Result<(usize, usize)>,
    pub to_allocvec_crc_in_cobs: fn(&Val) -> postcard::Result<Vec<u8>>,
}

macro_rules! algo {
    ($st:ident, $w:ty, $alg:path, $to_slice:ident, $to_allocvec:ident, $take:ident, $from:ident) => {{
        static $st: Crc<$w> = Crc::<$w>::new(&$alg);
        fn to_slice(v: &Val, buf: &mut [u8]) -> postcard::Result<(usize, usize)> {
            postcard::ser_flavors::crc::$to_slice(v, buf, $st.digest()).map(|s| (s.as_ptr() as usize, s.len()))
        }
        fn to_allocvec(v: &Val) -> postcard::Result<Vec<u8>> {
            postcard::ser_flavors::crc::$to_allocvec(v, $st.digest())
        }
        fn take_from(b: &[u8]) -> postcard::Result<(Val, usize, usize)> {
            postcard::de_flavors::crc::$take::<DynVal>(b, $st.digest()).map(|(v, r)| (v.0, r.as_ptr() as usize, r.len()))
        }
        fn from(b: &[u8]) -> postcard::Result<Val> {
            postcard::de_flavors::crc::$from::<DynVal>(b, $st.digest()).map(|v| v.0)
        }
        fn crate_crc(b: &[u8]) -> u128 {
            $st.checksum(b) as u128
        }
        fn to_slice_cic(v: &Val, buf: &mut [u8]) -> postcard::Result<(usize, usize)> {
            use postcard::ser_flavors::{crc::CrcModifier, Cobs, Slice};
            let fl = CrcModifier::new(Cobs::try_new(Slice::new(buf))?, $st.digest());
            postcard::serialize_with_flavor(v, fl).map(|s: &mut [u8]| (s.as_ptr() as usize, s.len()))
        }
        fn to_allocvec_cic(v: &Val) -> postcard::Result<Vec<u8>> {
            use postcard::ser_flavors::{crc::CrcModifier, AllocVec, Cobs};
            let fl = CrcModifier::new(Cobs::try_new(AllocVec::new())?, $st.digest());
            postcard::serialize_with_flavor(v, fl)
        }
        let a = &$alg;
        CrcAlgo {
            name: stringify!($alg),
            bytes: std::mem::size_of::<$w>(),
            params: CrcParams {
                width: a.width as u32,
                poly: a.poly as u128,
                init: a.init as u128,
                refin: a.refin,
                refout: a.refout,
                xorout: a.xorout as u128,
                check: a.check as u128,
            },
            to_slice,
            to_allocvec,
            take_from,
            from,
            crate_crc,
            to_slice_crc_in_cobs: to_slice_cic,
            to_allocvec_crc_in_cobs: to_allocvec_cic,
        }
    }};
}

pub fn crc_algos() -> Vec<CrcAlgo> {
    vec![
        algo!(A0, u8, crc::CRC_8_SMBUS, to_slice_u8, to_allocvec_u8, take_from_bytes_u8, from_bytes_u8),
        algo!(A1, u8, crc::CRC_8_BLUETOOTH, to_slice_u8, to_allocvec_u8, take_from_bytes_u8, from_bytes_u8),
        algo!(A2, u16, crc::CRC_16_IBM_SDLC, to_slice_u16, to_allocvec_u16, take_from_bytes_u16, from_bytes_u16),
        algo!(A3, u16, crc::CRC_16_XMODEM, to_slice_u16, to_allocvec_u16, take_from_bytes_u16, from_bytes_u16),
        algo!(A4, u32, crc::CRC_32_ISCSI, to_slice_u32, to_allocvec_u32, take_from_bytes_u32, from_bytes_u32),
        algo!(A5, u32, crc::CRC_32_ISO_HDLC, to_slice_u32, to_allocvec_u32, take_from_bytes_u32, from_bytes_u32),
        algo!(A6, u32, crc::CRC_32_BZIP2, to_slice_u32, to_allocvec_u32, take_from_bytes_u32, from_bytes_u32),
        algo!(A7, u64, crc::CRC_64_ECMA_182, to_slice_u64, to_allocvec_u64, take_from_bytes_u64, from_bytes_u64),
        algo!(A8, u64, crc::CRC_64_XZ, to_slice_u64, to_allocvec_u64, take_from_bytes_u64, from_bytes_u64),
        algo!(A9, u128, crc::CRC_82_DARC, to_slice_u128, to_allocvec_u128, take_from_bytes_u128, from_bytes_u128),
    ]
}

/// Reference checksum, little-endian, `bytes` wide.
pub fn ref_crc_le(a: &CrcAlgo, data: &[u8]) -> Vec<u8> {
    let c = crc_ref(&a.params, data);
    c.to_le_bytes()[..a.bytes].to_vec()
}

/// Validate the reference CRC against each algorithm's published check value (and, as a
/// second opinion on the parameters read from the catalogue, against the crate on a probe).
pub fn crc_selfcheck(algos: &[CrcAlgo]) -> Result<usize, String> {
    for a in algos {
        if !crate::refs::crc_selfcheck(&a.params) {
            return Err(format!("reference CRC does not reproduce the published check value of {}", a.name));
        }
    }
    Ok(algos.len())
}

#[derive(Clone, Copy, Debug, PartialEq, Eq)]
pub enum Framing {
    Plain,
    Cobs,
    Crc(usize),
    CrcInCobs(usize),
}

impl Framing {
    pub fn label(&self, algos: &[CrcAlgo]) -> String {
        match self {
            Framing::Plain => "plain".into(),
            Framing::Cobs => "cobs".into(),
            Framing::Crc(i) => format!("crc:{}", algos[*i].name),
            Framing::CrcInCobs(i) => format!("crc-in-cobs:{}", algos[*i].name),
        }
    }
}

/// Reference output of a framing applied to the plain encoding.
pub fn ref_frame(f: Framing, algos: &[CrcAlgo], plain: &[u8]) -> Vec<u8> {
    match f {
        Framing::Plain => plain.to_vec(),
        Framing::Cobs => {
            let mut o = cobs_encode(plain);
            o.push(0);
            o
        }
        Framing::Crc(i) => {
            let mut o = plain.to_vec();
            o.extend_from_slice(&ref_crc_le(&algos[i], plain));
            o
        }
        Framing::CrcInCobs(i) => {
            let mut inner = plain.to_vec();
            inner.extend_from_slice(&ref_crc_le(&algos[i], plain));
            let mut o = cobs_encode(&inner);
            o.push(0);
            o
        }
    }
}

/// Serialise into a caller slice with the given framing; returns (ptr, len) of the result.
pub fn to_slice_framed(f: Framing, algos: &[CrcAlgo], v: &Val, buf: &mut [u8]) -> postcard::Result<(usize, usize)> {
    match f {
        Framing::Plain => postcard::to_slice(v, buf).map(|s| (s.as_ptr() as usize, s.len())),
        Framing::Cobs => postcard::to_slice_cobs(v, buf).map(|s| (s.as_ptr() as usize, s.len())),
        Framing::Crc(i) => (algos[i].to_slice)(v, buf),
        Framing::CrcInCobs(i) => (algos[i].to_slice_crc_in_cobs)(v, buf),
    }
}

pub fn to_allocvec_framed(f: Framing, algos: &[CrcAlgo], v: &Val) -> postcard::Result<Vec<u8>> {
    match f {
        Framing::Plain => postcard::to_allocvec(v),
        Framing::Cobs => postcard::to_allocvec_cobs(v),
        Framing::Crc(i) => (algos[i].to_allocvec)(v),
        Framing::CrcInCobs(i) => (algos[i].to_allocvec_crc_in_cobs)(v),
    }
}

/// Heapless storage at const capacity `B` (plain, COBS, CRC-32/ISCSI, CRC-8, CRC-128).
pub fn to_hvec_framed<const B: usize>(f: Framing, algos: &[CrcAlgo], v: &Val) -> Option<postcard::Result<Vec<u8>>> {
    static H32: Crc<u32> = Crc::<u32>::new(&crc::CRC_32_ISCSI);
    static H8: Crc<u8> = Crc::<u8>::new(&crc::CRC_8_SMBUS);
    static H128: Crc<u128> = Crc::<u128>::new(&crc::CRC_82_DARC);
    static H16: Crc<u16> = Crc::<u16>::new(&crc::CRC_16_IBM_SDLC);
    static H64: Crc<u64> = Crc::<u64>::new(&crc::CRC_64_ECMA_182);
    Some(match f {
        Framing::Plain => postcard::to_vec::<_, B>(v).map(|x| x.to_vec()),
        Framing::Cobs => postcard::to_vec_cobs::<_, B>(v).map(|x| x.to_vec()),
        Framing::Crc(i) => match algos[i].name {
            "crc::CRC_32_ISCSI" => postcard::ser_flavors::crc::to_vec_u32::<_, B>(v, H32.digest()).map(|x| x.to_vec()),
            "crc::CRC_8_SMBUS" => postcard::ser_flavors::crc::to_vec_u8::<_, B>(v, H8.digest()).map(|x| x.to_vec()),
            "crc::CRC_82_DARC" => postcard::ser_flavors::crc::to_vec_u128::<_, B>(v, H128.digest()).map(|x| x.to_vec()),
            "crc::CRC_16_IBM_SDLC" => postcard::ser_flavors::crc::to_vec_u16::<_, B>(v, H16.digest()).map(|x| x.to_vec()),
            "crc::CRC_64_ECMA_182" => postcard::ser_flavors::crc::to_vec_u64::<_, B>(v, H64.digest()).map(|x| x.to_vec()),
            _ => return None,
        },
        Framing::CrcInCobs(i) => match algos[i].name {
            "crc::CRC_32_ISCSI" => {
                use postcard::ser_flavors::{crc::CrcModifier, Cobs, HVec};
                match Cobs::try_new(HVec::<B>::default()) {
                    Ok(c) => postcard::serialize_with_flavor(v, CrcModifier::new(c, H32.digest())).map(|x: heapless::Vec<u8, B>| x.to_vec()),
                    Err(e) => Err(e),
                }
            }
            _ => return None,
        },
    })
}

/// Invoke `$m!(B)` for every capacity of the heapless menu.
#[macro_export]
macro_rules! for_each_hcap {
    ($m:ident) => {
        $m!(0); $m!(1); $m!(2); $m!(3); $m!(4); $m!(5); $m!(6); $m!(7); $m!(8); $m!(9); $m!(10); $m!(12); $m!(16);
        $m!(24); $m!(32); $m!(48); $m!(64); $m!(128); $m!(254); $m!(255); $m!(256); $m!(257); $m!(258); $m!(512); $m!(1024);
    };
}
pub const HCAPS: [usize; 25] = [0, 1, 2, 3, 4, 5, 6, 7, 8, 9, 10, 12, 16, 24, 32, 48, 64, 128, 254, 255, 256, 257, 258, 512, 1024];
