//! C12: POSTCARD_MAX_SIZE is an upper bound on the encoded size of every value (and is
//! attained for the categories the statement names).  Derived impls come from the IN-TREE
//! postcard-derive (path dependency), not the registry version postcard re-exports.

use super::common::*;
use crate::corpus::{corpus_value, HasShape};
use crate::gen::*;
use crate::json::{hex, J};
use crate::mem::catch;
use crate::model::*;
use crate::rng::{fp, fp_mix};
use crate::run::*;
use crate::spec;
use postcard::experimental::max_size::MaxSize;
use postcard_derive_intree::MaxSize as DeriveMaxSize;
use serde::{Deserialize, Serialize};

/// A value that maximises the encoded size of the type.
pub trait MaxProbe {
    fn max_val() -> Val;
    /// the statement claims the maximum is attained for this category
    const TIGHT: bool;
}

macro_rules! probe_prim {
    ($($t:ty => $v:expr),* $(,)?) => { $( impl MaxProbe for $t { fn max_val() -> Val { $v } const TIGHT: bool = true; } )* };
}
probe_prim! {
    bool => Val::Bool(true), u8 => Val::U8(255), i8 => Val::I8(-128),
    u16 => Val::U16(u16::MAX), i16 => Val::I16(i16::MIN), u32 => Val::U32(u32::MAX), i32 => Val::I32(i32::MIN),
    u64 => Val::U64(u64::MAX), i64 => Val::I64(i64::MIN), u128 => Val::U128(u128::MAX), i128 => Val::I128(i128::MIN),
    usize => Val::U64(u64::MAX), isize => Val::I64(i64::MIN),
    f32 => Val::F32(0xFFFF_FFFF), f64 => Val::F64(u64::MAX), char => Val::Char('\u{10FFFF}'), () => Val::Unit,
}
macro_rules! probe_nz {
    ($($t:ty => $v:expr),* $(,)?) => { $( impl MaxProbe for $t { fn max_val() -> Val { $v } const TIGHT: bool = false; } )* };
}
probe_nz! {
    std::num::NonZeroU8 => Val::U8(255), std::num::NonZeroI8 => Val::I8(-128),
    std::num::NonZeroU16 => Val::U16(u16::MAX), std::num::NonZeroI16 => Val::I16(i16::MIN),
    std::num::NonZeroU32 => Val::U32(u32::MAX), std::num::NonZeroI32 => Val::I32(i32::MIN),
    std::num::NonZeroU64 => Val::U64(u64::MAX), std::num::NonZeroI64 => Val::I64(i64::MIN),
    std::num::NonZeroU128 => Val::U128(u128::MAX), std::num::NonZeroI128 => Val::I128(i128::MIN),
    std::num::NonZeroUsize => Val::U64(u64::MAX), std::num::NonZeroIsize => Val::I64(i64::MIN),
}
impl<T: MaxProbe> MaxProbe for Option<T> {
    fn max_val() -> Val {
        Val::Some(Box::new(T::max_val()))
    }
    const TIGHT: bool = T::TIGHT;
}
impl<T: MaxProbe, E: MaxProbe> MaxProbe for Result<T, E> {
    fn max_val() -> Val {
        let a = Val::NewtypeVariant("Result", 0, "Ok", Box::new(T::max_val()));
        let b = Val::NewtypeVariant("Result", 1, "Err", Box::new(E::max_val()));
        if spec::encode(&a).len() >= spec::encode(&b).len() {
            a
        } else {
            b
        }
    }
    const TIGHT: bool = false;
}
impl<T: MaxProbe, const N: usize> MaxProbe for [T; N] {
    fn max_val() -> Val {
        Val::Tuple((0..N).map(|_| T::max_val()).collect())
    }
    const TIGHT: bool = T::TIGHT;
}
macro_rules! probe_tuple {
    ($( ($($n:ident),+) ),*) => { $(
        impl<$($n: MaxProbe),+> MaxProbe for ($($n,)+) {
            fn max_val() -> Val { Val::Tuple(vec![$($n::max_val()),+]) }
            const TIGHT: bool = true $(&& $n::TIGHT)+;
        }
    )* };
}
probe_tuple!((A), (A, B), (A, B, C), (A, B, C, D), (A, B, C, D, E), (A, B, C, D, E, F));
impl<T> MaxProbe for std::marker::PhantomData<T> {
    fn max_val() -> Val {
        Val::UnitStruct("PhantomData")
    }
    const TIGHT: bool = false;
}
impl<T: MaxProbe> MaxProbe for std::ops::Range<T> {
    fn max_val() -> Val {
        Val::Struct("Range", vec![("start", T::max_val()), ("end", T::max_val())])
    }
    const TIGHT: bool = false;
}
impl<T: MaxProbe> MaxProbe for std::ops::RangeInclusive<T> {
    fn max_val() -> Val {
        Val::Struct("RangeInclusive", vec![("start", T::max_val()), ("end", T::max_val())])
    }
    const TIGHT: bool = false;
}
impl<T: MaxProbe> MaxProbe for std::ops::RangeFrom<T> {
    fn max_val() -> Val {
        Val::Struct("RangeFrom", vec![("start", T::max_val())])
    }
    const TIGHT: bool = false;
}
impl<T: MaxProbe> MaxProbe for std::ops::RangeTo<T> {
    fn max_val() -> Val {
        Val::Struct("RangeTo", vec![("end", T::max_val())])
    }
    const TIGHT: bool = false;
}
impl<T: MaxProbe> MaxProbe for Box<T> {
    fn max_val() -> Val {
        T::max_val()
    }
    const TIGHT: bool = false;
}
impl<T: MaxProbe> MaxProbe for std::rc::Rc<T> {
    fn max_val() -> Val {
        T::max_val()
    }
    const TIGHT: bool = false;
}
impl<T: MaxProbe> MaxProbe for std::sync::Arc<T> {
    fn max_val() -> Val {
        T::max_val()
    }
    const TIGHT: bool = false;
}
impl<T: MaxProbe, const N: usize> MaxProbe for heapless::Vec<T, N> {
    fn max_val() -> Val {
        Val::Seq((0..N).map(|_| T::max_val()).collect())
    }
    const TIGHT: bool = T::TIGHT;
}
impl<const N: usize> MaxProbe for heapless::String<N> {
    fn max_val() -> Val {
        Val::Str("z".repeat(N))
    }
    const TIGHT: bool = true;
}

/// Declare derived types (in-tree derive) with HasShape and MaxProbe.
macro_rules! ms_types {
    () => {};
    (struct $name:ident { $($f:ident : $t:ty),* $(,)? } $($rest:tt)*) => {
        crate::corpus_types! { #[derives(Serialize, Deserialize, Debug, DeriveMaxSize)] struct $name { $($f : $t),* } }
        impl MaxProbe for $name {
            fn max_val() -> Val { Val::Struct(stringify!($name), vec![$((stringify!($f), <$t as MaxProbe>::max_val())),*]) }
            const TIGHT: bool = false;
        }
        ms_types!($($rest)*);
    };
    (struct $name:ident ( $($t:ty),* $(,)? ); $($rest:tt)*) => {
        crate::corpus_types! { #[derives(Serialize, Deserialize, Debug, DeriveMaxSize)] struct $name ( $($t),* ); }
        impl MaxProbe for $name {
            fn max_val() -> Val {
                let mut f: Vec<Val> = vec![$(<$t as MaxProbe>::max_val()),*];
                if f.len() == 1 { Val::NewtypeStruct(stringify!($name), Box::new(f.remove(0))) } else { Val::TupleStruct(stringify!($name), f) }
            }
            const TIGHT: bool = false;
        }
        ms_types!($($rest)*);
    };
    (struct $name:ident ; $($rest:tt)*) => {
        crate::corpus_types! { #[derives(Serialize, Deserialize, Debug, DeriveMaxSize)] struct $name ; }
        impl MaxProbe for $name {
            fn max_val() -> Val { Val::UnitStruct(stringify!($name)) }
            const TIGHT: bool = false;
        }
        ms_types!($($rest)*);
    };
    (enum $name:ident { $( $v:ident $( ( $($vt:ty),* ) )? $( { $($vf:ident : $vft:ty),* $(,)? } )? ),* $(,)? } $($rest:tt)*) => {
        crate::corpus_types! { #[derives(Serialize, Deserialize, Debug, DeriveMaxSize)] enum $name { $( $v $( ( $($vt),* ) )? $( { $($vf : $vft),* } )? ),* } }
        impl MaxProbe for $name {
            #[allow(unused_mut, unused_assignments, unused_variables)]
            fn max_val() -> Val {
                let mut idx: u32 = 0;
                let mut best: Option<Val> = None;
                $({
                    let mut cand = Val::UnitVariant(stringify!($name), idx, stringify!($v));
                    $(
                        let mut f: Vec<Val> = vec![$(<$vt as MaxProbe>::max_val()),*];
                        cand = if f.len() == 1 {
                            Val::NewtypeVariant(stringify!($name), idx, stringify!($v), Box::new(f.remove(0)))
                        } else {
                            Val::TupleVariant(stringify!($name), idx, stringify!($v), f)
                        };
                    )?
                    $(
                        cand = Val::StructVariant(stringify!($name), idx, stringify!($v), vec![$((stringify!($vf), <$vft as MaxProbe>::max_val())),*]);
                    )?
                    let better = match &best { None => true, Some(b) => spec::encode(&cand).len() > spec::encode(b).len() };
                    if better { best = Some(cand); }
                    idx += 1;
                })*
                best.unwrap_or(Val::Unit)
            }
            const TIGHT: bool = false;
        }
        ms_types!($($rest)*);
    };
}

ms_types! {
    struct MUnit;
    struct MNew(u64);
    struct MTup(u8, i128, char);
    struct MEmptyTup();
    struct MNamed { a: u16, b: Option<i64>, c: [u8; 4], d: (bool, f64), e: MNew }
    struct MEmptyNamed {}
    struct MHeap { v: heapless::Vec<u16, 9>, s: heapless::String<33>, n: Option<heapless::Vec<MNew, 2>> }
    enum MOne { Only }
    enum MThree { A, B(u8), C(u64, [u8; 4]) }
    enum MFive { A, B, C(u8), D, E(u128, char) }
    enum MSix { A(u8), B, C, D, E, F { x: i64, y: [u16; 3] } }
    enum MSeven { A, B, C, D, E, F, G(Option<u64>, i128) }
    struct MZst { v: heapless::Vec<(), 128>, p: heapless::Vec<std::marker::PhantomData<u8>, 200>, e: heapless::Vec<[u8; 0], 3> }
    enum MTwo { A, B(u32) }
    enum MData { Unit, New(u16), Tup(u8, i32), Rec { a: u64, b: Option<bool> }, Zero(), ZeroRec {}, Big(MNamed), Small(MOne) }
    struct MNested { d: MData, t: MTwo, o: Option<MData>, r: Result<MTwo, MUnit>, arr: [MTwo; 3] }
    struct MStd { r: std::ops::Range<u16>, ri: std::ops::RangeInclusive<i32>, rf: std::ops::RangeFrom<u8>, rt: std::ops::RangeTo<u64>, nz: std::num::NonZeroU32, ph: std::marker::PhantomData<u64>, b: Box<i16>, rc: std::rc::Rc<u64>, arc: std::sync::Arc<char> }
}
include!("maxsize_big.rs");

#[derive(Serialize, Deserialize, Debug, DeriveMaxSize)]
pub struct MGen<T> {
    pub a: T,
    pub b: Option<T>,
    pub c: [T; 2],
}
impl<T: HasShape> HasShape for MGen<T> {
    fn shape() -> Shape {
        Shape::Struct("MGen", vec![("a", T::shape()), ("b", Shape::Option(Box::new(T::shape()))), ("c", Shape::Tuple(vec![T::shape(), T::shape()]))])
    }
    const REFINED: bool = T::REFINED;
}
impl<T: MaxProbe> MaxProbe for MGen<T> {
    fn max_val() -> Val {
        Val::Struct("MGen", vec![("a", T::max_val()), ("b", Val::Some(Box::new(T::max_val()))), ("c", Val::Tuple(vec![T::max_val(), T::max_val()]))])
    }
    const TIGHT: bool = false;
}
#[allow(dead_code)]
#[derive(DeriveMaxSize)]
pub enum MNever {}

/// serde field attributes next to the in-tree derive: every field that can still be WRITTEN must be counted
#[derive(Serialize, Deserialize, Debug, DeriveMaxSize)]
pub struct MSkip {
    pub id: u8,
    #[serde(skip_deserializing)]
    pub uptime: u64,
    #[serde(skip_serializing_if = "Option::is_none")]
    pub note: Option<u32>,
    #[serde(default)]
    pub dflt: i64,
    #[serde(rename = "renamed")]
    pub r: u16,
}
#[derive(Serialize, Deserialize, Debug, DeriveMaxSize)]
pub enum MSkipE {
    A {
        #[serde(skip_deserializing)]
        x: u64,
        y: u8,
    },
    B(#[serde(skip_deserializing)] u32, u16),
    #[serde(rename = "see")]
    C(#[serde(skip_serializing_if = "Option::is_none")] Option<u128>),
}

// ---- candidate types: no MaxSize impl today, but a plausible future one; tested as soon as the impl exists
struct Probe<T>(std::marker::PhantomData<T>);
trait ViaNo {
    fn declared_max(&self) -> Option<usize> {
        None
    }
}
impl<T> ViaNo for &Probe<T> {}
trait ViaYes {
    fn declared_max(&self) -> Option<usize>;
}
impl<T: MaxSize> ViaYes for Probe<T> {
    fn declared_max(&self) -> Option<usize> {
        Some(T::POSTCARD_MAX_SIZE)
    }
}

/// `candidate!(t, Type, [values...])`: when `Type: MaxSize` exists, every listed (extreme) value must fit.
macro_rules! candidate {
    ($t:expr, $ty:ty, [$($v:expr),* $(,)?]) => {{
        let declared: Option<usize> = (&Probe::<$ty>(std::marker::PhantomData)).declared_max();
        $t.st.count("candidate_types_probed");
        if let Some(max) = declared {
            $t.st.count("candidate_types_with_an_impl");
            $t.st.count("types");
            let vals: Vec<$ty> = vec![$($v),*];
            for v in &vals {
                $t.st.eval();
                $t.st.count("values_checked");
                match catch(|| postcard::to_allocvec(v).map(|b| b.len())) {
                    Ok(Ok(n)) if n <= max => {}
                    other => {
                        $t.st.violation(
                            &format!("C12:exceeds-declared-max:{}", stringify!($ty).replace(' ', "")),
                            format!("{}: a value encodes to {:?} bytes but POSTCARD_MAX_SIZE is {}", stringify!($ty), other.map(|r| r.map_err(|e| err_label(&e))), max),
                            vec![kv("kind", "c12"), kv("type", stringify!($ty)), kv("declared_max", max.to_string())],
                        );
                        break;
                    }
                }
            }
        }
    }};
}

fn candidate_types(t: &mut Tctx) {
    use std::net::{IpAddr, Ipv4Addr, Ipv6Addr, SocketAddr, SocketAddrV4, SocketAddrV6};
    use std::num::Wrapping;
    use std::ops::Bound;
    use std::time::Duration;
    candidate!(t, Duration, [Duration::MAX, Duration::new(u64::MAX, 999_999_999), Duration::new(0, 999_999_999), Duration::ZERO]);
    candidate!(t, Wrapping<u64>, [Wrapping(u64::MAX), Wrapping(0)]);
    candidate!(t, Wrapping<i128>, [Wrapping(i128::MIN), Wrapping(i128::MAX)]);
    candidate!(t, std::cmp::Reverse<u32>, [std::cmp::Reverse(u32::MAX)]);
    candidate!(t, std::num::Saturating<i16>, [std::num::Saturating(i16::MIN)]);
    candidate!(t, std::cell::Cell<u64>, [std::cell::Cell::new(u64::MAX)]);
    candidate!(t, std::cell::RefCell<i64>, [std::cell::RefCell::new(i64::MIN)]);
    candidate!(t, std::sync::Mutex<u32>, [std::sync::Mutex::new(u32::MAX)]);
    candidate!(t, Bound<u64>, [Bound::Included(u64::MAX), Bound::Excluded(u64::MAX), Bound::Unbounded]);
    candidate!(t, Bound<char>, [Bound::Excluded('\u{10FFFF}'), Bound::Included('\u{10FFFF}')]);
    candidate!(t, Ipv4Addr, [Ipv4Addr::new(255, 255, 255, 255), Ipv4Addr::UNSPECIFIED]);
    candidate!(t, Ipv6Addr, [Ipv6Addr::new(0xffff, 0xffff, 0xffff, 0xffff, 0xffff, 0xffff, 0xffff, 0xffff)]);
    candidate!(t, IpAddr, [IpAddr::V6(Ipv6Addr::new(0xffff, 0xffff, 0xffff, 0xffff, 0xffff, 0xffff, 0xffff, 0xffff)), IpAddr::V4(Ipv4Addr::new(255, 255, 255, 255))]);
    candidate!(t, SocketAddrV4, [SocketAddrV4::new(Ipv4Addr::new(255, 255, 255, 255), 65535)]);
    candidate!(t, SocketAddr, [SocketAddr::V6(SocketAddrV6::new(Ipv6Addr::new(0xffff, 0xffff, 0xffff, 0xffff, 0xffff, 0xffff, 0xffff, 0xffff), 65535, u32::MAX, u32::MAX)), SocketAddr::V4(SocketAddrV4::new(Ipv4Addr::new(255, 255, 255, 255), 65535))]);
    candidate!(t, (u8, u16, u32, u64, u128, i8, i16), [(255, u16::MAX, u32::MAX, u64::MAX, u128::MAX, i8::MIN, i16::MIN)]);
    candidate!(t, (u64, u64, u64, u64, u64, u64, u64, u64), [(u64::MAX, u64::MAX, u64::MAX, u64::MAX, u64::MAX, u64::MAX, u64::MAX, u64::MAX)]);
    candidate!(t, std::sync::atomic::AtomicU32, [std::sync::atomic::AtomicU32::new(u32::MAX)]);
    candidate!(t, std::sync::atomic::AtomicI64, [std::sync::atomic::AtomicI64::new(i64::MIN)]);
    candidate!(t, std::sync::atomic::AtomicBool, [std::sync::atomic::AtomicBool::new(true)]);
    candidate!(t, std::ffi::CString, []);
}

/// attribute "noise" next to the in-tree derive: representation hints and lints must not change the declared maximum
#[derive(Serialize, Deserialize, Debug, DeriveMaxSize)]
#[repr(transparent)]
pub struct MReprT(pub u64);
#[derive(Serialize, Deserialize, Debug, DeriveMaxSize)]
#[repr(C)]
#[non_exhaustive]
pub struct MReprC {
    pub a: u8,
    pub b: u64,
}
include!("maxsize_repr.rs");

/// heapless vectors of zero-sized elements can have capacities far beyond 2^32 at no cost; the length prefix
/// still has to be covered by the declared maximum.
fn huge_capacity_zst<const N: usize>(t: &mut Tctx) {
    let name = format!("heapless::Vec<(), {}>", N);
    let max = <heapless::Vec<(), N> as MaxSize>::POSTCARD_MAX_SIZE;
    let max_p = <heapless::Vec<std::marker::PhantomData<u64>, N> as MaxSize>::POSTCARD_MAX_SIZE;
    let max_a = <heapless::Vec<[u8; 0], N> as MaxSize>::POSTCARD_MAX_SIZE;
    t.st.count("types");
    for k in [0usize, 1, 127, 128, 300, 16383, 16384, 70_000, 2_097_152] {
        if k > N {
            continue;
        }
        let mut v: heapless::Vec<(), N> = heapless::Vec::new();
        let mut p: heapless::Vec<std::marker::PhantomData<u64>, N> = heapless::Vec::new();
        let mut a: heapless::Vec<[u8; 0], N> = heapless::Vec::new();
        for _ in 0..k {
            let _ = v.push(());
            let _ = p.push(std::marker::PhantomData);
            let _ = a.push([]);
        }
        t.st.eval();
        t.st.count("values_checked");
        t.st.count("huge_capacity_values");
        t.st.nontrivial(fp_mix(fp(name.as_bytes()), k as u64));
        let sizes = catch(|| (postcard::experimental::serialized_size(&v), postcard::experimental::serialized_size(&p), postcard::experimental::serialized_size(&a)));
        match sizes {
            Ok((Ok(sv), Ok(sp), Ok(sa))) => {
                for (what, sz, mx) in [("()", sv, max), ("PhantomData<u64>", sp, max_p), ("[u8; 0]", sa, max_a)] {
                    if sz > mx {
                        t.st.violation(
                            &format!("C12:exceeds-declared-max:heapless::Vec<{},{}>", what, N),
                            format!("heapless::Vec<{}, {}> holding {} elements encodes to {} bytes but POSTCARD_MAX_SIZE is {}", what, N, k, sz, mx),
                            vec![kv("kind", "c12"), kv("type", name.clone()), kv("declared_max", mx.to_string()), kv("elements", k.to_string())],
                        );
                        return;
                    }
                }
            }
            _ => {
                t.st.violation("C12:encode-failed", format!("{}: serialized_size failed for {} elements", name, k), vec![kv("kind", "c12"), kv("type", name.clone())]);
                return;
            }
        }
    }
}

fn check_type<T>(t: &mut Tctx, name: &str)
where
    T: Serialize + for<'de> Deserialize<'de> + HasShape + MaxProbe + MaxSize,
{
    let max = T::POSTCARD_MAX_SIZE;
    let shape = T::shape();
    let nfp = fp(name.as_bytes());
    t.st.count("types");
    let rp = |bytes: &[u8]| vec![kv("kind", "c12"), kv("type", name), kv("declared_max", max.to_string()), kv("value_spec_bytes", hex(bytes))];
    // (1) the maximising value
    let mv = T::max_val();
    let mb = spec::encode(&mv);
    t.st.eval();
    let tv = match catch(|| postcard::from_bytes::<T>(&mb)) {
        Ok(Ok(v)) => v,
        other => {
            t.st.inconclusive(format!("{}: harness's maximising value does not decode ({:?})", name, other.map(|r| r.map(|_| ()).map_err(|e| err_label(&e)))));
            return;
        }
    };
    let sz = catch(|| postcard::experimental::serialized_size(&tv));
    let enc = catch(|| postcard::to_allocvec(&tv));
    let (sz, enc) = match (sz, enc) {
        (Ok(Ok(s)), Ok(Ok(e))) => (s, e),
        _ => {
            t.st.violation("C12:encode-failed", format!("{}: serialising the maximising value failed", name), rp(&mb));
            return;
        }
    };
    t.st.nontrivial(fp_mix(nfp, fp(&enc)));
    if enc.len() != sz || enc != mb {
        t.st.inconclusive(format!("{}: maximising value re-encodes differently ({} vs {} bytes) - harness description wrong", name, enc.len(), mb.len()));
        return;
    }
    if sz > max {
        t.st.violation(
            &format!("C12:exceeds-declared-max:{}", name),
            format!("{}: a value encodes to {} bytes but POSTCARD_MAX_SIZE is {} (value {})", name, sz, max, mv.show()),
            rp(&mb),
        );
        return;
    }
    if T::TIGHT {
        t.st.count("tightness_checked");
        if sz != max {
            t.st.violation(
                &format!("C12:max-not-attained:{}", name),
                format!("{}: POSTCARD_MAX_SIZE is {} but the largest encoding found is {} bytes (value {})", name, max, sz, mv.show()),
                rp(&mb),
            );
            return;
        }
    } else {
        t.st.max("max_slack_bytes_non_tight", (max - sz) as u64);
    }
    // a buffer of the declared size always suffices
    let mut buf = vec![0u8; max];
    if !matches!(catch(|| postcard::to_slice(&tv, &mut buf).map(|s| s.len())), Ok(Ok(n)) if n == sz) {
        t.st.violation(&format!("C12:max-sized-buffer-insufficient:{}", name), format!("{}: to_slice into a POSTCARD_MAX_SIZE buffer failed", name), rp(&mb));
        return;
    }
    if t.st.want_sample() && max > 2 {
        let mut j = J::obj();
        j.set("type", J::s(name)).set("POSTCARD_MAX_SIZE", J::i(max as u64)).set("largest_value", J::s(mv.show())).set("its_size", J::i(sz as u64));
        t.st.sample(j);
    }
    // (2) every enum variant at its maximum + random values
    let rounds = t.cfg.scale(3, 3_000, 60_000);
    for i in 0..rounds {
        let got = {
            let mut g = if i % 3 == 0 { ValGen::new(&mut t.rng) } else { ValGen::small(&mut t.rng) };
            g.max_len = 20000;
            corpus_value::<T>(&shape, &mut g)
        };
        let (v, bytes) = match got {
            Some(x) => x,
            None => {
                t.st.count("values_rejected_by_type");
                continue;
            }
        };
        t.st.eval();
        t.st.nontrivial(fp_mix(nfp, fp(&bytes)));
        match catch(|| postcard::experimental::serialized_size(&v)) {
            Ok(Ok(n)) => {
                t.st.count("values_checked");
                if n > max {
                    t.st.violation(
                        &format!("C12:exceeds-declared-max:{}", name),
                        format!("{}: a value encodes to {} bytes but POSTCARD_MAX_SIZE is {}", name, n, max),
                        rp(&bytes),
                    );
                    return;
                }
            }
            _ => {
                t.st.violation("C12:encode-failed", format!("{}: serialized_size failed", name), rp(&bytes));
                return;
            }
        }
    }
}

pub fn run(cfg: &Cfg) -> Report {
    let mut rep = Report::new("C12");
    // replay: the failing type and value are named in the replay file; every type is re-examined (a second or two)
    let s = parallel(cfg, 1, |t| {
        let mut i = 0u64;
        macro_rules! ty {
            ($t:ty) => {
                i += 1;
                if t.mine(i) {
                    check_type::<$t>(t, stringify!($t));
                }
            };
        }
        ty!(bool); ty!(u8); ty!(i8); ty!(u16); ty!(i16); ty!(u32); ty!(i32); ty!(u64); ty!(i64); ty!(u128); ty!(i128);
        ty!(usize); ty!(isize); ty!(f32); ty!(f64); ty!(char); ty!(());
        ty!(Option<u8>); ty!(Option<Option<u64>>); ty!(Option<char>); ty!(Option<()>); ty!(Result<u8, u64>); ty!(Result<(), char>);
        ty!([u8; 0]); ty!([u16; 1]); ty!([i64; 7]); ty!([char; 3]); ty!([[u8; 2]; 3]); ty!([Option<i128>; 2]);
        ty!((u8,)); ty!((u8, i16)); ty!((u8, i16, char)); ty!((u8, i16, char, u128)); ty!((u8, i16, char, u128, f32)); ty!((u8, i16, char, u128, f32, Option<bool>));
        ty!(std::num::NonZeroU8); ty!(std::num::NonZeroI8); ty!(std::num::NonZeroU16); ty!(std::num::NonZeroI16); ty!(std::num::NonZeroU32); ty!(std::num::NonZeroI32);
        ty!(std::num::NonZeroU64); ty!(std::num::NonZeroI64); ty!(std::num::NonZeroU128); ty!(std::num::NonZeroI128); ty!(std::num::NonZeroUsize); ty!(std::num::NonZeroIsize);
        ty!(std::marker::PhantomData<u64>);
        ty!(std::ops::Range<u16>); ty!(std::ops::RangeInclusive<i32>); ty!(std::ops::RangeFrom<u8>); ty!(std::ops::RangeTo<u64>);
        ty!(Box<u64>); ty!(std::rc::Rc<i16>); ty!(std::sync::Arc<char>);
        ty!(heapless::Vec<u8, 0>); ty!(heapless::Vec<u8, 1>); ty!(heapless::Vec<u8, 127>); ty!(heapless::Vec<u8, 128>); ty!(heapless::Vec<u8, 16383>); ty!(heapless::Vec<u8, 16384>);
        ty!(heapless::Vec<u32, 127>); ty!(heapless::Vec<(u8, char), 3>); ty!(heapless::Vec<Option<u16>, 5>);
        ty!(heapless::String<0>); ty!(heapless::String<1>); ty!(heapless::String<127>); ty!(heapless::String<128>); ty!(heapless::String<16383>); ty!(heapless::String<16384>);
        ty!(MUnit); ty!(MNew); ty!(MTup); ty!(MEmptyTup); ty!(MNamed); ty!(MEmptyNamed); ty!(MHeap); ty!(MOne); ty!(MTwo); ty!(MData); ty!(MNested); ty!(MStd);
        ty!(MThree); ty!(MFive); ty!(MSix); ty!(MSeven); ty!(MZst); ty!(heapless::Vec<(), 128>); ty!(heapless::Vec<u32, 100>); ty!(heapless::Vec<u64, 16384>);
        ty!(M127); ty!(M128); ty!(M129); ty!(MGen<u8>); ty!(MGen<MData>); ty!(MGen<heapless::String<4>>);
        // candidate types (tested as soon as an impl exists) and derived types with representation attributes
        i += 1;
        if t.mine(i) {
            candidate_types(t);
            repr_attribute_types(t);
        }
        // capacities beyond 2^32 (zero-sized elements) and serde field attributes next to the derive
        i += 1;
        if t.mine(i) {
            #[cfg(target_pointer_width = "64")]
            {
                huge_capacity_zst::<{ 1 << 32 }>(t);
                huge_capacity_zst::<{ (1 << 32) + 127 }>(t);
                huge_capacity_zst::<{ (1 << 32) + 16384 }>(t);
                huge_capacity_zst::<{ 1 << 35 }>(t);
                huge_capacity_zst::<{ (1 << 40) + 5 }>(t);
                huge_capacity_zst::<{ (1 << 49) - 1 }>(t);
                huge_capacity_zst::<{ 1 << 56 }>(t);
            }
            huge_capacity_zst::<{ 1 << 28 }>(t);
            huge_capacity_zst::<{ (1 << 28) - 1 }>(t);
            huge_capacity_zst::<{ (1 << 31) + 5 }>(t);
            huge_capacity_zst::<{ usize::MAX }>(t);
            huge_capacity_zst::<65_535>(t);
            huge_capacity_zst::<65_536>(t);
            huge_capacity_zst::<2_097_151>(t);
            huge_capacity_zst::<2_097_152>(t);
        }
        i += 1;
        if t.mine(i) {
            t.st.count("types");
            t.st.count("types");
            let rounds = t.cfg.scale(3, 2000, 40_000);
            for k in 0..rounds {
                let big = k % 2 == 0;
                let s1 = MSkip {
                    id: if big { u8::MAX } else { t.rng.next() as u8 },
                    uptime: if big { u64::MAX } else { gen_uint(&mut t.rng, 64) as u64 },
                    note: if big || t.rng.chance(1, 2) { Some(if big { u32::MAX } else { t.rng.next() as u32 }) } else { None },
                    dflt: if big { i64::MIN } else { t.rng.next() as i64 },
                    r: if big { u16::MAX } else { t.rng.next() as u16 },
                };
                let e: [MSkipE; 3] = [
                    MSkipE::A { x: if big { u64::MAX } else { gen_uint(&mut t.rng, 64) as u64 }, y: 255 },
                    MSkipE::B(if big { u32::MAX } else { t.rng.next() as u32 }, u16::MAX),
                    MSkipE::C(if big || t.rng.chance(1, 2) { Some(u128::MAX >> (t.rng.below(3) * 7)) } else { None }),
                ];
                t.st.eval();
                t.st.count("values_checked");
                t.st.count("serde_attribute_values");
                let sizes = catch(|| {
                    let mut v = vec![(postcard::to_allocvec(&s1).map(|b| b.len()), MSkip::POSTCARD_MAX_SIZE, "MSkip")];
                    for x in &e {
                        v.push((postcard::to_allocvec(x).map(|b| b.len()), MSkipE::POSTCARD_MAX_SIZE, "MSkipE"));
                    }
                    v
                });
                match sizes {
                    Ok(v) => {
                        for (sz, mx, name) in v {
                            match sz {
                                Ok(n) if n <= mx => {}
                                other => {
                                    t.st.violation(
                                        &format!("C12:exceeds-declared-max:{}", name),
                                        format!("{} (derive next to serde field attributes): a value encodes to {:?} bytes but POSTCARD_MAX_SIZE is {}", name, other.map_err(|e| err_label(&e)), mx),
                                        vec![kv("kind", "c12"), kv("type", name), kv("declared_max", mx.to_string())],
                                    );
                                    return;
                                }
                            }
                        }
                    }
                    Err(p) => {
                        t.st.violation("C12:encode-failed", format!("serialising MSkip / MSkipE panicked: {}", p), vec![kv("kind", "c12"), kv("type", "MSkip")]);
                        return;
                    }
                }
            }
        }
        // reference impls only serialise: declared maximum must equal the referent's
        if t.tid == 0 {
            t.st.eval();
            let ok = <&u32 as MaxSize>::POSTCARD_MAX_SIZE == 5
                && <&mut i64 as MaxSize>::POSTCARD_MAX_SIZE == 10
                && <&MData as MaxSize>::POSTCARD_MAX_SIZE == MData::POSTCARD_MAX_SIZE
                && postcard::to_allocvec(&&u32::MAX).map(|b| b.len()).unwrap_or(99) <= <&u32 as MaxSize>::POSTCARD_MAX_SIZE
                && MNever::POSTCARD_MAX_SIZE == 0;
            t.st.count("reference_impls_checked");
            if !ok {
                t.st.violation("C12:reference-impl-differs", "MaxSize of &T / &mut T differs from T (or an empty enum is not 0)".into(), vec![kv("kind", "c12"), kv("type", "&T")]);
            }
        }
    });
    rep.stats.merge(s);
    rep.rule = "cases = (type with a MaxSize impl, value): ~95 types - every built-in impl (ints, floats, bool, char, Option, Result, unit, arrays, tuples 1-6, refs, all NonZero*, PhantomData, four range types, \
                Box/Rc/Arc, heapless Vec/String at capacities 0,1,127,128,16383,16384; heapless vectors of zero-sized elements at capacities 65535..2^21 and 2^32, 2^32+127, 2^35, 2^40+5, 2^49-1, 2^56, usize::MAX holding 0..2^21 elements) and structs/enums/generics using the IN-TREE derive (unit/newtype/tuple/named structs, enums with 1,2,8,127,128,129 variants; fields carrying serde attributes skip_deserializing / skip_serializing_if / default / rename); \
                per type the harness's maximising value (extremes of every field, full containers, largest variant) plus random values decoded from reference encodings. distinct = (type, encoding)."
        .into();
    rep.assumptions = vec![
        "the maximising value per type is constructed compositionally by the harness (MaxProbe) and must re-encode identically through the real type, otherwise the run is inconclusive".into(),
        "tightness is asserted only for the categories the statement names (ints, floats, bool, char, arrays, tuples, options, heapless strings/vectors of those)".into(),
    ];
    rep.floor("types", 80);
    rep.floor("tightness_checked", 30);
    rep.floor("values_checked", 1000);
    rep
}
