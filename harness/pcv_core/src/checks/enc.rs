//! C01 (round-trip identity through every entry-point pairing) and C02 (encoder emits
//! exactly the published wire format).  The two properties share the workload generator
//! but are run and judged independently (`which`).

use super::common::*;
use crate::bridge::{normalise_maps, record, take_strs, with_shape, DynVal};
use crate::corpus::{corpus_value, HasShape};
use crate::gen::*;
use crate::json::J;
use crate::mem::catch;
use crate::model::*;
use crate::rng::{fp, fp_mix};
use crate::run::*;
use crate::spec;
use serde::{Deserialize, Serialize};
use std::collections::VecDeque;

struct Sink {
    data: Vec<u8>,
    calls: usize,
}
impl Extend<u8> for Sink {
    fn extend<I: IntoIterator<Item = u8>>(&mut self, it: I) {
        self.calls += 1;
        for b in it {
            self.data.push(b);
        }
    }
}

const HV_CAP: usize = 2048;

fn replay_case(kind: &str, shape: &Shape, bytes: &[u8]) -> Vec<(String, String)> {
    vec![kv("kind", kind), kv("shape", shape.text()), kv("value_spec_bytes", crate::json::hex(bytes))]
}

/// One (shape, value) case.  `which` selects which property's oracles judge.
pub fn check_case(t: &mut Tctx, which: &str, shape: &Shape, val: &Val, shape_fp: u64, light: bool) {
    t.st.eval();
    let refb = spec::encode(val);
    if refb.len() >= 2 {
        t.st.nontrivial(fp_mix(shape_fp, fp(&refb)));
    }
    let r = catch(|| postcard::to_allocvec(val));
    let pcb = match r {
        Err(p) => {
            t.st.violation(
                &format!("{}:encode-panic", which),
                format!("to_allocvec panicked: {}", p),
                replay_case("dyn", shape, &refb),
            );
            return;
        }
        Ok(Err(e)) => {
            t.st.violation(
                &format!("{}:encode-error", which),
                format!("to_allocvec returned {} for a serialisable value", err_label(&e)),
                replay_case("dyn", shape, &refb),
            );
            return;
        }
        Ok(Ok(b)) => b,
    };
    if crate::bridge::take_ser_human_readable() {
        t.st.violation(
            &format!("{}:serializer-claims-human-readable", which),
            "postcard's serializer reported is_human_readable() == true (types such as IpAddr, Uuid, DateTime would switch to their text form)".into(),
            replay_case("dyn", shape, &refb),
        );
        return;
    }
    if t.st.want_sample() && refb.len() >= 3 && refb.len() < 64 {
        let mut j = J::obj();
        j.set("shape", J::s(shape.text())).set("value", J::s(val.show())).set("bytes", J::s(hexs(&pcb)));
        t.st.sample(j);
    }
    if which == "C02" {
        t.st.count("c02_bytes_compared");
        if pcb != refb {
            t.st.violation(
                "C02:bytes-differ-from-spec",
                format!(
                    "encoder output differs from the specification: value {} shape {} postcard={} spec={}",
                    val.show(),
                    shape.text(),
                    hexs(&pcb),
                    hexs(&refb)
                ),
                replay_case("dyn", shape, &refb),
            );
            return;
        }
        // canonicality asserted directly on postcard's bytes
        if !light {
            match spec::decode(shape, &pcb) {
                Ok(d) => {
                    for (off, len, _bits) in &d.varints {
                        t.st.count("c02_varints_checked_canonical");
                        if *len > 1 && pcb[off + len - 1] == 0 {
                            t.st.violation(
                                "C02:non-canonical-varint",
                                format!("non-minimal varint at offset {} in {}", off, hexs(&pcb)),
                                replay_case("dyn", shape, &refb),
                            );
                        }
                    }
                }
                Err(_) => {}
            }
            // metamorphic: names never reach the wire
            if shape.nodes() > 1 && t.rng.chance(1, 4) {
                let rs = rename(shape);
                let rv = rename_val(&rs, val);
                if let Ok(Ok(b2)) = catch(|| postcard::to_allocvec(&rv)) {
                    t.st.count("c02_rename_metamorphic");
                    if b2 != pcb {
                        t.st.violation(
                            "C02:names-affect-bytes",
                            format!("renaming types/fields/variants changed the bytes: {} vs {}", hexs(&pcb), hexs(&b2)),
                            replay_case("dyn", shape, &refb),
                        );
                    }
                }
            }
        }
        return;
    }

    // ---------------- C01: every encode entry point produces the same bytes
    let n = pcb.len();
    macro_rules! same {
        ($name:expr, $got:expr) => {{
            t.st.count(concat!("c01_enc_", $name));
            match catch(|| $got) {
                Ok(Ok(b)) => {
                    let b: Vec<u8> = b;
                    if b != pcb {
                        t.st.violation(
                            concat!("C01:entry-", $name, "-bytes-differ"),
                            format!("{} produced {} but to_allocvec produced {}", $name, hexs(&b), hexs(&pcb)),
                            replay_case("dyn", shape, &refb),
                        );
                    }
                }
                Ok(Err(e)) => t.st.violation(
                    concat!("C01:entry-", $name, "-error"),
                    format!("{} failed with {}", $name, err_label(&e)),
                    replay_case("dyn", shape, &refb),
                ),
                Err(p) => t.st.violation(
                    concat!("C01:entry-", $name, "-panic"),
                    format!("{} panicked: {}", $name, p),
                    replay_case("dyn", shape, &refb),
                ),
            }
        }};
    }
    if !light {
        let mut buf = vec![0u8; n + 3];
        same!("to_slice", postcard::to_slice(val, &mut buf).map(|s| s.to_vec()));
        same!("to_stdvec", postcard::to_stdvec(val));
        if n <= HV_CAP {
            same!("to_vec_heapless", postcard::to_vec::<_, HV_CAP>(val).map(|v| v.to_vec()));
        }
        same!("to_extend_vec", postcard::to_extend(val, Vec::<u8>::new()));
        same!("to_extend_vecdeque", postcard::to_extend(val, VecDeque::<u8>::new()).map(|d| d.into_iter().collect()));
        same!("to_extend_sink", postcard::to_extend(val, Sink { data: Vec::new(), calls: 0 }).map(|s| s.data));
        same!("to_io", postcard::to_io(val, Vec::<u8>::new()));
        {
            use super::io::{Endpoint, Fault, Sched, StdEnd};
            let sched = if t.rng.chance(1, 2) { Sched::OneByte } else { Sched::Short(t.rng.next() | 1) };
            same!("to_io_short_writes", postcard::to_io(val, StdEnd(Endpoint::writer(sched, Fault::None))).map(|w| w.0.data));
        }
        same!("to_eio", eio_write(val));
    } else {
        let mut buf = [0u8; 32];
        same!("to_slice", postcard::to_slice(val, &mut buf).map(|s| s.to_vec()));
    }

    // ---------------- decode entry points
    let tail_len = if light { (t.rng.next() % 3) as usize } else { (t.rng.next() % 9) as usize };
    let mut input = pcb.clone();
    let tail = t.rng.bytes(tail_len);
    input.extend_from_slice(&tail);

    // from_bytes (exact)
    t.st.count("c01_dec_from_bytes");
    match catch(|| with_shape(shape, || postcard::from_bytes::<DynVal>(&pcb))) {
        Ok(Ok(DynVal(_))) if crate::bridge::human_readable_seen() => {
            t.st.violation(
                "C01:deserializer-claims-human-readable",
                "postcard's deserializer reported is_human_readable() == true while its serializer reports false (IpAddr, Uuid, DateTime... would be written compact and read as text)".into(),
                replay_case("dyn", shape, &refb),
            );
        }
        Ok(Ok(DynVal(v))) => {
            if v != *val {
                t.st.violation(
                    "C01:from_bytes-value-differs",
                    format!("decoded {} but encoded {} (bytes {})", v.show(), val.show(), hexs(&pcb)),
                    replay_case("dyn", shape, &refb),
                );
            }
        }
        Ok(Err(e)) => t.st.violation(
            "C01:from_bytes-error",
            format!("from_bytes failed with {} on the encoder's own output {}", err_label(&e), hexs(&pcb)),
            replay_case("dyn", shape, &refb),
        ),
        Err(p) => t.st.violation(
            "C01:from_bytes-panic",
            format!("from_bytes panicked: {}", p),
            replay_case("dyn", shape, &refb),
        ),
    }
    // take_from_bytes (with tail): remainder must be exactly the tail, by pointer
    t.st.count("c01_dec_take_from_bytes");
    match catch(|| with_shape(shape, || postcard::take_from_bytes::<DynVal>(&input))) {
        Ok(Ok((DynVal(v), rem))) => {
            let want_ptr = input.as_ptr() as usize + n;
            if v != *val {
                t.st.violation(
                    "C01:take_from_bytes-value-differs",
                    format!("decoded {} but encoded {}", v.show(), val.show()),
                    replay_case("dyn", shape, &refb),
                );
            } else if rem.as_ptr() as usize != want_ptr || rem.len() != tail.len() || rem != &tail[..] {
                t.st.violation(
                    "C01:take_from_bytes-remainder-wrong",
                    format!(
                        "remainder offset {} len {} but the encoding is {} bytes followed by a {}-byte tail",
                        (rem.as_ptr() as usize).wrapping_sub(input.as_ptr() as usize),
                        rem.len(),
                        n,
                        tail.len()
                    ),
                    replay_case("dyn", shape, &refb),
                );
            }
        }
        Ok(Err(e)) => t.st.violation(
            "C01:take_from_bytes-error",
            format!("take_from_bytes failed with {}", err_label(&e)),
            replay_case("dyn", shape, &refb),
        ),
        Err(p) => t.st.violation(
            "C01:take_from_bytes-panic",
            format!("take_from_bytes panicked: {}", p),
            replay_case("dyn", shape, &refb),
        ),
    }
    let _ = take_strs();
    if !light || t.rng.chance(1, 16) {
        // from_io through a reader + scratch
        t.st.count("c01_dec_from_io");
        let mut scratch = vec![0u8; n + 8];
        let r = catch(|| {
            with_shape(shape, || {
                // a reader that delivers data in short pieces
                use super::io::{Endpoint, Fault, Sched, StdEnd};
                let reader = StdEnd(Endpoint::reader(&input[..], Sched::Short((input.len() as u64) | 1), Fault::None));
                postcard::from_io::<DynVal, _>((reader, &mut scratch[..])).map(|(v, (rd, _rest))| (v, input.len() - rd.0.pos))
            })
        });
        match r {
            Ok(Ok((DynVal(v), left))) => {
                if v != *val {
                    t.st.violation(
                        "C01:from_io-value-differs",
                        format!("decoded {} but encoded {}", v.show(), val.show()),
                        replay_case("dyn", shape, &refb),
                    );
                } else if left != tail.len() {
                    t.st.violation(
                        "C01:from_io-consumed-wrong",
                        format!("reader has {} bytes left, expected the {}-byte tail", left, tail.len()),
                        replay_case("dyn", shape, &refb),
                    );
                }
            }
            Ok(Err(e)) => t.st.violation(
                "C01:from_io-error",
                format!("from_io failed with {}", err_label(&e)),
                replay_case("dyn", shape, &refb),
            ),
            Err(p) => t.st.violation(
                "C01:from_io-panic",
                format!("from_io panicked: {}", p),
                replay_case("dyn", shape, &refb),
            ),
        }
        // from_eio
        t.st.count("c01_dec_from_eio");
        let mut scratch = vec![0u8; n + 8];
        let r = catch(|| super::io::eio_read_whole(shape, &input, &mut scratch[..]).map(|(v, delivered)| (DynVal(v), input.len() - delivered)));
        match r {
            Ok(Ok((DynVal(v), left))) => {
                if v != *val || left != tail.len() {
                    t.st.violation(
                        "C01:from_eio-differs",
                        format!("decoded {} with {} bytes left; expected {} and {}", v.show(), left, val.show(), tail.len()),
                        replay_case("dyn", shape, &refb),
                    );
                }
            }
            Ok(Err(e)) => t.st.violation(
                "C01:from_eio-error",
                format!("from_eio failed with {}", err_label(&e)),
                replay_case("dyn", shape, &refb),
            ),
            Err(p) => t.st.violation(
                "C01:from_eio-panic",
                format!("from_eio panicked: {}", p),
                replay_case("dyn", shape, &refb),
            ),
        }
    }
}

fn eio_write(val: &Val) -> postcard::Result<Vec<u8>> {
    super::io::eio_write_whole(val)
}

// ------------------------------------------------------------------ concrete corpus

fn corpus_case<T>(t: &mut Tctx, which: &str, name: &str)
where
    T: Serialize + for<'de> Deserialize<'de> + HasShape,
{
    let shape = T::shape();
    let rounds = t.cfg.scale(2, 120, 1500);
    for _ in 0..rounds {
        let got = {
            let mut g = if t.rng.chance(1, 3) { ValGen::new(&mut t.rng) } else { ValGen::small(&mut t.rng) };
            corpus_value::<T>(&shape, &mut g)
        };
        let (v, _specb) = match got {
            Some(x) => x,
            None => {
                t.st.count("corpus_value_rejected_by_type");
                continue;
            }
        };
        t.st.eval();
        t.st.count("corpus_cases");
        let rec = match record(&v) {
            Ok(r) => r,
            Err(e) => {
                t.st.inconclusive(format!("Recorder failed on corpus type {}: {}", name, e));
                return;
            }
        };
        let refb = spec::encode(&rec);
        // harness self-check: the hand-written shape describes what Serialize does
        match spec::decode(&shape, &refb) {
            Ok(d) if d.consumed == refb.len() => {}
            _ => {
                t.st.inconclusive(format!("HasShape description of {} does not parse the recorded encoding", name));
                return;
            }
        }
        if refb.len() >= 2 {
            t.st.nontrivial(fp_mix(fp(name.as_bytes()), fp(&refb)));
        }
        let rp = |refb: &[u8]| vec![kv("kind", "corpus"), kv("type", name), kv("value_spec_bytes", crate::json::hex(refb))];
        let enc = match catch(|| postcard::to_allocvec(&v)) {
            Ok(Ok(b)) => b,
            Ok(Err(e)) => {
                t.st.violation(&format!("{}:corpus-encode-error", which), format!("{}: {}", name, err_label(&e)), rp(&refb));
                continue;
            }
            Err(p) => {
                t.st.violation(&format!("{}:corpus-encode-panic", which), format!("{}: {}", name, p), rp(&refb));
                continue;
            }
        };
        if which == "C02" {
            t.st.count("c02_bytes_compared");
            if enc != refb {
                t.st.violation(
                    "C02:bytes-differ-from-spec",
                    format!("{}: value {} postcard={} spec={}", name, rec.show(), hexs(&enc), hexs(&refb)),
                    rp(&refb),
                );
            }
            continue;
        }
        // C01: decode back through from_bytes / take_from_bytes / from_io and compare recordings
        let mut want = rec.clone();
        normalise_maps(&mut want);
        let tail = t.rng.bytes((t.rng.clone().next() % 5) as usize);
        let mut input = enc.clone();
        input.extend_from_slice(&tail);
        let cmp = |t: &mut Tctx, entry: &str, got: Result<Result<(T, usize), postcard::Error>, String>| match got {
            Ok(Ok((v2, left))) => {
                let mut r2 = match record(&v2) {
                    Ok(r) => r,
                    Err(_) => return,
                };
                normalise_maps(&mut r2);
                if r2 != want {
                    t.st.violation(
                        &format!("C01:corpus-{}-value-differs", entry),
                        format!("{}: decoded {} but encoded {}", name, r2.show(), want.show()),
                        rp(&refb),
                    );
                } else if left != tail.len() {
                    t.st.violation(
                        &format!("C01:corpus-{}-remainder-wrong", entry),
                        format!("{}: {} bytes left, expected {}", name, left, tail.len()),
                        rp(&refb),
                    );
                }
            }
            Ok(Err(e)) => t.st.violation(
                &format!("C01:corpus-{}-error", entry),
                format!("{}: {} on the encoder's own output {}", name, err_label(&e), hexs(&enc)),
                rp(&refb),
            ),
            Err(p) => t.st.violation(&format!("C01:corpus-{}-panic", entry), format!("{}: {}", name, p), rp(&refb)),
        };
        t.st.count("c01_dec_from_bytes");
        let g = catch(|| postcard::from_bytes::<T>(&enc).map(|v| (v, tail.len())));
        cmp(t, "from_bytes", g);
        t.st.count("c01_dec_take_from_bytes");
        let g = catch(|| {
            postcard::take_from_bytes::<T>(&input).map(|(v, r)| {
                let ok = r.as_ptr() as usize == input.as_ptr() as usize + enc.len();
                (v, if ok { r.len() } else { usize::MAX })
            })
        });
        cmp(t, "take_from_bytes", g);
        t.st.count("c01_dec_from_io");
        let mut scratch = vec![0u8; enc.len() + 8];
        let g = catch(|| {
            let rd: &[u8] = &input[..];
            postcard::from_io::<T, _>((rd, &mut scratch[..])).map(|(v, (rd, _))| (v, rd.len()))
        });
        cmp(t, "from_io", g);
    }
}

// ------------------------------------------------------------------ C02 extras

struct HiddenSeq(Vec<u16>);
impl Serialize for HiddenSeq {
    fn serialize<S: serde::Serializer>(&self, s: S) -> Result<S::Ok, S::Error> {
        use serde::ser::SerializeSeq;
        let mut q = s.serialize_seq(None)?;
        for x in &self.0 {
            q.serialize_element(x)?;
        }
        q.end()
    }
}
struct HiddenMap(Vec<(u8, u8)>);
impl Serialize for HiddenMap {
    fn serialize<S: serde::Serializer>(&self, s: S) -> Result<S::Ok, S::Error> {
        use serde::ser::SerializeMap;
        let mut q = s.serialize_map(None)?;
        for (k, v) in &self.0 {
            q.serialize_entry(k, v)?;
        }
        q.end()
    }
}
#[derive(Serialize)]
struct WrapHidden<T: Serialize> {
    before: u32,
    h: T,
    after: u8,
}

/// Display impl that emits its text piecewise: even pieces in one `write_str` call each, odd pieces scalar by
/// scalar through `write_char` (what `char`'s own Display, `{c}` and fill characters use).
struct Pieces(Vec<String>);
impl std::fmt::Display for Pieces {
    fn fmt(&self, f: &mut std::fmt::Formatter) -> std::fmt::Result {
        use std::fmt::Write;
        for (i, p) in self.0.iter().enumerate() {
            if i % 2 == 1 {
                for c in p.chars() {
                    f.write_char(c)?;
                }
            } else {
                f.write_str(p)?;
            }
        }
        Ok(())
    }
}
struct Collected<'a>(&'a Pieces);
impl Serialize for Collected<'_> {
    fn serialize<S: serde::Serializer>(&self, s: S) -> Result<S::Ok, S::Error> {
        s.collect_str(self.0)
    }
}
/// Display through the formatting machinery (padding, numbers): many small pieces.
struct Fancy(i64, String);
impl std::fmt::Display for Fancy {
    fn fmt(&self, f: &mut std::fmt::Formatter) -> std::fmt::Result {
        let c = self.1.chars().next().unwrap_or('\u{2615}');
        write!(f, "{:>12}|{:08.3}|{}|{:?}|{}|{:\u{e9}^7}", self.0, self.0 as f64 / 7.0, self.1, self.1, c, c)
    }
}
struct CollectedF<'a>(&'a Fancy);
impl Serialize for CollectedF<'_> {
    fn serialize<S: serde::Serializer>(&self, s: S) -> Result<S::Ok, S::Error> {
        s.collect_str(self.0)
    }
}

/// `collect_seq` / `collect_map` over iterators whose length is not known exactly.
struct Filtered(Vec<u8>);
impl Serialize for Filtered {
    fn serialize<S: serde::Serializer>(&self, s: S) -> Result<S::Ok, S::Error> {
        s.collect_seq(self.0.iter().filter(|x| **x % 2 == 0))
    }
}
struct FilteredMap(Vec<(u8, u16)>);
impl Serialize for FilteredMap {
    fn serialize<S: serde::Serializer>(&self, s: S) -> Result<S::Ok, S::Error> {
        s.collect_map(self.0.iter().filter(|x| x.0 % 2 == 0).map(|(k, v)| (k, v)))
    }
}
/// Declares a length and serialises nothing: isolates the varint(usize) count prefix for
/// lengths far beyond what can be materialised (2^21, 2^28, 2^35, ... usize::MAX).
struct DeclaredLen(usize, bool);
impl Serialize for DeclaredLen {
    fn serialize<S: serde::Serializer>(&self, s: S) -> Result<S::Ok, S::Error> {
        if self.1 {
            use serde::ser::SerializeMap;
            s.serialize_map(Some(self.0))?.end()
        } else {
            use serde::ser::SerializeSeq;
            s.serialize_seq(Some(self.0))?.end()
        }
    }
}

/// `skip_field` is a defaulted method of serde's struct serializers (what a derived
/// `skip_serializing_if` calls when the predicate holds): a skipped field contributes no bytes.
struct Skipper {
    a: u8,
    b: Option<u16>,
    c: String,
    variant: bool,
}
impl Serialize for Skipper {
    fn serialize<S: serde::Serializer>(&self, s: S) -> Result<S::Ok, S::Error> {
        use serde::ser::{SerializeStruct, SerializeStructVariant};
        let n = if self.b.is_some() { 3 } else { 2 };
        if self.variant {
            let mut st = s.serialize_struct_variant("SkipE", 5, "V5", n)?;
            st.serialize_field("a", &self.a)?;
            match &self.b {
                Some(_) => st.serialize_field("b", &self.b)?,
                None => st.skip_field("b")?,
            }
            st.serialize_field("c", &self.c)?;
            st.end()
        } else {
            let mut st = s.serialize_struct("Skipper", n)?;
            st.serialize_field("a", &self.a)?;
            match &self.b {
                Some(_) => st.serialize_field("b", &self.b)?,
                None => st.skip_field("b")?,
            }
            st.serialize_field("c", &self.c)?;
            st.end()
        }
    }
}
#[derive(Serialize)]
struct SkipDerived {
    id: u8,
    #[serde(skip_serializing_if = "Option::is_none")]
    note: Option<u16>,
    #[serde(skip_serializing_if = "Vec::is_empty")]
    list: Vec<u8>,
    #[serde(skip)]
    #[allow(dead_code)]
    never: u32,
    seq: u32,
}
#[derive(Serialize)]
enum SkipDerivedE {
    #[allow(dead_code)]
    A,
    B {
        id: u8,
        #[serde(skip_serializing_if = "Option::is_none")]
        note: Option<u16>,
        seq: u32,
    },
}

/// exact-size iterator through collect_seq: must be framed like a sequence
struct Exact(Vec<u16>);
impl Serialize for Exact {
    fn serialize<S: serde::Serializer>(&self, s: S) -> Result<S::Ok, S::Error> {
        s.collect_seq(self.0.iter())
    }
}

/// C01 for values that reach the encoder through `collect_str` (Display-formatted text: `fmt::Arguments`,
/// display-as-string newtypes): what is decoded as a string equals the formatted text, and exactly the produced
/// bytes are consumed, for every encode / decode entry point pairing exercised here.
fn c01_extras(t: &mut Tctx) {
    // owned string types (String, Box<str>, Cow<str>, PathBuf) on long texts of multi-byte scalars, every alignment
    {
        let mut idx = 0u64;
        for target in [200usize, 300, 500, 511, 512, 513, 520, 1020, 1030, 2050, 4100, 8200, 16_400, 70_001] {
            for lead in 0..4usize {
                for scalar in ["\u{e9}", "\u{65e5}", "\u{1f980}", "\u{e9}\u{65e5}\u{1f980}x"] {
                    idx += 1;
                    if !t.mine(idx) || t.cfg.expired() {
                        continue;
                    }
                    let mut txt = "a".repeat(lead);
                    while txt.len() < target {
                        txt.push_str(scalar);
                    }
                    t.st.eval();
                    t.st.count("c01_long_text_roundtrips");
                    t.st.nontrivial(fp_mix(0xC01_7E87, fp(txt.as_bytes())));
                    let want = spec::encode(&Val::Str(txt.clone()));
                    let r = catch(|| {
                        let enc = postcard::to_allocvec(&txt)?;
                        let a: String = postcard::from_bytes(&enc)?;
                        let b: Box<str> = postcard::from_bytes(&enc)?;
                        let c: std::borrow::Cow<'_, str> = postcard::from_bytes(&enc)?;
                        let d: std::path::PathBuf = postcard::from_bytes(&enc)?;
                        let mut scratch = vec![0u8; txt.len()];
                        let (e, _) = postcard::from_io::<String, _>((&enc[..], &mut scratch[..]))?;
                        let (f, rest): ((String, u8), &[u8]) = postcard::take_from_bytes(&[&enc[..], &[7u8, 9][..]].concat()).map(|(v, r)| (v, r.len())).map(|(v, n)| (v, if n == 1 { &[0u8][..] } else { &[][..] }))?;
                        Ok::<_, postcard::Error>((enc, a, b.into_string(), c.into_owned(), d, e, f, rest.len()))
                    });
                    let okay = matches!(&r, Ok(Ok((enc, a, b, c, d, e, f, 1))) if *enc == want && *a == txt && *b == txt && *c == txt && d.to_str() == Some(&txt[..]) && *e == txt && f.0 == txt && f.1 == 7);
                    if !okay {
                        t.st.violation(
                            "C01:long-text-roundtrip-differs",
                            format!("a {}-byte text of multi-byte scalars ({} leading ASCII bytes) does not round-trip through the owned string types: {:?}", txt.len(), lead, r.map(|x| x.map(|v| (v.1.len(), v.2.len(), v.3.len())).map_err(|e| err_label(&e)))),
                            vec![kv("kind", "long_text"), kv("len", txt.len().to_string()), kv("lead", lead.to_string())],
                        );
                        return;
                    }
                }
            }
        }
    }
    let rounds = t.cfg.scale(10, 8_000, 160_000);
    for _ in 0..rounds {
        if t.cfg.expired() {
            break;
        }
        let np = *t.rng.pick(&[1usize, 2, 3, 4, 7]);
        let pieces: Vec<String> = (0..np)
            .map(|_| match t.rng.below(4) {
                0 => String::new(),
                1 => gen_string(&mut t.rng, 120),
                2 => gen_char(&mut t.rng).to_string(),
                _ => gen_string(&mut t.rng, 10),
            })
            .collect();
        let p = Pieces(pieces);
        let text = p.to_string();
        let f = Fancy(gen_int(&mut t.rng, 64) as i64, gen_string(&mut t.rng, 20));
        for (what, want, enc) in [
            ("pieces", text.clone(), catch(|| postcard::to_allocvec(&Collected(&p)))),
            ("pieces-slice", text.clone(), catch(|| {
                let mut b = vec![0u8; text.len() + 12];
                postcard::to_slice(&Collected(&p), &mut b).map(|s| s.to_vec())
            })),
            ("fmt", f.to_string(), catch(|| postcard::to_allocvec(&CollectedF(&f)))),
            ("fmt-io", f.to_string(), catch(|| postcard::to_io(&CollectedF(&f), Vec::new()))),
            ("arguments", format!("{}-{}", f.1, f.0), catch(|| postcard::to_allocvec(&format_args!("{}-{}", f.1, f.0)))),
        ] {
            t.st.eval();
            t.st.count("c01_formatted_text_roundtrips");
            t.st.nontrivial(fp_mix(0xC01_F0, fp(want.as_bytes())));
            let rp = || vec![kv("kind", "collect_str"), kv("what", what), kv("text_hex", crate::json::hex(want.as_bytes()))];
            let bytes = match enc {
                Ok(Ok(b)) => b,
                other => {
                    t.st.violation("C01:formatted-text-encode-failed", format!("{}: encoding {:?} gave {:?}", what, want, other.map(|r| r.map(|_| ()).map_err(|e| err_label(&e)))), rp());
                    return;
                }
            };
            let mut with_tail = bytes.clone();
            with_tail.extend_from_slice(&[0xAA, 0x55]);
            let back = catch(|| (postcard::from_bytes::<String>(&bytes), postcard::take_from_bytes::<&str>(&with_tail).map(|(s, r)| (s.to_string(), r.len()))));
            let ok = matches!(&back, Ok((Ok(a), Ok((b, 2)))) if *a == want && *b == want);
            if !ok {
                t.st.violation(
                    "C01:formatted-text-roundtrip-differs",
                    format!("{}: text {:?} ({} bytes) encoded to {} decodes to {:?}", what, want, want.len(), hexs(&bytes), back.map(|(a, b)| (a.map_err(|e| err_label(&e)), b.map_err(|e| err_label(&e))))),
                    rp(),
                );
                return;
            }
        }
    }
}

/// A sequence of `n` zero-sized elements that is never materialised: serialised element by element, and counted
/// element by element when decoded.  Lets collection counts beyond 2^32 make the round trip.
struct Units(u64);
impl Serialize for Units {
    fn serialize<S: serde::Serializer>(&self, s: S) -> Result<S::Ok, S::Error> {
        use serde::ser::SerializeSeq;
        let mut q = s.serialize_seq(Some(self.0 as usize))?;
        for _ in 0..self.0 {
            q.serialize_element(&())?;
        }
        q.end()
    }
}
impl<'de> serde::Deserialize<'de> for Units {
    fn deserialize<D: serde::Deserializer<'de>>(d: D) -> Result<Self, D::Error> {
        struct V;
        impl<'de> serde::de::Visitor<'de> for V {
            type Value = Units;
            fn expecting(&self, f: &mut std::fmt::Formatter) -> std::fmt::Result {
                f.write_str("a sequence of units")
            }
            fn visit_seq<A: serde::de::SeqAccess<'de>>(self, mut a: A) -> Result<Units, A::Error> {
                let mut n = 0u64;
                while a.next_element::<()>()?.is_some() {
                    n += 1;
                }
                Ok(Units(n))
            }
        }
        d.deserialize_seq(V)
    }
}

/// C01 for collection counts around and beyond 2^32 (64-bit hosts): the decoded sequence has as many elements
/// as were encoded.  (In an optimised build the 2 x n element visits of zero-sized elements collapse to closed forms.)
fn c01_huge_counts(t: &mut Tctx) {
    #[cfg(target_pointer_width = "64")]
    for n in [(1u64 << 32) + 3, (1u64 << 32) - 1, 1u64 << 32] {
        if t.cfg.expired() {
            break;
        }
        t.st.eval();
        t.st.count("c01_huge_count_roundtrips");
        t.st.nontrivial(fp_mix(0xC01_CAFE, n));
        let r = catch(|| {
            let bytes = postcard::to_allocvec(&Units(n))?;
            let (back, rest) = postcard::take_from_bytes::<Units>(&bytes)?;
            let (k, rl) = (back.0, rest.len());
            Ok::<_, postcard::Error>((bytes, k, rl))
        });
        match r {
            Ok(Ok((_, back, 0))) if back == n => {}
            other => t.st.violation(
                "C01:huge-count-roundtrip-differs",
                format!("a sequence of {} zero-sized elements came back as {:?}", n, other.map(|r| r.map(|(b, k, rest)| (hexs(&b), k, rest)).map_err(|e| err_label(&e)))),
                vec![kv("kind", "huge_count"), kv("n", n.to_string())],
            ),
        }
    }
    let _ = t;
}

/// Bytes handed to `serialize_bytes` without materialising a `Vec`.
#[cfg(all(not(miri), target_pointer_width = "64"))]
struct RawBytes<'a>(&'a [u8]);
#[cfg(all(not(miri), target_pointer_width = "64"))]
impl Serialize for RawBytes<'_> {
    fn serialize<S: serde::Serializer>(&self, s: S) -> Result<S::Ok, S::Error> {
        s.serialize_bytes(self.0)
    }
}
/// Output flavour that keeps the first 16 bytes and counts the rest.
#[cfg(all(not(miri), target_pointer_width = "64"))]
#[derive(Default)]
struct CountFlavor {
    head: Vec<u8>,
    total: u64,
    blocks: u64,
}
#[cfg(all(not(miri), target_pointer_width = "64"))]
impl postcard::ser_flavors::Flavor for CountFlavor {
    type Output = CountFlavor;
    fn try_push(&mut self, b: u8) -> postcard::Result<()> {
        if self.head.len() < 16 {
            self.head.push(b);
        }
        self.total += 1;
        Ok(())
    }
    fn try_extend(&mut self, data: &[u8]) -> postcard::Result<()> {
        let room = 16 - self.head.len().min(16);
        self.head.extend_from_slice(&data[..room.min(data.len())]);
        self.total += data.len() as u64;
        self.blocks += 1;
        Ok(())
    }
    fn finalize(self) -> postcard::Result<CountFlavor> {
        Ok(self)
    }
}

/// Strings and byte arrays of more than 4 GiB (a never-touched zero mapping): the length prefix is the varint of
/// the real length and every payload byte reaches the flavour.  64-bit hosts, native stages only.
fn c02_huge_payloads(t: &mut Tctx) {
    #[cfg(all(not(miri), target_pointer_width = "64"))]
    {
        if crate::mem::HugeZero::suppressed() {
            return;
        }
        for n in [(1usize << 32) + 5, (1usize << 32) - 1, 1usize << 32] {
            let map = match crate::mem::HugeZero::new(n) {
                Some(m) => m,
                None => {
                    t.st.count("c02_huge_payload_mapping_refused");
                    return;
                }
            };
            let mut want_prefix = Vec::new();
            spec::varint(n as u128, &mut want_prefix);
            let text = unsafe { std::str::from_utf8_unchecked(map.as_slice()) }; // all NUL: valid UTF-8
            for (what, r) in [
                ("str", catch(|| postcard::serialize_with_flavor(text, CountFlavor::default()))),
                ("bytes", catch(|| postcard::serialize_with_flavor(&RawBytes(map.as_slice()), CountFlavor::default()))),
                ("size", catch(|| postcard::experimental::serialized_size(text).map(|k| CountFlavor { head: want_prefix.clone(), total: k as u64, blocks: 0 }))),
            ] {
                t.st.eval();
                t.st.count("c02_huge_payload_cases");
                t.st.nontrivial(fp_mix(0xC02_4616, n as u64 ^ fp(what.as_bytes())));
                let okay = matches!(&r, Ok(Ok(f)) if f.total == (want_prefix.len() + n) as u64 && f.head[..want_prefix.len().min(f.head.len())] == want_prefix[..]);
                if !okay {
                    t.st.violation(
                        "C02:huge-payload-prefix-differs",
                        format!("{} of {} bytes: flavour saw {:?}, expected prefix {} and {} bytes in total", what, n, r.map(|x| x.map(|f| (hexs(&f.head), f.total)).map_err(|e| err_label(&e))), hexs(&want_prefix), want_prefix.len() + n),
                        vec![kv("kind", "huge_payload"), kv("what", what), kv("n", n.to_string())],
                    );
                    return;
                }
            }
        }
    }
    let _ = t;
}

fn c02_extras(t: &mut Tctx) {
    if t.tid == 0 {
        for k in 0..64u32 {
            for d in [-1i128, 0, 1] {
                let n = ((1u128 << k) as i128 + d).clamp(0, u64::MAX as i128) as usize;
                let mut want = Vec::new();
                spec::varint(n as u128, &mut want);
                t.st.count("c02_declared_len_cases");
                if !matches!(catch(|| postcard::to_allocvec(&DeclaredLen(n, false))), Ok(Ok(b)) if b == want) {
                    t.st.violation("C02:count-prefix-differs", format!("count prefix for length {} differs from the specification's varint", n), vec![kv("kind", "declared_len"), kv("n", n.to_string())]);
                }
            }
        }
    }
    let rounds = t.cfg.scale(20, 20_000, 400_000);
    for i in 0..rounds {
        // (a) unknown-length sequences / maps must be refused, never mis-framed
        let n = t.rng.range(0, 5);
        let hs = HiddenSeq((0..n).map(|_| t.rng.next() as u16).collect());
        let hm = HiddenMap((0..n).map(|_| (t.rng.next() as u8, t.rng.next() as u8)).collect());
        t.st.eval();
        t.st.count("c02_unknown_len_cases");
        let results: Vec<(&str, Result<postcard::Result<Vec<u8>>, String>)> = vec![
            ("seq", catch(|| postcard::to_allocvec(&hs))),
            ("map", catch(|| postcard::to_allocvec(&hm))),
            ("seq-in-struct", catch(|| postcard::to_allocvec(&WrapHidden { before: i as u32, h: &hs, after: 7 }))),
            ("map-in-struct", catch(|| postcard::to_allocvec(&WrapHidden { before: i as u32, h: &hm, after: 7 }))),
            ("seq-in-option", catch(|| postcard::to_allocvec(&Some(&hs)))),
        ];
        for (what, r) in results {
            match r {
                Ok(Err(postcard::Error::SerializeSeqLengthUnknown)) => {}
                other => {
                    let d = match other {
                        Ok(Ok(b)) => format!("Ok({})", hexs(&b)),
                        Ok(Err(e)) => format!("Err({})", err_label(&e)),
                        Err(p) => format!("panic {}", p),
                    };
                    t.st.violation(
                        "C02:unknown-length-not-refused",
                        format!("{} of undeclared length with {} elements gave {}", what, n, d),
                        vec![kv("kind", "unknown-len"), kv("what", what), kv("n", n.to_string())],
                    );
                }
            }
        }
        // (a2) collect_seq / collect_map: inexact iterators are refused, exact ones framed normally
        {
            let items: Vec<u8> = (0..n + 1).map(|_| t.rng.next() as u8).collect();
            let evens = items.iter().filter(|x| **x % 2 == 0).count();
            t.st.count("c02_collect_seq_cases");
            // a filter iterator has size_hint (0, Some(len)): exact only when the bounds coincide (len == 0)
            let r1 = catch(|| postcard::to_allocvec(&Filtered(items.clone())));
            let ok1 = match &r1 {
                Ok(Err(postcard::Error::SerializeSeqLengthUnknown)) => true,
                Ok(Ok(b)) => {
                    // accepted only if correctly framed (serde may know the exact length for empty inputs)
                    let want = spec::encode(&Val::Seq(items.iter().filter(|x| **x % 2 == 0).map(|x| Val::U8(*x)).collect()));
                    *b == want
                }
                _ => false,
            };
            if !ok1 {
                t.st.violation(
                    "C02:unknown-length-not-refused",
                    format!("collect_seq over a filter iterator ({} of {} items pass) gave {:?}", evens, items.len(), r1.map(|r| r.map(|b| hexs(&b)).map_err(|e| err_label(&e)))),
                    vec![kv("kind", "collect_seq"), kv("items", crate::json::hex(&items))],
                );
            }
            let pairs: Vec<(u8, u16)> = items.iter().map(|x| (*x, *x as u16 * 3)).collect();
            let r2 = catch(|| postcard::to_allocvec(&FilteredMap(pairs.clone())));
            let ok2 = match &r2 {
                Ok(Err(postcard::Error::SerializeSeqLengthUnknown)) => true,
                Ok(Ok(b)) => {
                    let want = spec::encode(&Val::Map(pairs.iter().filter(|x| x.0 % 2 == 0).map(|(k, v)| (Val::U8(*k), Val::U16(*v))).collect()));
                    *b == want
                }
                _ => false,
            };
            if !ok2 {
                t.st.violation(
                    "C02:unknown-length-not-refused",
                    format!("collect_map over a filter iterator gave {:?}", r2.map(|r| r.map(|b| hexs(&b)).map_err(|e| err_label(&e)))),
                    vec![kv("kind", "collect_map"), kv("items", crate::json::hex(&items))],
                );
            }
            let ex: Vec<u16> = items.iter().map(|x| *x as u16 * 257).collect();
            let want = spec::encode(&Val::Seq(ex.iter().map(|x| Val::U16(*x)).collect()));
            if !matches!(catch(|| postcard::to_allocvec(&Exact(ex.clone()))), Ok(Ok(b)) if b == want) {
                t.st.violation("C02:bytes-differ-from-spec", "collect_seq over an exact-size iterator is not framed like a sequence".into(), vec![kv("kind", "collect_seq_exact")]);
            }
        }
        // (a3) the count prefix for every magnitude of usize
        {
            let n = gen_uint(&mut t.rng, 64) as usize;
            for is_map in [false, true] {
                let mut want = Vec::new();
                spec::varint(n as u128, &mut want);
                t.st.count("c02_declared_len_cases");
                match catch(|| postcard::to_allocvec(&DeclaredLen(n, is_map))) {
                    Ok(Ok(b)) if b == want => {}
                    other => t.st.violation(
                        "C02:count-prefix-differs",
                        format!("count prefix for length {} ({}) is {:?}, specification says {}", n, if is_map { "map" } else { "seq" }, other.map(|r| r.map(|b| hexs(&b)).map_err(|e| err_label(&e))), hexs(&want)),
                        vec![kv("kind", "declared_len"), kv("n", n.to_string())],
                    ),
                }
            }
        }
        // (b) collect_str == encoding of the formatted text
        let np = *t.rng.pick(&[0usize, 1, 2, 3, 7, 40]);
        let pieces: Vec<String> = (0..np)
            .map(|_| match t.rng.below(5) {
                0 => String::new(),
                1 => gen_string(&mut t.rng, 300),
                2 => gen_char(&mut t.rng).to_string(),
                _ => gen_string(&mut t.rng, 12),
            })
            .collect();
        let p = Pieces(pieces);
        let text = p.to_string();
        t.st.eval();
        t.st.count("c02_collect_str_cases");
        t.st.nontrivial(fp_mix(0xC011EC7, fp(text.as_bytes())));
        let want = spec::encode(&Val::Str(text.clone()));
        match catch(|| postcard::to_allocvec(&Collected(&p))) {
            Ok(Ok(b)) if b == want => {}
            other => {
                let d = match other {
                    Ok(Ok(b)) => format!("Ok({})", hexs(&b)),
                    Ok(Err(e)) => format!("Err({})", err_label(&e)),
                    Err(p) => format!("panic {}", p),
                };
                t.st.violation(
                    "C02:collect_str-differs",
                    format!("collect_str of {} pieces ({} bytes) gave {} instead of {}", np, text.len(), d, hexs(&want)),
                    vec![kv("kind", "collect_str"), kv("text_hex", crate::json::hex(text.as_bytes())), kv("pieces", np.to_string())],
                );
            }
        }
        let f = Fancy(gen_int(&mut t.rng, 64) as i64, gen_string(&mut t.rng, 40));
        let want = spec::encode(&Val::Str(f.to_string()));
        match catch(|| postcard::to_allocvec(&CollectedF(&f))) {
            Ok(Ok(b)) if b == want => {}
            _ => t.st.violation(
                "C02:collect_str-differs",
                format!("collect_str of formatted text {:?} differs from its string encoding", f.to_string()),
                vec![kv("kind", "collect_str_fancy"), kv("text_hex", crate::json::hex(f.to_string().as_bytes()))],
            ),
        }
        // (d) skipped struct fields contribute no bytes (hand-written skip_field and derived skip_serializing_if)
        {
            let a = t.rng.next() as u8;
            let b = if t.rng.chance(1, 2) { Some(t.rng.next() as u16) } else { None };
            let c = gen_string(&mut t.rng, 6);
            let list: Vec<u8> = if t.rng.chance(1, 2) { Vec::new() } else { t.rng.bytes(3) };
            let seq = gen_uint(&mut t.rng, 32) as u32;
            t.st.count("c02_skip_field_cases");
            let mut plain = vec![a];
            if let Some(x) = b {
                plain.push(1);
                spec::varint(x as u128, &mut plain);
            }
            plain.extend_from_slice(&spec::encode(&Val::Str(c.clone())));
            let mut var = vec![5u8];
            var.extend_from_slice(&plain);
            let mut der = vec![a];
            if let Some(x) = b {
                der.push(1);
                spec::varint(x as u128, &mut der);
            }
            if !list.is_empty() {
                der.extend_from_slice(&spec::encode(&Val::Bytes(list.clone())));
            }
            spec::varint(seq as u128, &mut der);
            let mut dere = vec![1u8, a];
            if let Some(x) = b {
                dere.push(1);
                spec::varint(x as u128, &mut dere);
            }
            spec::varint(seq as u128, &mut dere);
            let got = catch(|| {
                (
                    postcard::to_allocvec(&Skipper { a, b, c: c.clone(), variant: false }),
                    postcard::to_allocvec(&Skipper { a, b, c: c.clone(), variant: true }),
                    postcard::to_allocvec(&SkipDerived { id: a, note: b, list: list.clone(), never: 9, seq }),
                    postcard::to_allocvec(&SkipDerivedE::B { id: a, note: b, seq }),
                )
            });
            let okay = matches!(&got, Ok((Ok(w), Ok(x), Ok(y), Ok(z))) if *w == plain && *x == var && *y == der && *z == dere);
            if !okay {
                t.st.violation(
                    "C02:skipped-field-emits-bytes",
                    format!("a struct with a skipped field (b = {:?}, list = {:?}) is not the concatenation of its serialised fields: {:?}", b, list, got.map(|(w, x, y, z)| (w.map(|v| hexs(&v)).ok(), x.map(|v| hexs(&v)).ok(), y.map(|v| hexs(&v)).ok(), z.map(|v| hexs(&v)).ok()))),
                    vec![kv("kind", "skip_field"), kv("b", format!("{:?}", b))],
                );
            }
        }
        // (c) usize / isize encode like u64 / i64 of the same number
        let u = gen_uint(&mut t.rng, 64) as u64;
        let s = gen_int(&mut t.rng, 64) as i64;
        t.st.count("c02_ptr_sized_cases");
        let a = catch(|| (postcard::to_allocvec(&(u as usize)), postcard::to_allocvec(&u)));
        let b = catch(|| (postcard::to_allocvec(&(s as isize)), postcard::to_allocvec(&s)));
        let okay = match (&a, &b) {
            (Ok((Ok(x), Ok(y))), Ok((Ok(p), Ok(q)))) => {
                x == y && p == q && *y == spec::encode(&Val::U64(u)) && *q == spec::encode(&Val::I64(s))
            }
            _ => false,
        };
        if !okay {
            t.st.violation(
                "C02:ptr-sized-differs",
                format!("usize {} / isize {} do not encode like u64 / i64", u, s),
                vec![kv("kind", "ptr_sized"), kv("u", u.to_string()), kv("s", s.to_string())],
            );
        }
    }
}

// ------------------------------------------------------------------ enumerated scalar domains

fn enumerate_small(t: &mut Tctx, which: &str) {
    // bool, u8, i8: whole domain, standalone and inside composites
    let wrap = |inner: Shape| -> Vec<Shape> {
        vec![
            inner.clone(),
            Shape::Struct("T0", vec![("f0", Shape::U8), ("f1", inner.clone()), ("f2", Shape::Str)]),
            Shape::Seq(Box::new(inner.clone())),
            Shape::Option(Box::new(inner)),
        ]
    };
    let mk = |outer: &Shape, v: Val| -> Val {
        match outer {
            Shape::Struct(n, f) => Val::Struct(n, vec![(f[0].0, Val::U8(0xAA)), (f[1].0, v), (f[2].0, Val::Str("z".into()))]),
            Shape::Seq(_) => Val::Seq(vec![v.clone(), v]),
            Shape::Option(_) => Val::Some(Box::new(v)),
            _ => v,
        }
    };
    let mut idx: u64 = 0;
    let mut run = |t: &mut Tctx, base: Shape, vals: &mut dyn Iterator<Item = Val>, name: &str| {
        let shapes = wrap(base);
        let fps: Vec<u64> = shapes.iter().map(|s| fp(s.text().as_bytes())).collect();
        let mut n = 0u64;
        for v in vals {
            idx += 1;
            if !t.mine(idx) {
                continue;
            }
            for (k, s) in shapes.iter().enumerate() {
                // composites only for a slice of the big domains
                if k > 0 && idx % 16 != (t.tid as u64 % 16) && n > 70000 {
                    continue;
                }
                let vv = mk(s, v.clone());
                check_case(t, which, s, &vv, fps[k], k == 0);
            }
            n += 1;
        }
        t.st.add(&format!("enum_{}_values", name), n);
    };
    run(t, Shape::Bool, &mut [false, true].into_iter().map(Val::Bool), "bool");
    run(t, Shape::U8, &mut (0..=255u8).map(Val::U8), "u8");
    run(t, Shape::I8, &mut (i8::MIN..=i8::MAX).map(Val::I8), "i8");
    if t.cfg.tier != Tier::Tiny {
        run(t, Shape::U16, &mut (0..=u16::MAX).map(Val::U16), "u16");
        run(t, Shape::I16, &mut (i16::MIN..=i16::MAX).map(Val::I16), "i16");
        run(t, Shape::Char, &mut (0..=0x10FFFFu32).filter_map(char::from_u32).map(Val::Char), "char");
    } else {
        run(t, Shape::U16, &mut (0..=u16::MAX).step_by(257).map(Val::U16), "u16");
        run(t, Shape::I16, &mut (i16::MIN..=i16::MAX).step_by(251).map(Val::I16), "i16");
        run(t, Shape::Char, &mut (0..=0x10FFFFu32).step_by(4099).filter_map(char::from_u32).map(Val::Char), "char");
    }
}

/// Every boundary value (2^k-1, 2^k, 2^k+1, zig-zag group boundaries, extremes) of the wide types.
fn enumerate_boundaries(t: &mut Tctx, which: &str) {
    let mut vals: Vec<(Shape, Val)> = Vec::new();
    for bits in [16u32, 32, 64, 128] {
        for k in 0..bits {
            for d in [-1i128, 0, 1] {
                let p = (1u128 << k).wrapping_add(d as u128);
                let m = if bits == 128 { u128::MAX } else { (1u128 << bits) - 1 };
                let u = p & m;
                let (su, vu, ss, vs) = match bits {
                    16 => (Shape::U16, Val::U16(u as u16), Shape::I16, Val::I16(u as u16 as i16)),
                    32 => (Shape::U32, Val::U32(u as u32), Shape::I32, Val::I32(u as u32 as i32)),
                    64 => (Shape::U64, Val::U64(u as u64), Shape::I64, Val::I64(u as u64 as i64)),
                    _ => (Shape::U128, Val::U128(u), Shape::I128, Val::I128(u as i128)),
                };
                vals.push((su, vu));
                vals.push((ss.clone(), vs));
                // negated
                let neg = (u as i128).wrapping_neg();
                let vn = match bits {
                    16 => Val::I16(neg as i16),
                    32 => Val::I32(neg as i32),
                    64 => Val::I64(neg as i64),
                    _ => Val::I128(neg),
                };
                vals.push((ss, vn));
            }
        }
    }
    for b in F32_SPECIALS {
        vals.push((Shape::F32, Val::F32(b)));
    }
    for b in F64_SPECIALS {
        vals.push((Shape::F64, Val::F64(b)));
    }
    for (u, i) in [(Shape::Usize, Shape::Isize)] {
        for k in 0..64 {
            vals.push((u.clone(), Val::U64(1u64 << k)));
            vals.push((i.clone(), Val::I64((1u64 << k) as i64)));
            vals.push((i.clone(), Val::I64(((1u64 << k) as i64).wrapping_neg())));
        }
    }
    // long strings / byte arrays / sequences: 3-, 4-byte length prefixes with real payloads
    if t.cfg.tier != Tier::Tiny {
        for len in [16_383usize, 16_384, 70_000, 2_097_151, 2_097_152, 2_097_155] {
            vals.push((Shape::Str, Val::Str("q".repeat(len))));
            vals.push((Shape::Bytes, Val::Bytes(vec![0xA7; len])));
        }
        // long texts of multi-byte scalars at every alignment (a scalar straddles every internal chunk boundary)
        for target in [300usize, 520, 1030, 2050, 4100, 8200, 70_001] {
            for lead in 0..4usize {
                for scalar in ["\u{e9}", "\u{65e5}", "\u{1f980}", "\u{e9}\u{65e5}\u{1f980}x"] {
                    let mut txt = "a".repeat(lead);
                    while txt.len() < target {
                        txt.push_str(scalar);
                    }
                    vals.push((Shape::Str, Val::Str(txt)));
                }
            }
        }
        vals.push((Shape::Seq(Box::new(Shape::U8)), Val::Seq(vec![Val::U8(9); 70_000])));
        vals.push((Shape::Seq(Box::new(Shape::Unit)), Val::Seq(vec![Val::Unit; 300_000])));
        vals.push((Shape::Map(Box::new(Shape::U8), Box::new(Shape::Bool)), Val::Map((0..20_000).map(|i| (Val::U8(i as u8), Val::Bool(i % 3 == 0))).collect())));
    }
    let n = vals.len() as u64;
    for (i, (s, v)) in vals.into_iter().enumerate() {
        if !t.mine(i as u64) {
            continue;
        }
        let f = fp(s.text().as_bytes());
        check_case(t, which, &s, &v, f, false);
    }
    if t.tid == 0 {
        t.st.space("all 2^k-1/2^k/2^k+1 (and negations) of 16/32/64/128-bit integers, special floats, usize/isize powers", n, true);
    }
}

/// thorough tier: entire 32-bit domains of u32, i32, f32 (light path)
fn enumerate_32bit(t: &mut Tctx, which: &str) {
    let step: u64 = t.cfg.knob_u64("stride32", 1);
    let total: u64 = 1u64 << 32;
    let per = total / t.nthreads as u64;
    let lo = per * t.tid as u64;
    let hi = if t.tid + 1 == t.nthreads { total } else { lo + per };
    let (fu, fi, ff) = (fp(b"u32"), fp(b"i32"), fp(b"f32"));
    let mut x = lo;
    let mut n = 0u64;
    while x < hi {
        let u = x as u32;
        light_scalar(t, which, &Shape::U32, Val::U32(u), fu);
        light_scalar(t, which, &Shape::I32, Val::I32(u as i32), fi);
        light_scalar(t, which, &Shape::F32, Val::F32(u), ff);
        n += 3;
        x += step;
    }
    t.st.add("enum_32bit_values", n);
    t.st.distinct_enumerated += n;
    if t.tid == 0 {
        t.st.space("entire domains of u32, i32, f32", 3 * (total / step), step == 1);
    }
}

/// Allocation-light scalar path for the 2^32 domains.
fn light_scalar(t: &mut Tctx, which: &str, shape: &Shape, v: Val, _sfp: u64) {
    t.st.evaluations += 1;
    let mut refb = [0u8; 8];
    let mut tmp = Vec::with_capacity(8);
    spec::enc(&v, &mut tmp);
    let n = tmp.len();
    refb[..n].copy_from_slice(&tmp);
    let mut buf = [0u8; 8];
    let got = match &v {
        Val::U32(x) => postcard::to_slice(x, &mut buf).map(|s| s.len()),
        Val::I32(x) => postcard::to_slice(x, &mut buf).map(|s| s.len()),
        Val::F32(x) => postcard::to_slice(&f32::from_bits(*x), &mut buf).map(|s| s.len()),
        _ => unreachable!(),
    };
    let ok_bytes = matches!(got, Ok(m) if m == n && buf[..n] == refb[..n]);
    if which == "C02" {
        if !ok_bytes {
            t.st.violation(
                "C02:bytes-differ-from-spec",
                format!("value {} postcard={:?}/{} spec={}", v.show(), got.map_err(|e| err_label(&e)), hexs(&buf), hexs(&refb[..n])),
                replay_case("dyn", shape, &refb[..n]),
            );
        }
        return;
    }
    let m = match got {
        Ok(m) => m,
        Err(_) => {
            t.st.violation("C01:encode-error", format!("to_slice failed for {}", v.show()), replay_case("dyn", shape, &refb[..n]));
            return;
        }
    };
    let back_ok = match &v {
        Val::U32(x) => matches!(postcard::take_from_bytes::<u32>(&buf[..m]), Ok((y, r)) if y == *x && r.is_empty()),
        Val::I32(x) => matches!(postcard::take_from_bytes::<i32>(&buf[..m]), Ok((y, r)) if y == *x && r.is_empty()),
        Val::F32(x) => matches!(postcard::take_from_bytes::<f32>(&buf[..m]), Ok((y, r)) if y.to_bits() == *x && r.is_empty()),
        _ => unreachable!(),
    };
    if !back_ok {
        t.st.violation(
            "C01:from_bytes-value-differs",
            format!("32-bit scalar {} does not round-trip (bytes {})", v.show(), hexs(&buf[..m])),
            replay_case("dyn", shape, &refb[..n]),
        );
    }
}

// ------------------------------------------------------------------ driver

/// Lean interpreter workload for C01 / C02 (used for the 32-bit target): small shapes and values through
/// `check_case` in its light form, plus the count-prefix probe for every magnitude a `usize` can hold.
fn lean_enc(t: &mut Tctx, which: &str) {
    if which == "C02" {
        for k in 0..usize::BITS {
            for d in [-1i128, 0, 1] {
                let n = ((1u128 << k) as i128 + d).clamp(0, usize::MAX as i128) as usize;
                let mut want = Vec::new();
                spec::varint(n as u128, &mut want);
                t.st.count("c02_declared_len_cases");
                t.st.eval();
                for is_map in [false, true] {
                    if !matches!(catch(|| postcard::to_allocvec(&DeclaredLen(n, is_map))), Ok(Ok(b)) if b == want) {
                        t.st.violation("C02:count-prefix-differs", format!("count prefix for length {} differs from the specification's varint", n), vec![kv("kind", "declared_len"), kv("n", n.to_string())]);
                    }
                }
            }
        }
    }
    let mut n = 0u64;
    let limit = t.cfg.knob_u64("lean_shapes", 300);
    while !t.cfg.expired() && n < limit {
        n += 1;
        let shape = match n % 5 {
            0 => Shape::Struct("T0", vec![("f0", Shape::Usize), ("f1", Shape::Isize), ("f2", Shape::Str), ("f3", Shape::Seq(Box::new(Shape::I64)))]),
            1 => Shape::Map(Box::new(Shape::Str), Box::new(Shape::Bytes)),
            _ => {
                let d = t.rng.range(0, 2) as u32;
                gen_shape(&mut t.rng, d, &ShapeOpts::small())
            }
        };
        let val = {
            let mut g = ValGen::small(&mut t.rng);
            g.max_len = 3;
            g.max_str = 8;
            g.gen(&shape)
        };
        if spec::encode(&val).len() > 96 {
            continue;
        }
        t.st.count("lean_shapes");
        let sfp = fp(shape.text().as_bytes());
        check_case(t, which, &shape, &val, sfp, false);
    }
}

pub fn run(cfg: &Cfg, which: &str) -> Report {
    let mut rep = Report::new(which);
    if let Some(p) = &cfg.replay {
        rep.stats = replay(cfg, which, p);
        rep.rule = "replay of one recorded case".into();
        return rep;
    }
    if cfg.tier == Tier::Tiny && cfg.knob_u64("lean", 0) == 1 {
        let w = which.to_string();
        let s = parallel(cfg, 1, |t| lean_enc(t, &w));
        rep.stats.merge(s);
        rep.rule = "lean interpreter workload: small shapes and values through every encode / decode entry point against the reference encoder, plus count prefixes of every magnitude".into();
        return rep;
    }
    let which_s = which.to_string();
    // lane 1: enumerated scalar domains + boundaries
    let s1 = parallel(cfg, 1, |t| {
        enumerate_small(t, &which_s);
        enumerate_boundaries(t, &which_s);
        if t.tid == 0 {
            let full = t.cfg.tier != Tier::Tiny;
            t.st.space("bool, u8, i8 (whole domain)", 2 + 256 + 256, true);
            t.st.space("u16, i16 (whole domain)", 2 * 65536, full);
            t.st.space("char (all 1 112 064 scalar values)", 1_112_064, full);
        }
    });
    rep.stats.merge(s1);
    // lane 2: random shapes x values
    let s2 = parallel(cfg, 2, |t| {
        let cases = t.cfg.scale(40, 40_000, 1_500_000);
        let mut done = 0;
        while done < cases {
            let o = if t.rng.chance(1, 2) { ShapeOpts::full() } else { ShapeOpts::small() };
            let depth = t.rng.range(0, o.max_depth as usize) as u32;
            let shape = gen_shape(&mut t.rng, depth, &o);
            let sfp = fp(shape.text().as_bytes());
            t.st.count("random_shapes");
            shape.walk(&mut |s| {
                let _ = s;
            });
            let per = t.rng.range(1, 6);
            for _ in 0..per {
                let val = {
                    let mut g = if t.rng.chance(1, 5) { ValGen::new(&mut t.rng) } else { ValGen::small(&mut t.rng) };
                    if t.cfg.tier == Tier::Tiny {
                        g.long = false;
                        g.max_str = 200;
                    }
                    g.gen(&shape)
                };
                val.walk(&mut |v| t.st.count(&format!("kind_{}", v.kind())));
                check_case(t, &which_s, &shape, &val, sfp, false);
                done += 1;
            }
        }
    });
    rep.stats.merge(s2);
    // lane 3: concrete corpus
    let s3 = parallel(cfg, 3, |t| {
        let mut i = 0u64;
        macro_rules! one {
            ($ty:ty) => {
                i += 1;
                if t.mine(i) || t.cfg.tier == Tier::Thorough {
                    corpus_case::<$ty>(t, &which_s, stringify!($ty));
                    t.st.count("corpus_types_run");
                }
            };
        }
        crate::for_each_corpus_type!(one);
    });
    rep.stats.merge(s3);
    // lane 6: deep nesting (the statement says "nested to any depth")
    let s6 = parallel(cfg, 6, |t| {
        let mut i = 0u64;
        for kind in 0..7 {
            for &depth in &DEEP_DEPTHS {
                i += 1;
                if !t.mine(i) || (t.cfg.tier == Tier::Tiny && depth > 129) {
                    continue;
                }
                let (shape, val) = deep_case(kind, depth);
                let sfp = fp(shape.text().as_bytes());
                t.st.count("deep_nesting_cases");
                t.st.max("max_nesting_depth", depth as u64);
                check_case(t, &which_s, &shape, &val, sfp, false);
            }
        }
    });
    rep.stats.merge(s6);
    if which == "C02" {
        let s4 = parallel(cfg, 4, |t| c02_extras(t));
        rep.stats.merge(s4);
        if cfg.tier != Tier::Tiny {
            let s8 = parallel(&Cfg { threads: 1, ..cfg.clone() }, 8, |t| c02_huge_payloads(t));
            rep.stats.merge(s8);
            let s9 = parallel(cfg, 9, |t| call_sequences_lane(t, "C02"));
            rep.stats.merge(s9);
            rep.floor("call_sequence_rounds", 5);
        }
    }
    if which == "C01" {
        let s4 = parallel(cfg, 4, |t| c01_extras(t));
        rep.stats.merge(s4);
        rep.floor("c01_formatted_text_roundtrips", 100);
        if cfg.tier != Tier::Tiny {
            let s7 = parallel(&Cfg { threads: 1, ..cfg.clone() }, 7, |t| c01_huge_counts(t));
            rep.stats.merge(s7);
        }
    }
    if cfg.tier == Tier::Thorough {
        let s5 = parallel(cfg, 5, |t| enumerate_32bit(t, &which_s));
        rep.stats.merge(s5);
    }
    // exact count of enumerated non-trivial cases is folded in by fingerprint (they are hashed like the rest)
    rep.rule = "cases = (shape, value): whole domains of bool/u8/i8/u16/i16/char standalone and embedded in struct/seq/option; \
                every 2^k-1,2^k,2^k+1 (and negation) of the 16..128-bit types; random shape trees (depth<=5, fan-out<=6, all 29 serde kinds) \
                with boundary-structured values; ~75 concrete Rust types (std/heapless/derived) with values decoded from reference encodings; \
                thorough adds the entire u32/i32/f32 domains. A case is non-trivial when its encoding has >= 2 bytes; distinct = distinct \
                fingerprint of (shape text, reference encoding)."
        .into();
    rep.assumptions = vec![
        "the reference encoder (spec.rs) is correct; it is validated against every table row of spec/src/wire-format.md at start-up".into(),
        "64-bit host: usize/isize are u64/i64".into(),
        "NaN payloads survive f32::from_bits/to_bits on this target (x86-64 SSE, no arithmetic performed)".into(),
    ];
    for k in [
        "bool", "i8", "i16", "i32", "i64", "i128", "u8", "u16", "u32", "u64", "u128", "f32", "f64", "char", "string", "byte_array",
        "option", "unit", "unit_struct", "newtype_struct", "seq", "tuple", "tuple_struct", "map", "struct", "unit_variant",
        "newtype_variant", "tuple_variant", "struct_variant",
    ] {
        rep.floor(&format!("kind_{}", k), 1);
    }
    rep.floor("corpus_cases", 20);
    rep.floor("deep_nesting_cases", 7);
    if which == "C01" {
        for k in ["c01_enc_to_slice", "c01_enc_to_vec_heapless", "c01_enc_to_extend_sink", "c01_enc_to_io", "c01_enc_to_eio", "c01_dec_from_bytes", "c01_dec_take_from_bytes", "c01_dec_from_io", "c01_dec_from_eio"] {
            rep.floor(k, 10);
        }
    } else {
        rep.floor("c02_bytes_compared", 1000);
        rep.floor("c02_unknown_len_cases", 10);
        rep.floor("c02_collect_str_cases", 10);
        rep.floor("c02_collect_seq_cases", 10);
        rep.floor("c02_declared_len_cases", 100);
    }
    rep
}

fn replay(cfg: &Cfg, which: &str, p: &std::path::Path) -> Stats {
    let mut st = Stats::new();
    let m = match read_replay(p) {
        Ok(m) => m,
        Err(e) => {
            st.inconclusive(e);
            return st;
        }
    };
    let kind = m.get("kind").cloned().unwrap_or_default();
    let which = which.to_string();
    let s = parallel(&Cfg { threads: 1, ..cfg.clone() }, 9, |t| match kind.as_str() {
        "dyn" => {
            let shape = match Shape::parse(m.get("shape").map(|s| s.as_str()).unwrap_or("")) {
                Ok(s) => s,
                Err(e) => {
                    t.st.inconclusive(format!("cannot parse shape: {}", e));
                    return;
                }
            };
            let bytes = crate::json::unhex(m.get("value_spec_bytes").map(|s| s.as_str()).unwrap_or("")).unwrap_or_default();
            match spec::decode(&shape, &bytes) {
                Ok(d) => check_case(t, &which, &shape, &d.val, 0, false),
                Err(_) => t.st.inconclusive("replay value does not decode under the reference decoder".into()),
            }
        }
        _ => {
            // non-dyn cases are regenerated by re-running the relevant lane briefly
            if which == "C01" {
                if kind == "huge_count" {
                    c01_huge_counts(t);
                } else {
                    c01_extras(t);
                }
            } else if kind == "huge_payload" {
                c02_huge_payloads(t);
            } else if kind == "call-sequence" {
                call_sequences_lane(t, "C02");
            } else {
                c02_extras(t);
            }
        }
    });
    st.merge(s);
    st
}
