//! C13 (fixed-width integer adapters) and C20 (stacked flavours compose as byte-stream
//! transformers).

use super::common::*;
use super::frames::*;
use crate::bridge::{take_strs, with_shape, DynVal};
use crate::gen::*;
use crate::json::{hex, unhex, J};
use crate::mem::catch;
use crate::model::*;
use crate::refs::{cobs_decode_frame, CobsRef};
use crate::rng::{fp, fp_mix};
use crate::run::*;
use crate::spec;
use serde::{Deserialize, Serialize};

// ------------------------------------------------------------------ C13

macro_rules! fixstruct {
    ($name:ident, $t:ty, $m:literal) => {
        #[derive(Serialize, Deserialize, PartialEq, Debug)]
        struct $name {
            pre: u16,
            #[serde(with = $m)]
            x: $t,
            post: i32,
        }
    };
}
fixstruct!(LeU16, u16, "postcard::fixint::le");
fixstruct!(LeI16, i16, "postcard::fixint::le");
fixstruct!(LeU32, u32, "postcard::fixint::le");
fixstruct!(LeI32, i32, "postcard::fixint::le");
fixstruct!(LeU64, u64, "postcard::fixint::le");
fixstruct!(LeI64, i64, "postcard::fixint::le");
fixstruct!(LeU128, u128, "postcard::fixint::le");
fixstruct!(LeI128, i128, "postcard::fixint::le");
fixstruct!(BeU16, u16, "postcard::fixint::be");
fixstruct!(BeI16, i16, "postcard::fixint::be");
fixstruct!(BeU32, u32, "postcard::fixint::be");
fixstruct!(BeI32, i32, "postcard::fixint::be");
fixstruct!(BeU64, u64, "postcard::fixint::be");
fixstruct!(BeI64, i64, "postcard::fixint::be");
fixstruct!(BeU128, u128, "postcard::fixint::be");
fixstruct!(BeI128, i128, "postcard::fixint::be");

/// bare adapter (no neighbours): a newtype-like struct with only the fixed field
macro_rules! fixbare {
    ($name:ident, $t:ty, $m:literal) => {
        #[derive(Serialize, Deserialize, PartialEq, Debug)]
        struct $name(#[serde(with = $m)] $t);
    };
}
fixbare!(BareLeU16, u16, "postcard::fixint::le");
fixbare!(BareBeU16, u16, "postcard::fixint::be");
fixbare!(BareLeI64, i64, "postcard::fixint::le");
fixbare!(BareBeU128, u128, "postcard::fixint::be");

macro_rules! fixcheck {
    ($fname:ident, $st:ident, $t:ty, $le:expr) => {
        #[inline]
        fn $fname(t: &mut Tctx, x: $t, pre: u16, post: i32) {
            t.st.evaluations += 1;
            let v = $st { pre, x, post };
            let mut want: Vec<u8> = Vec::with_capacity(32);
            spec::varint(pre as u128, &mut want);
            if $le {
                want.extend_from_slice(&x.to_le_bytes());
            } else {
                want.extend_from_slice(&x.to_be_bytes());
            }
            spec::varint(spec::zigzag(post as i128), &mut want);
            let mut buf = [0u8; 40];
            let got = postcard::to_slice(&v, &mut buf).map(|s| s.len());
            let ok = matches!(got, Ok(n) if buf[..n] == want[..]);
            if !ok {
                t.st.violation(
                    concat!("C13:bytes-differ:", stringify!($st)),
                    format!(
                        "{} {{ pre: {}, x: {}, post: {} }} encodes as {:?}/{} expected {}",
                        stringify!($st), pre, x, post, got.map_err(|e| err_label(&e)), hexs(&buf[..want.len().min(40)]), hexs(&want)
                    ),
                    vec![kv("kind", "c13"), kv("type", stringify!($st)), kv("x", format!("{}", x)), kv("pre", pre.to_string()), kv("post", post.to_string())],
                );
                return;
            }
            match postcard::take_from_bytes::<$st>(&want) {
                Ok((back, rest)) if back == v && rest.is_empty() => {}
                other => t.st.violation(
                    concat!("C13:does-not-decode-back:", stringify!($st)),
                    format!("{} x={} decodes as {:?}", stringify!($st), x, other.map(|o| o.0).map_err(|e| err_label(&e))),
                    vec![kv("kind", "c13"), kv("type", stringify!($st)), kv("x", format!("{}", x)), kv("pre", pre.to_string()), kv("post", post.to_string())],
                ),
            }
        }
    };
}
fixcheck!(ck_le_u16, LeU16, u16, true);
fixcheck!(ck_le_i16, LeI16, i16, true);
fixcheck!(ck_le_u32, LeU32, u32, true);
fixcheck!(ck_le_i32, LeI32, i32, true);
fixcheck!(ck_le_u64, LeU64, u64, true);
fixcheck!(ck_le_i64, LeI64, i64, true);
fixcheck!(ck_le_u128, LeU128, u128, true);
fixcheck!(ck_le_i128, LeI128, i128, true);
fixcheck!(ck_be_u16, BeU16, u16, false);
fixcheck!(ck_be_i16, BeI16, i16, false);
fixcheck!(ck_be_u32, BeU32, u32, false);
fixcheck!(ck_be_i32, BeI32, i32, false);
fixcheck!(ck_be_u64, BeU64, u64, false);
fixcheck!(ck_be_i64, BeI64, i64, false);
fixcheck!(ck_be_u128, BeU128, u128, false);
fixcheck!(ck_be_i128, BeI128, i128, false);

/// fixed-width fields next to a long borrowed string, through every transport
#[derive(Serialize, Deserialize, PartialEq, Debug)]
struct FixMixed<'a> {
    #[serde(with = "postcard::fixint::le")]
    a: u16,
    #[serde(with = "postcard::fixint::be")]
    b: i32,
    name: &'a str,
    #[serde(with = "postcard::fixint::be")]
    c: u128,
    #[serde(with = "postcard::fixint::le")]
    d: i64,
    tail: u8,
}

fn c13_transports(t: &mut Tctx, u: u128, name_len: usize) {
    use super::io::{Endpoint, EioEnd, Fault, Sched, StdEnd};
    let name: String = (0..name_len).map(|i| (b'a' + (i % 26) as u8) as char).collect();
    let v = FixMixed { a: u as u16, b: (u >> 16) as i32, name: &name, c: u, d: (u >> 7) as i64, tail: 0x5A };
    let mut want: Vec<u8> = Vec::new();
    want.extend_from_slice(&v.a.to_le_bytes());
    want.extend_from_slice(&v.b.to_be_bytes());
    spec::varint(name.len() as u128, &mut want);
    want.extend_from_slice(name.as_bytes());
    want.extend_from_slice(&v.c.to_be_bytes());
    want.extend_from_slice(&v.d.to_le_bytes());
    want.push(0x5A);
    t.st.evaluations += 1;
    t.st.count("transport_cases");
    let rp = || vec![kv("kind", "c13"), kv("type", "FixMixed"), kv("x", u.to_string()), kv("pre", name_len.to_string()), kv("post", "0")];
    let sched = if name_len % 2 == 0 { Sched::OneByte } else { Sched::Short(u as u64 | 1) };
    let encs: Vec<(&str, Result<postcard::Result<Vec<u8>>, String>)> = vec![
        ("to_allocvec", catch(|| postcard::to_allocvec(&v))),
        ("to_vec", catch(|| postcard::to_vec::<_, 512>(&v).map(|x| x.to_vec()))),
        ("to_slice_exact", catch(|| {
            let mut b = vec![0u8; want.len()];
            postcard::to_slice(&v, &mut b).map(|s| s.to_vec())
        })),
        ("to_extend", catch(|| postcard::to_extend(&v, Vec::new()))),
        ("to_io", catch(|| postcard::to_io(&v, StdEnd(Endpoint::writer(sched, Fault::None))).map(|w| w.0.data))),
        ("to_io_vec", catch(|| postcard::to_io(&v, Vec::new()))),
        // a std writer that reports ErrorKind::Interrupted once before every byte offset: retried, never an error
        ("to_io_interrupted_everywhere", catch(|| {
            let mut ep = Endpoint::writer(sched, Fault::None);
            ep.interrupts = (0..want.len()).collect();
            postcard::to_io(&v, StdEnd(ep)).map(|w| w.0.data)
        })),
        ("to_eio", catch(|| postcard::to_eio(&v, EioEnd(Endpoint::writer(sched, Fault::None))).map(|w| w.0.data))),
    ];
    for (name_e, r) in encs {
        match r {
            Ok(Ok(b)) if b == want => {}
            other => {
                t.st.violation(
                    &format!("C13:transport-bytes-differ:{}", name_e),
                    format!("{} of a struct with fixed-width fields and a {}-byte string gave {:?}, expected {}", name_e, name_len, other.map(|r| r.map(|b| hexs(&b)).map_err(|e| err_label(&e))), hexs(&want)),
                    rp(),
                );
                return;
            }
        }
    }
    // decode through the slice and reader paths; scratch exactly the string length (fixints need none)
    let ok_slice = matches!(catch(|| postcard::from_bytes::<FixMixed>(&want)), Ok(Ok(back)) if back == v);
    let mut scratch = vec![0u8; name.len()];
    let ok_io = matches!(
        catch(|| postcard::from_io::<FixMixed, _>((StdEnd(Endpoint::reader(&want, sched, Fault::None)), &mut scratch[..])).map(|(x, _)| x == v)),
        Ok(Ok(true))
    );
    let mut scratch3 = vec![0u8; name.len()];
    let ok_io_intr = matches!(
        catch(|| {
            let mut ep = Endpoint::reader(&want, sched, Fault::None);
            ep.interrupts = (0..want.len()).collect();
            postcard::from_io::<FixMixed, _>((StdEnd(ep), &mut scratch3[..])).map(|(x, _)| x == v)
        }),
        Ok(Ok(true))
    );
    let ok_io = ok_io && ok_io_intr;
    let mut scratch2 = vec![0u8; name.len()];
    let ok_eio = matches!(
        catch(|| postcard::from_eio::<FixMixed, _>((EioEnd(Endpoint::reader(&want, sched, Fault::None)), &mut scratch2[..])).map(|(x, _)| x == v)),
        Ok(Ok(true))
    );
    if !(ok_slice && ok_io && ok_eio) {
        t.st.violation(
            "C13:transport-decode-differs",
            format!("decoding a struct with fixed-width fields failed or differed (slice {}, from_io incl. a reader interrupted once before every offset {}, from_eio {}; scratch = string length {})", ok_slice, ok_io, ok_eio, name.len()),
            rp(),
        );
    }
}

fn c13_all_widths(t: &mut Tctx, u: u128, pre: u16, post: i32) {
    ck_le_u16(t, u as u16, pre, post);
    ck_be_u16(t, u as u16, pre, post);
    ck_le_i16(t, u as i16, pre, post);
    ck_be_i16(t, u as i16, pre, post);
    ck_le_u32(t, u as u32, pre, post);
    ck_be_u32(t, u as u32, pre, post);
    ck_le_i32(t, u as i32, pre, post);
    ck_be_i32(t, u as i32, pre, post);
    ck_le_u64(t, u as u64, pre, post);
    ck_be_u64(t, u as u64, pre, post);
    ck_le_i64(t, u as i64, pre, post);
    ck_be_i64(t, u as i64, pre, post);
    ck_le_u128(t, u, pre, post);
    ck_be_u128(t, u, pre, post);
    ck_le_i128(t, u as i128, pre, post);
    ck_be_i128(t, u as i128, pre, post);
}

pub fn run_c13(cfg: &Cfg) -> Report {
    let mut rep = Report::new("C13");
    if let Some(p) = &cfg.replay {
        let m = read_replay(p).unwrap_or_default();
        let s = parallel(&Cfg { threads: 1, ..cfg.clone() }, 9, |t| {
            if m.get("kind").map(|s| s.as_str()) == Some("call-sequence") {
                call_sequences_lane(t, "C13");
                return;
            }
            let x: i128 = m.get("x").and_then(|s| s.parse::<i128>().ok()).unwrap_or(0);
            let xu: u128 = m.get("x").and_then(|s| s.parse::<u128>().ok()).unwrap_or(x as u128);
            let pre = m.get("pre").and_then(|s| s.parse().ok()).unwrap_or(0);
            let post = m.get("post").and_then(|s| s.parse().ok()).unwrap_or(0);
            c13_all_widths(t, xu, pre, post);
            for nl in [0usize, 1, 5, 15, 16, 17, 31, 32, 33, 55, 64] {
                c13_transports(t, xu, nl);
            }
        });
        rep.stats.merge(s);
        rep.rule = "replay (value re-run through all 16 adapters)".into();
        return rep;
    }
    if cfg.tier == Tier::Tiny && cfg.knob_u64("lean", 0) == 1 {
        // lean interpreter workload (other byte orders / pointer widths): extremes, single-byte patterns, random values
        let s = parallel(cfg, 1, |t| {
            let mut n = 0u64;
            let limit = t.cfg.knob_u64("lean_values", 400);
            let mut cases: Vec<u128> = vec![0, 1, u128::MAX, 1u128 << 127, 0x0123_4567_89AB_CDEF_0011_2233_4455_6677, 0x8000_0000, 0xFF00, 0x00FF, 0x0102, 0x0102_0304];
            for byte in 0..16 {
                cases.push(0xA5u128 << (8 * byte));
            }
            while !t.cfg.expired() && n < limit {
                let u = if (n as usize) < cases.len() { cases[n as usize] } else { t.rng.u128() };
                n += 1;
                c13_all_widths(t, u, (n as u16).wrapping_mul(257), -(n as i32));
                if n % 8 == 0 {
                    c13_transports(t, u, (n % 7) as usize);
                }
            }
            t.st.add("lean_values", n);
        });
        rep.stats.merge(s);
        rep.rule = "lean interpreter workload: extremes, one-byte patterns and random values through all 16 adapters and the transports".into();
        return rep;
    }
    let s = parallel(cfg, 1, |t| {
        // whole 16-bit domain, both byte orders, both signs, with varying varint neighbours
        let step = if t.cfg.tier == Tier::Tiny { 97 } else { 1 };
        let mut n = 0u64;
        let mut x = t.tid as u32;
        while x <= 0xFFFF {
            let pre = [0u16, 127, 128, 65535][(x % 4) as usize];
            let post = [0i32, -1, 64, i32::MIN][((x / 4) % 4) as usize];
            ck_le_u16(t, x as u16, pre, post);
            ck_be_u16(t, x as u16, pre, post);
            ck_le_i16(t, x as u16 as i16, pre, post);
            ck_be_i16(t, x as u16 as i16, pre, post);
            n += 4;
            x += t.nthreads as u32 * step;
        }
        t.st.add("exhaustive_16bit_cases", n);
        t.st.distinct_enumerated += n;
        if t.tid == 0 {
            t.st.space("all 65536 values of u16 and i16, little- and big-endian", 4 * 65536, step == 1);
        }
        // every single-byte-nonzero pattern of every width, extremes
        let mut cases: Vec<u128> = vec![0, 1, u128::MAX, u128::MAX - 1, 1u128 << 127, (1u128 << 127) - 1, 0x0123_4567_89AB_CDEF_0011_2233_4455_6677, 0x8000_0000, 0x7FFF_FFFF, 0x8000_0000_0000_0000, 0x7FFF_FFFF_FFFF_FFFF, 0x80, 0x7F, 0xFF00, 0x00FF];
        for byte in 0..16 {
            for v in 1..=255u128 {
                cases.push(v << (8 * byte));
            }
        }
        let total = cases.len() as u64;
        for (i, u) in cases.into_iter().enumerate() {
            if t.mine(i as u64) {
                c13_all_widths(t, u, (i as u16).wrapping_mul(257), -(i as i32));
                t.st.count("single_byte_pattern_cases");
                t.st.distinct_enumerated += 16;
            }
        }
        if t.tid == 0 {
            t.st.space("every single-byte-nonzero pattern (16 byte positions x 255 values) and extremes, through all 16 adapters", total * 16, true);
        }
        // random
        let n = t.cfg.scale(100, 400_000, 8_000_000);
        for _ in 0..n {
            let u = if t.rng.chance(1, 2) { t.rng.u128() } else { gen_uint(&mut t.rng, 128) };
            let pre = gen_uint(&mut t.rng, 16) as u16;
            let post = gen_int(&mut t.rng, 32) as i32;
            c13_all_widths(t, u, pre, post);
            t.st.nontrivial(fp_mix(fp(&u.to_le_bytes()), pre as u64 ^ ((post as u32 as u64) << 16)));
        }
        t.st.add("random_cases", n * 16);
        // every transport, with strings of 0..64 bytes after the fixed-width fields
        for k in 0..t.cfg.scale(5, 400, 8000) {
            let u = t.rng.u128();
            c13_transports(t, u, [0usize, 1, 5, 15, 16, 17, 31, 32, 33, 55, 64][(k % 11) as usize]);
        }
        // bare adapters (no neighbouring fields)
        for _ in 0..t.cfg.scale(10, 2000, 50_000) {
            let u = t.rng.u128();
            t.st.evaluations += 4;
            let ok = postcard::to_allocvec(&BareLeU16(u as u16)).ok() == Some((u as u16).to_le_bytes().to_vec())
                && postcard::to_allocvec(&BareBeU16(u as u16)).ok() == Some((u as u16).to_be_bytes().to_vec())
                && postcard::to_allocvec(&BareLeI64(u as i64)).ok() == Some((u as i64).to_le_bytes().to_vec())
                && postcard::to_allocvec(&BareBeU128(u)).ok() == Some(u.to_be_bytes().to_vec())
                && postcard::from_bytes::<BareBeU128>(&u.to_be_bytes()).ok() == Some(BareBeU128(u))
                && postcard::from_bytes::<BareLeI64>(&(u as i64).to_le_bytes()).ok() == Some(BareLeI64(u as i64));
            t.st.count("bare_adapter_cases");
            if !ok {
                t.st.violation("C13:bare-adapter-differs", format!("bare fixint adapter differs for {:#x}", u), vec![kv("kind", "c13"), kv("x", u.to_string()), kv("pre", "0"), kv("post", "0")]);
            }
        }
    });
    rep.stats.merge(s);
    // fixed-width fields inside messages encoded by successive (failed, successful, re-entrant) top-level calls
    let s = parallel(cfg, 3, |t| call_sequences_lane(t, "C13"));
    rep.stats.merge(s);
    rep.floor("call_sequence_rounds", 5);
    if cfg.tier == Tier::Thorough {
        let s = parallel(cfg, 2, |t| {
            let total: u64 = 1 << 32;
            let stride = t.cfg.knob_u64("stride32", 1);
            let per = total / t.nthreads as u64;
            let lo = per * t.tid as u64;
            let hi = if t.tid + 1 == t.nthreads { total } else { lo + per };
            let mut x = lo;
            let mut n = 0u64;
            while x < hi {
                let u = x as u32;
                ck_le_u32(t, u, 300, -7);
                ck_be_u32(t, u, 300, -7);
                ck_le_i32(t, u as i32, 1, 1);
                ck_be_i32(t, u as i32, 1, 1);
                n += 4;
                x += stride;
            }
            t.st.add("exhaustive_32bit_cases", n);
            t.st.distinct_enumerated += n;
            if t.tid == 0 {
                t.st.space("all 2^32 values of u32 and i32, little- and big-endian", 4 * (total / stride), stride == 1);
            }
        });
        rep.stats.merge(s);
    }
    for (x, pre, post) in [(0xABCDu128, 300u16, -7i32), (0x0102_0304_0506_0708_090A_0B0C_0D0E_0F10, 0, 0), (u128::MAX - 1, 65535, i32::MIN)] {
        let mut j = J::obj();
        j.set("x", J::s(format!("{:#x}", x))).set("pre", J::i(pre as u64)).set("post", J::i(post as i64));
        j.set("BeU128 bytes", J::s(hex(&postcard::to_allocvec(&BeU128 { pre, x, post }).unwrap_or_default())));
        j.set("LeI16 bytes", J::s(hex(&postcard::to_allocvec(&LeI16 { pre, x: x as i16, post }).unwrap_or_default())));
        j.set("expected", J::s("varint(pre) ++ to_be/le_bytes(x) ++ varint(zigzag(post))"));
        rep.stats.samples.push(j);
    }
    rep.rule = "cases = (width/sign, byte order, value, neighbouring varint fields): entire 16-bit domains; every single-byte-nonzero pattern and extremes for all widths; \
                random 128-bit patterns truncated to every width; bare adapters; thorough adds the entire 32-bit domains. Expected bytes = varint(pre) ++ to_le/be_bytes(x) ++ varint(zigzag(post))."
        .into();
    rep.assumptions = vec!["to_le_bytes / to_be_bytes of the standard library define the expected byte order".into()];
    rep.floor("exhaustive_16bit_cases", 200_000);
    rep.floor("single_byte_pattern_cases", 4000);
    rep.floor("random_cases", 1000);
    rep.floor("transport_cases", 50);
    rep
}

// ------------------------------------------------------------------ C20

/// User flavour implementing only `try_push` (default `try_extend`).
pub struct RecPush {
    pub data: Vec<u8>,
    pub pushes: usize,
}
impl postcard::ser_flavors::Flavor for RecPush {
    type Output = RecPush;
    fn try_push(&mut self, b: u8) -> postcard::Result<()> {
        self.pushes += 1;
        self.data.push(b);
        Ok(())
    }
    fn finalize(self) -> postcard::Result<RecPush> {
        Ok(self)
    }
}
impl std::ops::Index<usize> for RecPush {
    type Output = u8;
    fn index(&self, i: usize) -> &u8 {
        &self.data[i]
    }
}
impl std::ops::IndexMut<usize> for RecPush {
    fn index_mut(&mut self, i: usize) -> &mut u8 {
        &mut self.data[i]
    }
}
/// User flavour overriding the block write; records every call.
pub struct RecExtend {
    pub data: Vec<u8>,
    pub calls: Vec<(bool, usize)>,
}
impl postcard::ser_flavors::Flavor for RecExtend {
    type Output = RecExtend;
    fn try_push(&mut self, b: u8) -> postcard::Result<()> {
        self.calls.push((false, 1));
        self.data.push(b);
        Ok(())
    }
    fn try_extend(&mut self, b: &[u8]) -> postcard::Result<()> {
        self.calls.push((true, b.len()));
        self.data.extend_from_slice(b);
        Ok(())
    }
    fn finalize(self) -> postcard::Result<RecExtend> {
        Ok(self)
    }
}
impl std::ops::Index<usize> for RecExtend {
    type Output = u8;
    fn index(&self, i: usize) -> &u8 {
        &self.data[i]
    }
}
impl std::ops::IndexMut<usize> for RecExtend {
    fn index_mut(&mut self, i: usize) -> &mut u8 {
        &mut self.data[i]
    }
}

fn rp20(shape: &Shape, plain: &[u8], what: &str) -> Vec<(String, String)> {
    vec![kv("kind", "c20"), kv("shape", shape.text()), kv("value_spec_bytes", hex(plain)), kv("stack", what)]
}

pub fn c20_value(t: &mut Tctx, algos: &[CrcAlgo], shape: &Shape, val: &Val) {
    let plain = spec::encode(val);
    t.st.nontrivial(fp_mix(fp(shape.text().as_bytes()), fp(&plain)));
    let mut stacks = vec![Framing::Plain, Framing::Cobs];
    for i in 0..algos.len() {
        stacks.push(Framing::Crc(i));
        stacks.push(Framing::CrcInCobs(i));
    }
    let mut buf = vec![0u8; plain.len() * 2 + 64];
    for f in stacks {
        let label = f.label(algos);
        let want = ref_frame(f, algos, &plain);
        t.st.eval();
        t.st.count(match f {
            Framing::Plain => "stack_plain",
            Framing::Cobs => "stack_cobs",
            Framing::Crc(_) => "stack_crc",
            Framing::CrcInCobs(_) => "stack_crc_in_cobs",
        });
        // innermost storage: slice - exactly fitting (what heapless / growable storage also manage) and roomy
        let mut exact = vec![0u8; want.len()];
        match catch(|| to_slice_framed(f, algos, val, &mut exact)) {
            Ok(Ok((p, l))) if p == exact.as_ptr() as usize && l == want.len() && exact[..] == want[..] => t.st.count("storage_slice_exact_fit"),
            other => {
                t.st.violation(
                    "C20:slice-stack-differs",
                    format!("{} over an exactly fitting Slice ({} bytes) gave {:?}, composed reference transforms give {}", label, want.len(), other.map(|r| r.map(|x| x.1).map_err(|e| err_label(&e))), hexs(&want)),
                    rp20(shape, &plain, &label),
                );
                return;
            }
        }
        match catch(|| to_slice_framed(f, algos, val, &mut buf)) {
            Ok(Ok((p, l))) if p == buf.as_ptr() as usize && buf[..l] == want[..] => t.st.count("storage_slice"),
            other => {
                t.st.violation(
                    "C20:slice-stack-differs",
                    format!("{} over Slice gave {:?}, composed reference transforms give {}", label, other.map(|r| r.map(|x| hexs(&buf[..x.1.min(buf.len())])).map_err(|e| err_label(&e))), hexs(&want)),
                    rp20(shape, &plain, &label),
                );
                return;
            }
        }
        // growable
        match catch(|| to_allocvec_framed(f, algos, val)) {
            Ok(Ok(b)) if b == want => t.st.count("storage_growable"),
            other => {
                t.st.violation(
                    "C20:allocvec-stack-differs",
                    format!("{} over AllocVec gave {:?}, expected {}", label, other.map(|r| r.map(|b| hexs(&b)).map_err(|e| err_label(&e))), hexs(&want)),
                    rp20(shape, &plain, &label),
                );
                return;
            }
        }
        // heapless (where instantiated)
        if want.len() <= 1024 {
            if let Ok(Some(r)) = catch(|| to_hvec_framed::<1024>(f, algos, val)) {
                match r {
                    Ok(b) if b == want => t.st.count("storage_heapless"),
                    other => {
                        t.st.violation(
                            "C20:heapless-stack-differs",
                            format!("{} over HVec gave {:?}, expected {}", label, other.map(|b| hexs(&b)).map_err(|e| err_label(&e)), hexs(&want)),
                            rp20(shape, &plain, &label),
                        );
                        return;
                    }
                }
            }
        }
        // heapless storage whose capacity is EXACTLY the output length (menu of const capacities)
        if HCAPS.contains(&want.len()) {
            let mut bad: Option<String> = None;
            macro_rules! cap {
                ($b:expr) => {{
                    const B: usize = $b;
                    if B == want.len() {
                        if let Ok(Some(r)) = catch(|| to_hvec_framed::<B>(f, algos, val)) {
                            t.st.count("storage_heapless_exact_fit");
                            if !matches!(&r, Ok(b) if *b == want) {
                                bad = Some(format!("{} over HVec<{}> (exactly fitting) gave {:?}, expected {}", label, B, r.map(|b| hexs(&b)).map_err(|e| err_label(&e)), hexs(&want)));
                            }
                        }
                    }
                }};
            }
            crate::for_each_hcap!(cap);
            if let Some(m) = bad {
                t.st.violation("C20:heapless-stack-differs", m, rp20(shape, &plain, &label));
                return;
            }
        }
        // undo the layers in reverse order
        let recovered: Result<Val, String> = (|| match f {
            Framing::Plain => with_shape(shape, || postcard::from_bytes::<DynVal>(&want)).map(|v| v.0).map_err(|e| err_label(&e).to_string()),
            Framing::Cobs => {
                let mut c = want.clone();
                with_shape(shape, || postcard::from_bytes_cobs::<DynVal>(&mut c)).map(|v| v.0).map_err(|e| err_label(&e).to_string())
            }
            Framing::Crc(i) => with_shape(shape, || (algos[i].from)(&want)).map_err(|e| err_label(&e).to_string()),
            Framing::CrcInCobs(i) => {
                // reference COBS decode first (outer layer), then the CRC-checked decode (inner layer)
                match cobs_decode_frame(&want[..want.len() - 1]) {
                    CobsRef::Ok(inner) => with_shape(shape, || (algos[i].from)(&inner)).map_err(|e| err_label(&e).to_string()),
                    CobsRef::Bad => Err("reference COBS decode failed".into()),
                }
            }
        })();
        let _ = take_strs();
        match recovered {
            Ok(v) if v == *val => t.st.count("layers_undone"),
            other => {
                t.st.violation(
                    "C20:undoing-layers-does-not-recover-value",
                    format!("{}: undoing the layers in reverse gave {:?}", label, other.map(|v| v.show())),
                    rp20(shape, &plain, &label),
                );
                return;
            }
        }
    }
    // user flavours see exactly the plain encoding, in order
    t.st.eval();
    match catch(|| postcard::serialize_with_flavor(val, RecPush { data: Vec::new(), pushes: 0 })) {
        Ok(Ok(r)) if r.data == plain && r.pushes == plain.len() => t.st.count("user_flavour_push_only"),
        _ => {
            t.st.violation("C20:push-only-flavour-differs", "a flavour implementing only try_push did not receive exactly the plain encoding".into(), rp20(shape, &plain, "user-push"));
            return;
        }
    }
    match catch(|| postcard::serialize_with_flavor(val, RecExtend { data: Vec::new(), calls: Vec::new() })) {
        Ok(Ok(r)) if r.data == plain && r.calls.iter().map(|c| c.1).sum::<usize>() == plain.len() => {
            t.st.count("user_flavour_with_extend");
            if r.calls.iter().any(|c| c.0) {
                t.st.count("user_flavour_block_writes_seen");
            }
        }
        _ => {
            t.st.violation("C20:extend-flavour-differs", "a flavour overriding try_extend did not receive exactly the plain encoding".into(), rp20(shape, &plain, "user-extend"));
            return;
        }
    }
    // user flavours as innermost storage under the modifiers
    use postcard::ser_flavors::{crc::CrcModifier, Cobs};
    static C32: crc::Crc<u32> = crc::Crc::<u32>::new(&crc::CRC_32_ISCSI);
    let i32 = algos.iter().position(|a| a.name == "crc::CRC_32_ISCSI").unwrap_or(4);
    let checks: Vec<(&str, Result<postcard::Result<Vec<u8>>, String>, Vec<u8>)> = vec![
        (
            "Cobs<RecPush>",
            catch(|| Cobs::try_new(RecPush { data: Vec::new(), pushes: 0 }).and_then(|c| postcard::serialize_with_flavor(val, c)).map(|r: RecPush| r.data)),
            ref_frame(Framing::Cobs, algos, &plain),
        ),
        (
            "Cobs<RecExtend>",
            catch(|| Cobs::try_new(RecExtend { data: Vec::new(), calls: Vec::new() }).and_then(|c| postcard::serialize_with_flavor(val, c)).map(|r: RecExtend| r.data)),
            ref_frame(Framing::Cobs, algos, &plain),
        ),
        (
            "Crc32<RecPush>",
            catch(|| postcard::serialize_with_flavor(val, CrcModifier::new(RecPush { data: Vec::new(), pushes: 0 }, C32.digest())).map(|r: RecPush| r.data)),
            ref_frame(Framing::Crc(i32), algos, &plain),
        ),
        (
            "Crc32<RecExtend>",
            catch(|| postcard::serialize_with_flavor(val, CrcModifier::new(RecExtend { data: Vec::new(), calls: Vec::new() }, C32.digest())).map(|r: RecExtend| r.data)),
            ref_frame(Framing::Crc(i32), algos, &plain),
        ),
        (
            "Crc32<Cobs<RecExtend>>",
            catch(|| {
                Cobs::try_new(RecExtend { data: Vec::new(), calls: Vec::new() })
                    .and_then(|c| postcard::serialize_with_flavor(val, CrcModifier::new(c, C32.digest())))
                    .map(|r: RecExtend| r.data)
            }),
            ref_frame(Framing::CrcInCobs(i32), algos, &plain),
        ),
    ];
    for (name, got, want) in checks {
        t.st.eval();
        match got {
            Ok(Ok(b)) if b == want => t.st.count("user_flavour_as_storage"),
            other => {
                t.st.violation(
                    "C20:user-storage-under-modifier-differs",
                    format!("{} gave {:?}, expected {}", name, other.map(|r| r.map(|b| hexs(&b)).map_err(|e| err_label(&e))), hexs(&want)),
                    rp20(shape, &plain, name),
                );
                return;
            }
        }
    }
}

/// Text formatted piecewise (write_str and write_char pieces of assorted sizes) and serialised through
/// `collect_str`: every flavour stack must receive the plain encoding of the formatted text, in order.
struct TextPieces(Vec<String>);
impl std::fmt::Display for TextPieces {
    fn fmt(&self, f: &mut std::fmt::Formatter<'_>) -> std::fmt::Result {
        use std::fmt::Write;
        for (i, p) in self.0.iter().enumerate() {
            if i % 3 == 2 {
                for c in p.chars() {
                    f.write_char(c)?;
                }
            } else {
                f.write_str(p)?;
            }
        }
        Ok(())
    }
}
impl Serialize for TextPieces {
    fn serialize<S: serde::Serializer>(&self, s: S) -> Result<S::Ok, S::Error> {
        s.collect_str(self)
    }
}

fn c20_text(t: &mut Tctx, algos: &[CrcAlgo]) {
    use postcard::ser_flavors::{crc::CrcModifier, Cobs, Slice};
    static C32: crc::Crc<u32> = crc::Crc::<u32>::new(&crc::CRC_32_ISCSI);
    let i32 = algos.iter().position(|a| a.name == "crc::CRC_32_ISCSI").unwrap_or(4);
    let n = t.cfg.scale(3, 3000, 60_000);
    for _ in 0..n {
        if t.cfg.expired() {
            break;
        }
        let np = t.rng.range(1, 6);
        let pieces: Vec<String> = (0..np)
            .map(|_| match t.rng.below(6) {
                0 => String::new(),
                1 => gen_string(&mut t.rng, 3),
                2 => "p".repeat(t.rng.range(30, 36)),
                3 => "q".repeat(t.rng.range(62, 70)),
                4 => gen_string(&mut t.rng, 200),
                _ => gen_string(&mut t.rng, 12),
            })
            .collect();
        let v = TextPieces(pieces);
        let text = v.to_string();
        let plain = spec::encode(&Val::Str(text.clone()));
        t.st.eval();
        t.st.count("formatted_text_values");
        t.st.nontrivial(fp_mix(0xC20_7E87, fp(text.as_bytes())));
        let mut buf = vec![0u8; plain.len() * 2 + 32];
        let checks: Vec<(&str, Result<postcard::Result<Vec<u8>>, String>, Vec<u8>)> = vec![
            ("RecPush", catch(|| postcard::serialize_with_flavor(&v, RecPush { data: Vec::new(), pushes: 0 }).map(|r: RecPush| r.data)), plain.clone()),
            ("RecExtend", catch(|| postcard::serialize_with_flavor(&v, RecExtend { data: Vec::new(), calls: Vec::new() }).map(|r: RecExtend| r.data)), plain.clone()),
            ("Slice", catch(|| postcard::serialize_with_flavor(&v, Slice::new(&mut buf)).map(|s: &mut [u8]| s.to_vec())), plain.clone()),
            ("AllocVec", catch(|| postcard::to_allocvec(&v)), plain.clone()),
            ("HVec<1024>", if plain.len() <= 1024 { catch(|| postcard::to_vec::<_, 1024>(&v).map(|x| x.to_vec())) } else { Ok(Ok(plain.clone())) }, plain.clone()),
            ("Cobs<RecExtend>", catch(|| Cobs::try_new(RecExtend { data: Vec::new(), calls: Vec::new() }).and_then(|c| postcard::serialize_with_flavor(&v, c)).map(|r: RecExtend| r.data)), ref_frame(Framing::Cobs, algos, &plain)),
            ("Cobs<AllocVec>", catch(|| postcard::to_allocvec_cobs(&v)), ref_frame(Framing::Cobs, algos, &plain)),
            ("Crc32<RecPush>", catch(|| postcard::serialize_with_flavor(&v, CrcModifier::new(RecPush { data: Vec::new(), pushes: 0 }, C32.digest())).map(|r: RecPush| r.data)), ref_frame(Framing::Crc(i32), algos, &plain)),
            ("Crc32<AllocVec>", catch(|| postcard::to_allocvec_crc32(&v, C32.digest())), ref_frame(Framing::Crc(i32), algos, &plain)),
            (
                "Crc32<Cobs<RecExtend>>",
                catch(|| Cobs::try_new(RecExtend { data: Vec::new(), calls: Vec::new() }).and_then(|c| postcard::serialize_with_flavor(&v, CrcModifier::new(c, C32.digest()))).map(|r: RecExtend| r.data)),
                ref_frame(Framing::CrcInCobs(i32), algos, &plain),
            ),
        ];
        for (name, got, want) in checks {
            t.st.eval();
            match got {
                Ok(Ok(b)) if b == want => t.st.count("formatted_text_stacks"),
                other => {
                    t.st.violation(
                        &format!("C20:formatted-text-differs:{}", name),
                        format!("{}: text {:?} formatted in {} pieces gave {:?}, expected {}", name, text, v.0.len(), other.map(|r| r.map(|b| hexs(&b)).map_err(|e| err_label(&e))), hexs(&want)),
                        vec![kv("kind", "c20-text"), kv("stack", name), kv("text_hex", hex(text.as_bytes()))],
                    );
                    return;
                }
            }
        }
    }
}

pub fn run_c20(cfg: &Cfg) -> Report {
    let mut rep = Report::new("C20");
    let algos = crc_algos();
    if let Err(e) = crc_selfcheck(&algos) {
        rep.stats.inconclusive(e);
    }
    if let Some(p) = &cfg.replay {
        let m = read_replay(p).unwrap_or_default();
        let s = parallel(&Cfg { threads: 1, ..cfg.clone() }, 9, |t| {
            let algos = crc_algos();
            if m.get("kind").map(|s| s.as_str()) == Some("impure") {
                impure_values_lane(t, "C20");
                return;
            }
            if m.get("kind").map(|s| s.as_str()) == Some("call-sequence") {
                call_sequences_lane(t, "C20");
                return;
            }
            if m.get("kind").map(|s| s.as_str()) == Some("c20-text") {
                c20_text(t, &algos);
                return;
            }
            let shape = match Shape::parse(m.get("shape").map(|s| s.as_str()).unwrap_or("")) {
                Ok(s) => s,
                Err(e) => {
                    t.st.inconclusive(format!("cannot parse shape: {}", e));
                    return;
                }
            };
            let bytes = unhex(m.get("value_spec_bytes").map(|s| s.as_str()).unwrap_or("")).unwrap_or_default();
            match spec::decode(&shape, &bytes) {
                Ok(d) => c20_value(t, &algos, &shape, &d.val),
                Err(_) => t.st.inconclusive("replay value does not decode under the reference decoder".into()),
            }
        });
        rep.stats.merge(s);
        rep.rule = "replay".into();
        return rep;
    }
    let s = parallel(cfg, 1, |t| {
        let algos = crc_algos();
        let n = t.cfg.scale(5, 15_000, 400_000);
        for i in 0..n {
            if t.cfg.expired() {
                break;
            }
            let (shape, val) = if i % 5 == 0 {
                let len = *t.rng.pick(&[0usize, 1, 2, 253, 254, 255, 300, 508]);
                super::ser::value_of_len(&mut t.rng, len)
            } else if i % 11 == 3 {
                // a value whose last write is an empty block, of a length on the heapless capacity menu
                let n = *t.rng.pick(&[1usize, 2, 3, 4, 5, 8, 9, 10, 12, 16, 24, 32]);
                let mut fields: Vec<Shape> = (0..n - 1).map(|_| Shape::U8).collect();
                let mut vals: Vec<Val> = (0..n - 1).map(|_| Val::U8(1 + (t.rng.next() % 255) as u8)).collect();
                if t.rng.chance(1, 2) {
                    fields.push(Shape::Str);
                    vals.push(Val::Str(String::new()));
                } else {
                    fields.push(Shape::Bytes);
                    vals.push(Val::Bytes(Vec::new()));
                }
                t.st.count("values_ending_in_empty_block");
                (Shape::Tuple(fields), Val::Tuple(vals))
            } else {
                let d = t.rng.range(0, 4) as u32;
                let shape = gen_shape(&mut t.rng, d, &ShapeOpts::small());
                let val = {
                    let mut g = ValGen::small(&mut t.rng);
                    g.gen(&shape)
                };
                (shape, val)
            };
            if spec::encode(&val).len() > 900 {
                continue;
            }
            if t.st.want_sample() && i % 7 == 3 {
                let mut j = J::obj();
                j.set("shape", J::s(shape.text())).set("value", J::s(val.show()));
                j.set("stacks", J::s("plain, Cobs, CrcModifier x10 algorithms, CrcModifier<Cobs> x10 over Slice/AllocVec/HVec; user flavours alone and as innermost storage"));
                t.st.sample(j);
            }
            t.st.count("values");
            c20_value(t, &algos, &shape, &val);
        }
    });
    rep.stats.merge(s);
    let s = parallel(cfg, 2, |t| {
        impure_values_lane(t, "C20");
        call_sequences_lane(t, "C20");
        let algos = crc_algos();
        c20_text(t, &algos);
        // values nested 65 .. 300 levels: every stack, and undoing the layers, must cope with depth as well
        let mut di = 0u64;
        for kind in 0..7 {
            for &depth in &crate::gen::DEEP_DEPTHS {
                di += 1;
                if t.mine(di) && (t.cfg.tier != Tier::Tiny || depth < 130) {
                    let (shape, val) = crate::gen::deep_case(kind, depth);
                    t.st.count("deep_nesting_values");
                    c20_value(t, &algos, &shape, &val);
                }
            }
        }
    });
    rep.stats.merge(s);
    rep.floor("formatted_text_stacks", 100);
    rep.floor("deep_nesting_values", 7);
    rep.floor("impure_value_cases", 20);
    rep.floor("storage_heapless_exact_fit", 20);
    rep.rule = "cases = (value, flavour stack, innermost storage): random-shape values and values crafted around the COBS block length; stacks = plain, Cobs<S>, CrcModifier<S,W> \
                (10 algorithms, 5 widths), CrcModifier<Cobs<S>,W>; S = Slice, AllocVec, HVec<1024> and exactly fitting HVec<B> for outputs whose length is on the 25-entry capacity menu (subset of algorithms), recording user flavours (push-only and with a block-write \
                override) alone and as innermost storage. Expected output = composition of the reference COBS/CRC transforms on the reference plain encoding. distinct = (shape, plain)."
        .into();
    rep.assumptions = vec!["reference COBS and CRC as in C06/C10".into()];
    rep.floor("stack_crc_in_cobs", 50);
    rep.floor("storage_heapless", 50);
    rep.floor("layers_undone", 100);
    rep.floor("user_flavour_push_only", 10);
    rep.floor("user_flavour_block_writes_seen", 5);
    rep.floor("user_flavour_as_storage", 50);
    rep
}
