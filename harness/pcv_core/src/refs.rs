//! Independent reference implementations: COBS (Cheshire & Baker), CRC (Rocksoft model,
//! bit at a time), FNV-1a/64.  None of them shares code with the `cobs` / `crc` crates.

// ------------------------------------------------------------------ COBS

/// Reference COBS encode of `msg` (no sentinel).  Block rule of the paper: a code byte
/// `c` is followed by `c-1` non-zero bytes; `c < 0xFF` implies a zero follows unless the
/// message ends; after a full 254-byte block a new code byte is always opened, which
/// gives n + floor(n/254) + 1 bytes for an n-byte message.
pub fn cobs_encode(msg: &[u8]) -> Vec<u8> {
    let mut out = Vec::with_capacity(msg.len() + msg.len() / 254 + 2);
    let mut code_pos = 0usize;
    out.push(0); // placeholder for first code
    let mut run: u8 = 1;
    for &b in msg {
        if b == 0 {
            out[code_pos] = run;
            code_pos = out.len();
            out.push(0);
            run = 1;
        } else {
            out.push(b);
            run += 1;
            if run == 0xFF {
                out[code_pos] = 0xFF;
                code_pos = out.len();
                out.push(0);
                run = 1;
            }
        }
    }
    out[code_pos] = run;
    out
}

#[derive(Debug, PartialEq, Eq, Clone)]
pub enum CobsRef {
    /// decoded payload
    Ok(Vec<u8>),
    /// a code byte points past the end of the frame
    Bad,
}

/// Reference decode of one frame body (`frame` contains no zero byte).
pub fn cobs_decode_frame(frame: &[u8]) -> CobsRef {
    debug_assert!(!frame.contains(&0));
    let mut out = Vec::with_capacity(frame.len());
    let mut i = 0usize;
    while i < frame.len() {
        let code = frame[i] as usize;
        // the block is the code byte plus code-1 data bytes
        if i + code > frame.len() {
            return CobsRef::Bad;
        }
        out.extend_from_slice(&frame[i + 1..i + code]);
        i += code;
        if code != 0xFF && i < frame.len() {
            out.push(0);
        }
    }
    CobsRef::Ok(out)
}

/// Frame length (incl. sentinel) of an n-byte message: exact when the message contains no
/// zero byte, an upper bound otherwise (a zero ends a block early, so fewer 0xFF blocks fill).
pub fn cobs_frame_len(n: usize) -> usize {
    n + n / 254 + 2
}

pub fn cobs_selfcheck() -> Result<usize, String> {
    // Example vectors from the Wikipedia article "Consistent Overhead Byte Stuffing"
    let mut cases: Vec<(Vec<u8>, Vec<u8>)> = vec![
        (vec![0x00], vec![0x01, 0x01]),
        (vec![0x00, 0x00], vec![0x01, 0x01, 0x01]),
        (vec![0x00, 0x11, 0x00], vec![0x01, 0x02, 0x11, 0x01]),
        (vec![0x11, 0x22, 0x00, 0x33], vec![0x03, 0x11, 0x22, 0x02, 0x33]),
        (vec![0x11, 0x22, 0x33, 0x44], vec![0x05, 0x11, 0x22, 0x33, 0x44]),
        (vec![0x11, 0x00, 0x00, 0x00], vec![0x02, 0x11, 0x01, 0x01, 0x01]),
    ];
    // 01..FE -> FF 01..FE  (Wikipedia); this implementation opens a further code byte (01)
    let seq: Vec<u8> = (1..=0xFEu8).collect();
    let mut e = vec![0xFF];
    e.extend_from_slice(&seq);
    e.push(0x01);
    cases.push((seq, e));
    // 00 01..FE -> 01 FF 01..FE (+01)
    let mut m = vec![0u8];
    m.extend(1..=0xFEu8);
    let mut e = vec![0x01, 0xFF];
    e.extend(1..=0xFEu8);
    e.push(0x01);
    cases.push((m, e));
    // 01..FF -> FF 01..FE 02 FF
    let m: Vec<u8> = (1..=0xFFu8).collect();
    let mut e = vec![0xFF];
    e.extend(1..=0xFEu8);
    e.extend_from_slice(&[0x02, 0xFF]);
    cases.push((m, e));
    // 02..FF 00 -> FF 02..FF 01 01
    let mut m: Vec<u8> = (2..=0xFFu8).collect();
    m.push(0);
    let mut e = vec![0xFF];
    e.extend(2..=0xFFu8);
    e.extend_from_slice(&[0x01, 0x01]);
    cases.push((m, e));
    // 03..FF 00 01 -> FE 03..FF 02 01
    let mut m: Vec<u8> = (3..=0xFFu8).collect();
    m.extend_from_slice(&[0, 1]);
    let mut e = vec![0xFE];
    e.extend(3..=0xFFu8);
    e.extend_from_slice(&[0x02, 0x01]);
    cases.push((m, e));
    let n = cases.len();
    for (m, e) in cases {
        let got = cobs_encode(&m);
        if got != e {
            return Err(format!("reference COBS encode mismatch for message of {} bytes", m.len()));
        }
        // n + floor(n/254) + 2 is exact for zero-free messages and an upper bound otherwise
        let exact = !m.contains(&0);
        if got.len() + 1 > cobs_frame_len(m.len()) || (exact && got.len() + 1 != cobs_frame_len(m.len())) {
            return Err(format!("frame length formula mismatch for n={}", m.len()));
        }
        if cobs_decode_frame(&e) != CobsRef::Ok(m.clone()) {
            return Err(format!("reference COBS decode mismatch for message of {} bytes", m.len()));
        }
    }
    // the canonical Wikipedia form without the trailing 01 also decodes
    let seq: Vec<u8> = (1..=0xFEu8).collect();
    let mut e = vec![0xFF];
    e.extend_from_slice(&seq);
    if cobs_decode_frame(&e) != CobsRef::Ok(seq) {
        return Err("FF block without trailing code".into());
    }
    if cobs_decode_frame(&[0x05, 0x11]) != CobsRef::Bad {
        return Err("overlong code not rejected".into());
    }
    Ok(n + 2)
}

// ------------------------------------------------------------------ CRC (Rocksoft model)

#[derive(Clone, Copy, Debug)]
pub struct CrcParams {
    pub width: u32,
    pub poly: u128,
    pub init: u128,
    pub refin: bool,
    pub refout: bool,
    pub xorout: u128,
    pub check: u128,
}

fn reflect(v: u128, bits: u32) -> u128 {
    let mut r = 0u128;
    for i in 0..bits {
        if v >> i & 1 == 1 {
            r |= 1 << (bits - 1 - i);
        }
    }
    r
}

/// Bit-at-a-time CRC per Ross Williams' parameterised model.
pub fn crc_ref(p: &CrcParams, data: &[u8]) -> u128 {
    let mask: u128 = if p.width == 128 { u128::MAX } else { (1u128 << p.width) - 1 };
    let top: u128 = 1u128 << (p.width - 1);
    let mut reg = p.init & mask;
    for &byte in data {
        let b = if p.refin { reflect(byte as u128, 8) as u8 } else { byte };
        for i in (0..8).rev() {
            let inbit = (b >> i) & 1 == 1;
            let topbit = reg & top != 0;
            reg = (reg << 1) & mask;
            if inbit ^ topbit {
                reg ^= p.poly & mask;
            }
        }
    }
    if p.refout {
        reg = reflect(reg, p.width);
    }
    (reg ^ p.xorout) & mask
}

pub fn crc_selfcheck(p: &CrcParams) -> bool {
    crc_ref(p, b"123456789") == p.check
}

// ------------------------------------------------------------------ FNV-1a/64

pub const FNV_BASIS: u64 = 0xcbf2_9ce4_8422_2325;
pub const FNV_PRIME: u64 = 0x0000_0100_0000_01b3;
pub fn fnv1a64(bytes: &[u8]) -> u64 {
    let mut h = FNV_BASIS;
    for b in bytes {
        h ^= *b as u64;
        h = h.wrapping_mul(FNV_PRIME);
    }
    h
}
pub fn fnv_selfcheck() -> bool {
    // published test vectors (Landon Curt Noll's test suite)
    fnv1a64(b"") == 0xcbf29ce484222325 && fnv1a64(b"a") == 0xaf63dc4c8601ec8c && fnv1a64(b"foobar") == 0x85944171f73967e8
}
