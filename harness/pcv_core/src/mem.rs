//! Memory monitors: guard-page buffers (mmap/mprotect through `extern "C"`, no libc
//! crate), canary regions, a counting global allocator with thread-local counters, panic
//! capture, and MAP_SHARED breadcrumb files that survive the death of the process.

use std::alloc::{GlobalAlloc, Layout, System};
use std::cell::{Cell, RefCell};

// ------------------------------------------------------------------ counting allocator

pub struct CountingAlloc;

thread_local! {
    static ACTIVE: Cell<bool> = const { Cell::new(false) };
    static BYTES: Cell<usize> = const { Cell::new(0) };
    static CALLS: Cell<usize> = const { Cell::new(0) };
    static MAXREQ: Cell<usize> = const { Cell::new(0) };
    static LIVE: Cell<isize> = const { Cell::new(0) };
    static PEAK: Cell<isize> = const { Cell::new(0) };
}

/// Single requests above this are refused (null => allocation failure => abort, which the
/// orchestrator attributes to the breadcrumb of the dying thread).
pub const ALLOC_REFUSE: usize = 1 << 30;

unsafe impl GlobalAlloc for CountingAlloc {
    unsafe fn alloc(&self, l: Layout) -> *mut u8 {
        let on = ACTIVE.try_with(|a| a.get()).unwrap_or(false);
        if on {
            note(l.size());
            if l.size() > ALLOC_REFUSE {
                return std::ptr::null_mut();
            }
        }
        System.alloc(l)
    }
    unsafe fn dealloc(&self, p: *mut u8, l: Layout) {
        let on = ACTIVE.try_with(|a| a.get()).unwrap_or(false);
        if on {
            let _ = LIVE.try_with(|x| x.set(x.get() - l.size() as isize));
        }
        System.dealloc(p, l)
    }
    unsafe fn alloc_zeroed(&self, l: Layout) -> *mut u8 {
        let on = ACTIVE.try_with(|a| a.get()).unwrap_or(false);
        if on {
            note(l.size());
            if l.size() > ALLOC_REFUSE {
                return std::ptr::null_mut();
            }
        }
        System.alloc_zeroed(l)
    }
    unsafe fn realloc(&self, p: *mut u8, l: Layout, new: usize) -> *mut u8 {
        let on = ACTIVE.try_with(|a| a.get()).unwrap_or(false);
        if on {
            // a growing realloc requests `new` bytes
            note(new);
            let _ = LIVE.try_with(|x| x.set(x.get() - l.size() as isize));
            if new > ALLOC_REFUSE {
                return std::ptr::null_mut();
            }
        }
        System.realloc(p, l, new)
    }
}

#[inline]
fn note(sz: usize) {
    let _ = BYTES.try_with(|b| b.set(b.get().saturating_add(sz)));
    let _ = CALLS.try_with(|b| b.set(b.get() + 1));
    let _ = MAXREQ.try_with(|m| {
        if sz > m.get() {
            m.set(sz)
        }
    });
    let _ = LIVE.try_with(|x| {
        let n = x.get() + sz as isize;
        x.set(n);
        let _ = PEAK.try_with(|p| {
            if n > p.get() {
                p.set(n)
            }
        });
    });
}

/// Run `f` with counting suspended (for the harness's own bookkeeping inside a monitored call).
#[inline]
pub fn uncounted<R>(f: impl FnOnce() -> R) -> R {
    let was = ACTIVE.with(|a| a.replace(false));
    let r = f();
    ACTIVE.with(|a| a.set(was));
    r
}

#[derive(Clone, Copy, Debug, Default)]
pub struct AllocStats {
    /// sum of all request sizes during the window
    pub bytes: usize,
    pub calls: usize,
    pub max_request: usize,
    pub peak_live: usize,
}

/// Run `f` with allocation counting on for this thread.
pub fn count_allocs<R>(f: impl FnOnce() -> R) -> (R, AllocStats) {
    BYTES.with(|b| b.set(0));
    CALLS.with(|b| b.set(0));
    MAXREQ.with(|b| b.set(0));
    LIVE.with(|b| b.set(0));
    PEAK.with(|b| b.set(0));
    ACTIVE.with(|a| a.set(true));
    struct Off;
    impl Drop for Off {
        fn drop(&mut self) {
            ACTIVE.with(|a| a.set(false));
        }
    }
    let off = Off;
    let r = f();
    drop(off);
    let st = AllocStats {
        bytes: BYTES.with(|b| b.get()),
        calls: CALLS.with(|b| b.get()),
        max_request: MAXREQ.with(|b| b.get()),
        peak_live: PEAK.with(|b| b.get()).max(0) as usize,
    };
    (r, st)
}

// ------------------------------------------------------------------ panic capture

thread_local! {
    static LAST_PANIC: RefCell<String> = const { RefCell::new(String::new()) };
    static QUIET: Cell<bool> = const { Cell::new(false) };
}

pub fn install_panic_hook() {
    let prev = std::panic::take_hook();
    std::panic::set_hook(Box::new(move |info| {
        let quiet = QUIET.try_with(|q| q.get()).unwrap_or(false);
        let loc = info.location().map(|l| format!("{}:{}", l.file(), l.line())).unwrap_or_default();
        let msg = if let Some(s) = info.payload().downcast_ref::<&str>() {
            s.to_string()
        } else if let Some(s) = info.payload().downcast_ref::<String>() {
            s.clone()
        } else {
            "<non-string panic payload>".to_string()
        };
        let _ = LAST_PANIC.try_with(|p| *p.borrow_mut() = format!("{} @ {}", msg, loc));
        if !quiet {
            prev(info);
        }
    }));
}

/// Run `f`, converting a panic into `Err("message @ file:line")`.
pub fn catch<R>(f: impl FnOnce() -> R) -> Result<R, String> {
    QUIET.with(|q| q.set(true));
    let r = std::panic::catch_unwind(std::panic::AssertUnwindSafe(f));
    QUIET.with(|q| q.set(false));
    match r {
        Ok(v) => Ok(v),
        Err(_) => Err(LAST_PANIC.with(|p| p.borrow().clone())),
    }
}

// ------------------------------------------------------------------ guard pages

#[cfg(not(miri))]
mod sys {
    use std::ffi::c_void;
    extern "C" {
        pub fn mmap(addr: *mut c_void, len: usize, prot: i32, flags: i32, fd: i32, off: i64) -> *mut c_void;
        pub fn mprotect(addr: *mut c_void, len: usize, prot: i32) -> i32;
        pub fn munmap(addr: *mut c_void, len: usize) -> i32;
        pub fn open(path: *const i8, flags: i32, mode: u32) -> i32;
        pub fn ftruncate(fd: i32, len: i64) -> i32;
        pub fn close(fd: i32) -> i32;
    }
    pub const PROT_NONE: i32 = 0;
    pub const PROT_READ: i32 = 1;
    pub const PROT_WRITE: i32 = 2;
    pub const MAP_SHARED: i32 = 1;
    pub const MAP_PRIVATE: i32 = 2;
    pub const MAP_ANONYMOUS: i32 = 0x20;
    pub const O_RDWR: i32 = 2;
    pub const O_CREAT: i32 = 0o100;
    pub const O_TRUNC: i32 = 0o1000;
}

pub const PAGE: usize = 4096;

/// A private anonymous zero-filled mapping that is never backed by memory unless written: lets a check hand the
/// crate a string or byte slice of more than 4 GiB (length prefixes beyond 2^32) at the cost of page faults only.
#[cfg(all(not(miri), target_pointer_width = "64"))]
pub struct HugeZero {
    ptr: *mut u8,
    len: usize,
}
#[cfg(all(not(miri), target_pointer_width = "64"))]
impl HugeZero {
    pub fn new(len: usize) -> Option<HugeZero> {
        const MAP_NORESERVE: i32 = 0x4000;
        let p = unsafe { sys::mmap(std::ptr::null_mut(), len, sys::PROT_READ | sys::PROT_WRITE, sys::MAP_PRIVATE | sys::MAP_ANONYMOUS | MAP_NORESERVE, -1, 0) };
        if p as isize == -1 || p.is_null() {
            return None;
        }
        Some(HugeZero { ptr: p as *mut u8, len })
    }
    pub fn as_slice(&self) -> &[u8] {
        unsafe { std::slice::from_raw_parts(self.ptr, self.len) }
    }
    pub fn as_mut_slice(&mut self) -> &mut [u8] {
        unsafe { std::slice::from_raw_parts_mut(self.ptr, self.len) }
    }
    /// were exact-size heap buffers requested (sanitizer stages)?  Then the multi-GiB lanes are skipped.
    pub fn suppressed() -> bool {
        heap_mode_requested()
    }
}
#[cfg(all(not(miri), target_pointer_width = "64"))]
impl Drop for HugeZero {
    fn drop(&mut self) {
        unsafe {
            sys::munmap(self.ptr as *mut _, self.len);
        }
    }
}

/// A read/write region of `usable` bytes with an inaccessible page directly before and
/// directly after it.  Under Miri (no mprotect) it degrades to exact-size heap buffers,
/// where Miri itself reports any out-of-bounds access.
pub struct GuardBuf {
    #[cfg(not(miri))]
    base: *mut u8,
    usable: usize,
    /// exact-size heap buffers instead of guard pages (Miri always; ASan stage via PCV_HEAPBUF=1,
    /// where the sanitizer's red zones take the role of the guard pages)
    heap: Vec<u8>,
    heap_mode: bool,
}

fn heap_mode_requested() -> bool {
    cfg!(miri) || std::env::var("PCV_HEAPBUF").map(|v| v == "1").unwrap_or(false)
}

unsafe impl Send for GuardBuf {}

impl GuardBuf {
    pub fn new(usable_pages: usize) -> GuardBuf {
        let usable = usable_pages * PAGE;
        #[cfg(not(miri))]
        unsafe {
            let total = usable + 2 * PAGE;
            let p = sys::mmap(
                std::ptr::null_mut(),
                total,
                sys::PROT_READ | sys::PROT_WRITE,
                sys::MAP_PRIVATE | sys::MAP_ANONYMOUS,
                -1,
                0,
            );
            assert!(p as isize != -1 && !p.is_null(), "mmap failed");
            let base = p as *mut u8;
            assert_eq!(sys::mprotect(base as *mut _, PAGE, sys::PROT_NONE), 0);
            assert_eq!(sys::mprotect(base.add(PAGE + usable) as *mut _, PAGE, sys::PROT_NONE), 0);
            GuardBuf { base, usable, heap: Vec::new(), heap_mode: heap_mode_requested() }
        }
        #[cfg(miri)]
        {
            GuardBuf { usable, heap: Vec::new(), heap_mode: true }
        }
    }
    pub fn usable(&self) -> usize {
        self.usable
    }
    /// `len` bytes whose END is flush against the trailing guard page.
    pub fn tail(&mut self, len: usize) -> &mut [u8] {
        assert!(len <= self.usable);
        if self.heap_mode {
            // exact-size allocation: shrink_to_fit so that capacity == len
            let mut v = vec![0u8; len];
            v.shrink_to_fit();
            self.heap = v;
            return &mut self.heap[..];
        }
        #[cfg(not(miri))]
        unsafe {
            std::slice::from_raw_parts_mut(self.base.add(PAGE + self.usable - len), len)
        }
        #[cfg(miri)]
        {
            unreachable!()
        }
    }
    /// `len` bytes whose START is flush against the leading guard page.
    pub fn head(&mut self, len: usize) -> &mut [u8] {
        assert!(len <= self.usable);
        if self.heap_mode {
            let mut v = vec![0u8; len];
            v.shrink_to_fit();
            self.heap = v;
            return &mut self.heap[..];
        }
        #[cfg(not(miri))]
        unsafe {
            std::slice::from_raw_parts_mut(self.base.add(PAGE), len)
        }
        #[cfg(miri)]
        {
            unreachable!()
        }
    }
    /// Read back the `len` bytes last handed out by `tail` / `head` / `place` (same placement),
    /// through the buffer's own pointer (no integer-to-pointer round trip).
    pub fn peek(&self, at_tail: bool, len: usize) -> &[u8] {
        if self.heap_mode {
            return &self.heap[..len.min(self.heap.len())];
        }
        #[cfg(not(miri))]
        unsafe {
            let off = if at_tail { PAGE + self.usable - len } else { PAGE };
            std::slice::from_raw_parts(self.base.add(off), len)
        }
        #[cfg(miri)]
        {
            unreachable!()
        }
    }
    /// Copy `data` flush against the trailing (`at_tail`) or leading guard.
    pub fn place(&mut self, data: &[u8], at_tail: bool) -> &mut [u8] {
        let s = if at_tail { self.tail(data.len()) } else { self.head(data.len()) };
        s.copy_from_slice(data);
        s
    }
}

impl Drop for GuardBuf {
    fn drop(&mut self) {
        #[cfg(not(miri))]
        unsafe {
            sys::munmap(self.base as *mut _, self.usable + 2 * PAGE);
        }
    }
}

// ------------------------------------------------------------------ breadcrumbs

/// A small MAP_SHARED file: the case about to run is written here first, so that if the
/// process dies (SIGSEGV on a guard page, abort on allocation failure, stack overflow)
/// the orchestrator can recover the failing case.
pub struct Crumb {
    #[cfg(not(miri))]
    ptr: *mut u8,
    #[cfg(not(miri))]
    cap: usize,
}
unsafe impl Send for Crumb {}

pub const CRUMB_CAP: usize = 256 * 1024;

impl Crumb {
    pub fn disabled() -> Crumb {
        Crumb {
            #[cfg(not(miri))]
            ptr: std::ptr::null_mut(),
            #[cfg(not(miri))]
            cap: 0,
        }
    }
    pub fn open(path: &std::path::Path) -> Crumb {
        #[cfg(not(miri))]
        unsafe {
            let c = match std::ffi::CString::new(path.to_string_lossy().as_bytes()) {
                Ok(c) => c,
                Err(_) => return Crumb::disabled(),
            };
            let fd = sys::open(c.as_ptr(), sys::O_RDWR | sys::O_CREAT | sys::O_TRUNC, 0o644);
            if fd < 0 {
                return Crumb::disabled();
            }
            if sys::ftruncate(fd, CRUMB_CAP as i64) != 0 {
                sys::close(fd);
                return Crumb::disabled();
            }
            let p = sys::mmap(
                std::ptr::null_mut(),
                CRUMB_CAP,
                sys::PROT_READ | sys::PROT_WRITE,
                sys::MAP_SHARED,
                fd,
                0,
            );
            sys::close(fd);
            if p as isize == -1 || p.is_null() {
                return Crumb::disabled();
            }
            Crumb { ptr: p as *mut u8, cap: CRUMB_CAP }
        }
        #[cfg(miri)]
        {
            let _ = path;
            Crumb::disabled()
        }
    }
    /// Record the case that is about to run ("" clears).
    #[inline]
    pub fn set(&mut self, text: &str) {
        #[cfg(not(miri))]
        unsafe {
            if self.ptr.is_null() {
                return;
            }
            let b = text.as_bytes();
            let n = b.len().min(self.cap - 9);
            // length first set to 0, then payload, then real length: a torn write is never read as valid
            std::ptr::write_volatile(self.ptr as *mut u64, 0);
            std::ptr::copy_nonoverlapping(b.as_ptr(), self.ptr.add(8), n);
            std::ptr::write_volatile(self.ptr as *mut u64, n as u64);
        }
        #[cfg(miri)]
        {
            let _ = text;
        }
    }
    #[inline]
    pub fn clear(&mut self) {
        #[cfg(not(miri))]
        unsafe {
            if !self.ptr.is_null() {
                std::ptr::write_volatile(self.ptr as *mut u64, 0);
            }
        }
    }
}

/// Canary helper: a pattern-filled region with a window in the middle.
pub struct Canary {
    pub buf: Vec<u8>,
    pub pad: usize,
}
pub const CANARY_BYTE: u8 = 0xA5;
impl Canary {
    pub fn new(window: usize, pad: usize, fill: u8) -> Canary {
        let mut buf = vec![CANARY_BYTE; window + 2 * pad];
        for b in &mut buf[pad..pad + window] {
            *b = fill;
        }
        Canary { buf, pad }
    }
    pub fn window(&mut self) -> &mut [u8] {
        let n = self.buf.len();
        &mut self.buf[self.pad..n - self.pad]
    }
    pub fn intact(&self) -> bool {
        let n = self.buf.len();
        self.buf[..self.pad].iter().all(|b| *b == CANARY_BYTE) && self.buf[n - self.pad..].iter().all(|b| *b == CANARY_BYTE)
    }
}
