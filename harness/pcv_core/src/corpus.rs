//! Concrete Rust type corpus.  Each type gets a hand-written (macro-assisted) `HasShape`
//! description that is independent of postcard-schema; the `Recorder` cross-checks every
//! description against what the type's real `Serialize` impl does (a mismatch is a harness
//! error => inconclusive).  Values are obtained by decoding reference encodings of
//! generated `Val`s (see `corpus_value`).

use crate::model::*;
use serde::{Deserialize, Serialize};
use std::collections::{BTreeMap, BTreeSet, HashMap, HashSet, VecDeque};

pub trait HasShape {
    fn shape() -> Shape;
    /// true when the type's own `Deserialize` rejects some structurally valid encodings
    /// (NonZero = 0, capacity overflow, Duration overflow): such rejections are the type's
    /// refinement, not postcard's verdict.
    const REFINED: bool = false;
    /// true when decoding loses order / duplicates (maps and sets): decoded values are then
    /// compared by accept/reject and consumed length only.
    const UNORDERED: bool = false;
}

macro_rules! prim_shape {
    ($($t:ty => $s:expr),* $(,)?) => { $( impl HasShape for $t { fn shape() -> Shape { $s } } )* };
}
macro_rules! refined_shape {
    ($($t:ty => $s:expr),* $(,)?) => { $( impl HasShape for $t { fn shape() -> Shape { $s } const REFINED: bool = true; } )* };
}
prim_shape! {
    bool => Shape::Bool, i8 => Shape::I8, i16 => Shape::I16, i32 => Shape::I32, i64 => Shape::I64, i128 => Shape::I128,
    u8 => Shape::U8, u16 => Shape::U16, u32 => Shape::U32, u64 => Shape::U64, u128 => Shape::U128,
    usize => Shape::Usize, isize => Shape::Isize, f32 => Shape::F32, f64 => Shape::F64, char => Shape::Char,
    String => Shape::Str, () => Shape::Unit,
    std::path::PathBuf => Shape::Str,
}
refined_shape! {
    std::num::NonZeroU8 => Shape::U8, std::num::NonZeroU16 => Shape::U16, std::num::NonZeroU32 => Shape::U32,
    std::num::NonZeroU64 => Shape::U64, std::num::NonZeroU128 => Shape::U128, std::num::NonZeroUsize => Shape::Usize,
    std::num::NonZeroI8 => Shape::I8, std::num::NonZeroI16 => Shape::I16, std::num::NonZeroI32 => Shape::I32,
    std::num::NonZeroI64 => Shape::I64, std::num::NonZeroI128 => Shape::I128, std::num::NonZeroIsize => Shape::Isize,
}
impl<T: HasShape> HasShape for Option<T> {
    const REFINED: bool = T::REFINED;
    const UNORDERED: bool = T::UNORDERED;
    fn shape() -> Shape {
        Shape::Option(Box::new(T::shape()))
    }
}
impl<T: HasShape> HasShape for Vec<T> {
    const REFINED: bool = T::REFINED;
    const UNORDERED: bool = T::UNORDERED;
    fn shape() -> Shape {
        Shape::Seq(Box::new(T::shape()))
    }
}
impl<T: HasShape> HasShape for VecDeque<T> {
    const REFINED: bool = T::REFINED;
    const UNORDERED: bool = T::UNORDERED;
    fn shape() -> Shape {
        Shape::Seq(Box::new(T::shape()))
    }
}
impl<T: HasShape> HasShape for BTreeSet<T> {
    const REFINED: bool = T::REFINED;
    const UNORDERED: bool = true;
    fn shape() -> Shape {
        Shape::Seq(Box::new(T::shape()))
    }
}
impl<T: HasShape> HasShape for HashSet<T> {
    const REFINED: bool = T::REFINED;
    const UNORDERED: bool = true;
    fn shape() -> Shape {
        Shape::Seq(Box::new(T::shape()))
    }
}
impl<T: HasShape> HasShape for Box<[T]> {
    const REFINED: bool = T::REFINED;
    const UNORDERED: bool = T::UNORDERED;
    fn shape() -> Shape {
        Shape::Seq(Box::new(T::shape()))
    }
}
impl<T: HasShape> HasShape for Box<T> {
    const REFINED: bool = T::REFINED;
    const UNORDERED: bool = T::UNORDERED;
    fn shape() -> Shape {
        T::shape()
    }
}
impl<T: HasShape> HasShape for std::rc::Rc<T> {
    const REFINED: bool = T::REFINED;
    const UNORDERED: bool = T::UNORDERED;
    fn shape() -> Shape {
        T::shape()
    }
}
impl<T: HasShape> HasShape for std::sync::Arc<T> {
    const REFINED: bool = T::REFINED;
    const UNORDERED: bool = T::UNORDERED;
    fn shape() -> Shape {
        T::shape()
    }
}
impl HasShape for Box<str> {
    fn shape() -> Shape {
        Shape::Str
    }
}
impl HasShape for std::borrow::Cow<'static, str> {
    fn shape() -> Shape {
        Shape::Str
    }
}
impl<K: HasShape, V: HasShape> HasShape for BTreeMap<K, V> {
    const REFINED: bool = K::REFINED || V::REFINED;
    const UNORDERED: bool = true;
    fn shape() -> Shape {
        Shape::Map(Box::new(K::shape()), Box::new(V::shape()))
    }
}
impl<K: HasShape, V: HasShape> HasShape for HashMap<K, V> {
    const REFINED: bool = K::REFINED || V::REFINED;
    const UNORDERED: bool = true;
    fn shape() -> Shape {
        Shape::Map(Box::new(K::shape()), Box::new(V::shape()))
    }
}
impl<T: HasShape, const N: usize> HasShape for [T; N] {
    const REFINED: bool = T::REFINED;
    const UNORDERED: bool = T::UNORDERED;
    fn shape() -> Shape {
        Shape::Tuple((0..N).map(|_| T::shape()).collect())
    }
}
impl<T: HasShape, const N: usize> HasShape for heapless::Vec<T, N> {
    const REFINED: bool = true;
    const UNORDERED: bool = false;
    fn shape() -> Shape {
        Shape::Seq(Box::new(T::shape()))
    }
}
impl<const N: usize> HasShape for heapless::String<N> {
    const REFINED: bool = true;
    const UNORDERED: bool = false;
    fn shape() -> Shape {
        Shape::Str
    }
}
impl<T: HasShape, E: HasShape> HasShape for Result<T, E> {
    const REFINED: bool = T::REFINED || E::REFINED;
    const UNORDERED: bool = T::UNORDERED || E::UNORDERED;
    fn shape() -> Shape {
        Shape::Enum(
            "Result",
            vec![
                VariantShape { name: "Ok", data: VData::Newtype(Box::new(T::shape())) },
                VariantShape { name: "Err", data: VData::Newtype(Box::new(E::shape())) },
            ],
        )
    }
}
impl<T: HasShape> HasShape for std::ops::Range<T> {
    const REFINED: bool = T::REFINED;
    const UNORDERED: bool = T::UNORDERED;
    fn shape() -> Shape {
        Shape::Struct("Range", vec![("start", T::shape()), ("end", T::shape())])
    }
}
impl<T: HasShape> HasShape for std::ops::RangeInclusive<T> {
    const REFINED: bool = T::REFINED;
    const UNORDERED: bool = T::UNORDERED;
    fn shape() -> Shape {
        Shape::Struct("RangeInclusive", vec![("start", T::shape()), ("end", T::shape())])
    }
}
impl<T: HasShape> HasShape for std::ops::RangeFrom<T> {
    const REFINED: bool = T::REFINED;
    const UNORDERED: bool = T::UNORDERED;
    fn shape() -> Shape {
        Shape::Struct("RangeFrom", vec![("start", T::shape())])
    }
}
impl<T: HasShape> HasShape for std::ops::RangeTo<T> {
    const REFINED: bool = T::REFINED;
    const UNORDERED: bool = T::UNORDERED;
    fn shape() -> Shape {
        Shape::Struct("RangeTo", vec![("end", T::shape())])
    }
}
impl HasShape for std::time::Duration {
    const REFINED: bool = true;
    const UNORDERED: bool = false;
    fn shape() -> Shape {
        Shape::Struct("Duration", vec![("secs", Shape::U64), ("nanos", Shape::U32)])
    }
}
impl<T> HasShape for std::marker::PhantomData<T> {
    fn shape() -> Shape {
        Shape::UnitStruct("PhantomData")
    }
}
impl<T: HasShape> HasShape for std::num::Wrapping<T> {
    const REFINED: bool = T::REFINED;
    const UNORDERED: bool = T::UNORDERED;
    fn shape() -> Shape {
        T::shape()
    }
}
/// A type that asks for `deserialize_byte_buf` (like serde_bytes::ByteBuf): owned bytes.
#[derive(Debug, Clone, PartialEq)]
pub struct OwnedBytes(pub Vec<u8>);
impl Serialize for OwnedBytes {
    fn serialize<S: serde::Serializer>(&self, s: S) -> Result<S::Ok, S::Error> {
        s.serialize_bytes(&self.0)
    }
}
impl<'de> Deserialize<'de> for OwnedBytes {
    fn deserialize<D: serde::Deserializer<'de>>(d: D) -> Result<Self, D::Error> {
        struct V;
        impl<'de> serde::de::Visitor<'de> for V {
            type Value = OwnedBytes;
            fn expecting(&self, f: &mut std::fmt::Formatter) -> std::fmt::Result {
                f.write_str("byte buffer")
            }
            fn visit_bytes<E: serde::de::Error>(self, v: &[u8]) -> Result<OwnedBytes, E> {
                Ok(OwnedBytes(v.to_vec()))
            }
            fn visit_byte_buf<E: serde::de::Error>(self, v: Vec<u8>) -> Result<OwnedBytes, E> {
                Ok(OwnedBytes(v))
            }
        }
        d.deserialize_byte_buf(V)
    }
}
impl HasShape for OwnedBytes {
    fn shape() -> Shape {
        Shape::Bytes
    }
}
/// owned string through `deserialize_string`, owned char-less text
impl HasShape for std::ffi::CString {
    fn shape() -> Shape {
        Shape::Bytes
    }
    const REFINED: bool = true;
}

// std::net types choose their representation from is_human_readable(): compact here
impl HasShape for std::net::Ipv4Addr {
    fn shape() -> Shape {
        Shape::Tuple(vec![Shape::U8; 4])
    }
}
impl HasShape for std::net::Ipv6Addr {
    fn shape() -> Shape {
        Shape::Tuple(vec![Shape::U8; 16])
    }
}
impl HasShape for std::net::IpAddr {
    fn shape() -> Shape {
        Shape::Enum(
            "IpAddr",
            vec![
                VariantShape { name: "V4", data: VData::Newtype(Box::new(<std::net::Ipv4Addr as HasShape>::shape())) },
                VariantShape { name: "V6", data: VData::Newtype(Box::new(<std::net::Ipv6Addr as HasShape>::shape())) },
            ],
        )
    }
}
impl HasShape for std::net::SocketAddrV4 {
    fn shape() -> Shape {
        Shape::Tuple(vec![<std::net::Ipv4Addr as HasShape>::shape(), Shape::U16])
    }
}
impl HasShape for std::net::SocketAddr {
    fn shape() -> Shape {
        Shape::Enum(
            "SocketAddr",
            vec![
                VariantShape { name: "V4", data: VData::Newtype(Box::new(<std::net::SocketAddrV4 as HasShape>::shape())) },
                VariantShape {
                    name: "V6",
                    data: VData::Newtype(Box::new(Shape::Tuple(vec![<std::net::Ipv6Addr as HasShape>::shape(), Shape::U16]))),
                },
            ],
        )
    }
}

macro_rules! tuple_shape {
    ($( ($($n:ident),+) ),*) => { $(
        impl<$($n: HasShape),+> HasShape for ($($n,)+) {
            fn shape() -> Shape { Shape::Tuple(vec![$($n::shape()),+]) }
            const REFINED: bool = false $(|| $n::REFINED)+;
            const UNORDERED: bool = false $(|| $n::UNORDERED)+;
        }
    )* };
}
tuple_shape!(
    (A),
    (A, B),
    (A, B, C),
    (A, B, C, D),
    (A, B, C, D, E),
    (A, B, C, D, E, F),
    (A, B, C, D, E, F, G),
    (A, B, C, D, E, F, G, H),
    (A, B, C, D, E, F, G, H, I, J, K, L)
);

/// Define corpus structs / enums together with their `HasShape`.
#[macro_export]
macro_rules! corpus_types {
    () => {};
    (#[derives($($d:path),*)] struct $name:ident { $($f:ident : $t:ty),* $(,)? } $($rest:tt)*) => {
        #[derive($($d),*)]
        pub struct $name { $(pub $f: $t),* }
        impl $crate::corpus::HasShape for $name {
            fn shape() -> $crate::model::Shape {
                $crate::model::Shape::Struct(stringify!($name), vec![$((stringify!($f), <$t as $crate::corpus::HasShape>::shape())),*])
            }
            const REFINED: bool = false $(|| <$t as $crate::corpus::HasShape>::REFINED)*;
            const UNORDERED: bool = false $(|| <$t as $crate::corpus::HasShape>::UNORDERED)*;
        }
        $crate::corpus_types!($($rest)*);
    };
    (#[derives($($d:path),*)] struct $name:ident ( $($t:ty),* $(,)? ); $($rest:tt)*) => {
        #[derive($($d),*)]
        pub struct $name ( $(pub $t),* );
        impl $crate::corpus::HasShape for $name {
            fn shape() -> $crate::model::Shape {
                let f: Vec<$crate::model::Shape> = vec![$(<$t as $crate::corpus::HasShape>::shape()),*];
                if f.len() == 1 {
                    $crate::model::Shape::NewtypeStruct(stringify!($name), Box::new(f.into_iter().next().unwrap()))
                } else {
                    $crate::model::Shape::TupleStruct(stringify!($name), f)
                }
            }
            const REFINED: bool = false $(|| <$t as $crate::corpus::HasShape>::REFINED)*;
            const UNORDERED: bool = false $(|| <$t as $crate::corpus::HasShape>::UNORDERED)*;
        }
        $crate::corpus_types!($($rest)*);
    };
    (#[derives($($d:path),*)] struct $name:ident ; $($rest:tt)*) => {
        #[derive($($d),*)]
        pub struct $name;
        impl $crate::corpus::HasShape for $name {
            fn shape() -> $crate::model::Shape { $crate::model::Shape::UnitStruct(stringify!($name)) }
        }
        $crate::corpus_types!($($rest)*);
    };
    (#[derives($($d:path),*)] enum $name:ident { $( $v:ident $( ( $($vt:ty),* ) )? $( { $($vf:ident : $vft:ty),* $(,)? } )? ),* $(,)? } $($rest:tt)*) => {
        #[derive($($d),*)]
        pub enum $name { $( $v $( ( $($vt),* ) )? $( { $($vf : $vft),* } )? ),* }
        impl $crate::corpus::HasShape for $name {
            fn shape() -> $crate::model::Shape {
                #[allow(unused_mut, unused_assignments)]
                let vs = vec![$({
                    let mut data = $crate::model::VData::Unit;
                    $(
                        let f: Vec<$crate::model::Shape> = vec![$(<$vt as $crate::corpus::HasShape>::shape()),*];
                        data = if f.len() == 1 {
                            $crate::model::VData::Newtype(Box::new(f.into_iter().next().unwrap()))
                        } else {
                            $crate::model::VData::Tuple(f)
                        };
                    )?
                    $(
                        data = $crate::model::VData::Struct(vec![$((stringify!($vf), <$vft as $crate::corpus::HasShape>::shape())),*]);
                    )?
                    $crate::model::VariantShape { name: stringify!($v), data }
                }),*];
                $crate::model::Shape::Enum(stringify!($name), vs)
            }
            const REFINED: bool = false $( $( $(|| <$vt as $crate::corpus::HasShape>::REFINED)* )? $( $(|| <$vft as $crate::corpus::HasShape>::REFINED)* )? )*;
            const UNORDERED: bool = false $( $( $(|| <$vt as $crate::corpus::HasShape>::UNORDERED)* )? $( $(|| <$vft as $crate::corpus::HasShape>::UNORDERED)* )? )*;
        }
        $crate::corpus_types!($($rest)*);
    };
}

corpus_types! {
    #[derives(Serialize, Deserialize, Debug, Clone, PartialEq)]
    struct Prims { a: bool, b: u8, c: i8, d: u16, e: i16, f: u32, g: i32, h: u64, i: i64, j: u128, k: i128, l: f32, m: f64, n: char }

    #[derives(Serialize, Deserialize, Debug, Clone, PartialEq)]
    struct PtrSized { u: usize, i: isize, o: Option<usize> }

    #[derives(Serialize, Deserialize, Debug, Clone, PartialEq)]
    struct Strs { s: String, b: Box<str>, v: Vec<u8>, o: Option<String>, e: Vec<String> }

    #[derives(Serialize, Deserialize, Debug, Clone, PartialEq)]
    struct UnitS;

    #[derives(Serialize, Deserialize, Debug, Clone, PartialEq)]
    struct NewT(u32);

    #[derives(Serialize, Deserialize, Debug, Clone, PartialEq)]
    struct TupS(u8, i64, String);

    #[derives(Serialize, Deserialize, Debug, Clone, PartialEq)]
    struct Empty0();

    #[derives(Serialize, Deserialize, Debug, Clone, PartialEq)]
    struct EmptyNamed {}

    #[derives(Serialize, Deserialize, Debug, Clone, PartialEq)]
    enum Basic { A, B, C }

    #[derives(Serialize, Deserialize, Debug, Clone, PartialEq)]
    enum Data { Unit, New(u16), Tup(u8, i32), Rec { a: u64, b: Option<bool> }, Zero(), ZeroRec {}, Nested(Basic), Str(String), One { only: u32 } }

    #[derives(Serialize, Deserialize, Debug, Clone, PartialEq)]
    struct Nested { p: Prims, d: Data, v: Vec<Data>, o: Option<Box<NewT>>, t: (u8, (u16, u32), [i16; 3]), u: UnitS }

    #[derives(Serialize, Deserialize, Debug, Clone, PartialEq)]
    struct Colls { m: BTreeMap<u16, String>, h: HashMap<String, u8>, s: BTreeSet<i32>, q: VecDeque<u64>, z: Vec<()> }

    #[derives(Serialize, Deserialize, Debug, Clone, PartialEq)]
    struct Heap { v: heapless::Vec<u16, 8>, s: heapless::String<12>, e: heapless::Vec<u8, 0> }

    #[derives(Serialize, Deserialize, Debug, Clone, PartialEq)]
    struct Std { r: std::ops::Range<u32>, ri: std::ops::RangeInclusive<i8>, d: std::time::Duration, nz: std::num::NonZeroU32, res: Result<u8, String>, w: std::num::Wrapping<i16>, ph: std::marker::PhantomData<u64> }

    #[derives(Serialize, Deserialize, Debug, Clone, PartialEq)]
    struct Ptrs { b: Box<u64>, r: std::rc::Rc<String>, a: std::sync::Arc<(u8, u8)>, c: std::borrow::Cow<'static, str> }

    #[derives(Serialize, Deserialize, Debug, Clone, PartialEq)]
    struct Arrays { a0: [u8; 0], a1: [u16; 1], a4: [i32; 4], a32: [u8; 32], t12: (u8, u8, u8, u8, u8, u8, u8, u8, u8, u8, u8, u16) }

    #[derives(Serialize, Deserialize, Debug, Clone, PartialEq)]
    struct Opts { a: Option<Option<u8>>, b: Option<()>, c: Option<Vec<Option<bool>>>, d: Result<Option<u8>, ()> }

    #[derives(Serialize, Deserialize, Debug, Clone, PartialEq)]
    struct Floats { a: f32, b: f64, c: Vec<f32>, d: Option<f64>, e: [f64; 2] }
}

include!("corpus_big.rs");

/// Produce a value of `T` by decoding the reference encoding of a generated `Val`.
/// Returns None when the generated value is not representable by `T` (NonZero = 0,
/// heapless overflow, duplicate set members are fine).  A decode failure of a *valid*
/// encoding is C03's business; here it only means "try another value".
pub fn corpus_value<T>(shape: &Shape, g: &mut crate::gen::ValGen) -> Option<(T, Vec<u8>)>
where
    T: for<'de> Deserialize<'de>,
{
    for _ in 0..8 {
        let v = g.gen(shape);
        let bytes = crate::spec::encode(&v);
        if let Ok((t, rest)) = postcard::take_from_bytes::<T>(&bytes) {
            if rest.is_empty() {
                return Some((t, bytes));
            }
        }
    }
    None
}

/// Invoke `$m!(Type)` for every owned corpus type.
#[macro_export]
macro_rules! for_each_corpus_type {
    ($m:ident) => {
        $m!(bool); $m!(u8); $m!(i8); $m!(u16); $m!(i16); $m!(u32); $m!(i32); $m!(u64); $m!(i64); $m!(u128); $m!(i128);
        $m!(usize); $m!(isize); $m!(f32); $m!(f64); $m!(char); $m!(String); $m!(());
        $m!(Option<u8>); $m!(Option<Option<u16>>); $m!(Option<String>); $m!(Option<()>);
        $m!(Vec<u8>); $m!(Vec<u64>); $m!(Vec<String>); $m!(Vec<()>); $m!(Vec<Vec<u16>>); $m!(Vec<Option<i32>>); $m!(Box<[u8]>);
        $m!((u8, u16)); $m!((u8,)); $m!([u8; 0]); $m!([u8; 1]); $m!([u32; 4]);
        $m!(std::collections::BTreeMap<u8, u8>); $m!(std::collections::BTreeMap<String, Vec<u8>>);
        $m!(std::collections::HashMap<u16, i64>); $m!(std::collections::BTreeSet<u16>); $m!(std::collections::VecDeque<i8>);
        $m!(heapless::Vec<u8, 4>); $m!(heapless::Vec<u32, 16>); $m!(heapless::String<8>);
        $m!(Result<u16, String>); $m!(std::num::NonZeroU16); $m!(std::num::NonZeroI64); $m!(std::time::Duration);
        $m!(std::ops::Range<u16>); $m!(Box<str>); $m!(std::path::PathBuf);
        $m!(std::net::Ipv4Addr); $m!(std::net::Ipv6Addr); $m!(std::net::IpAddr); $m!(std::net::SocketAddrV4); $m!(std::net::SocketAddr);
        $m!(Vec<std::net::IpAddr>); $m!(Option<std::net::Ipv4Addr>);
        $m!($crate::corpus::OwnedBytes); $m!(std::ffi::CString); $m!(Vec<$crate::corpus::OwnedBytes>);
        $m!($crate::corpus::Prims); $m!($crate::corpus::PtrSized); $m!($crate::corpus::Strs); $m!($crate::corpus::UnitS);
        $m!($crate::corpus::NewT); $m!($crate::corpus::TupS); $m!($crate::corpus::Empty0); $m!($crate::corpus::EmptyNamed);
        $m!($crate::corpus::Basic); $m!($crate::corpus::Data); $m!($crate::corpus::Nested); $m!($crate::corpus::Colls);
        $m!($crate::corpus::Heap); $m!($crate::corpus::Std); $m!($crate::corpus::Ptrs); $m!($crate::corpus::Arrays);
        $m!($crate::corpus::Opts); $m!($crate::corpus::Floats);
        $m!($crate::corpus::E127); $m!($crate::corpus::E128); $m!($crate::corpus::E129); $m!($crate::corpus::E300);
    };
}
