use pcv_core::{checks, cli, mem, run::Report};

fn main() {
    // child mode of C04's recursion probe: decode one hostile input into a recursive type and report by exit status
    let argv: Vec<String> = std::env::args().collect();
    if argv.get(1).map(|s| s.as_str()) == Some("RECPROBE") {
        let kind = argv.get(2).cloned().unwrap_or_default();
        let depth: usize = argv.get(3).and_then(|s| s.parse().ok()).unwrap_or(0);
        std::process::exit(checks::recprobe_child(&kind, depth));
    }
    let cfg = match cli::parse_args() {
        Ok(c) => c,
        Err(e) => {
            eprintln!("{}", e);
            std::process::exit(3);
        }
    };
    if cfg.prop == "NOOP" {
        return;
    }
    pcv_core::run::mark_start();
    mem::install_panic_hook();
    let _ = std::fs::create_dir_all(&cfg.out_dir);
    let t0 = std::time::Instant::now();
    // under the interpreter the self-check of the reference oracles (tens of seconds there) is left to the
    // native stage of the same check, which runs it on every invocation
    let oracle = if cfg!(miri) { Ok(pcv_core::json::J::s("performed by the native stage")) } else { checks::oracle_selfcheck(&cfg) };
    let mut rep = match checks::dispatch(&cfg) {
        Some(r) => r,
        None => {
            eprintln!("unknown property {}", cfg.prop);
            std::process::exit(3);
        }
    };
    match oracle {
        Ok(j) => {
            rep.extra.insert("oracle_selfcheck".into(), j);
        }
        Err(e) => rep.stats.inconclusive(format!("oracle self-check failed: {}", e)),
    }
    finish(rep, &cfg, t0);
}

fn finish(rep: Report, cfg: &pcv_core::run::Cfg, t0: std::time::Instant) {
    let (nviol, inconclusive) = rep.finish(cfg, t0.elapsed().as_secs_f64());
    // exit code: 1 violations, 2 inconclusive, 0 ok (the orchestrator reads the JSON)
    if nviol > 0 {
        std::process::exit(1);
    }
    if inconclusive {
        std::process::exit(2);
    }
}
