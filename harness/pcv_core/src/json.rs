//! Minimal JSON writer (evidence / result files).  No parser: replay files are
//! `key: value` text (see run.rs).

use std::collections::BTreeMap;

#[derive(Clone, Debug)]
pub enum J {
    Null,
    Bool(bool),
    Int(i128),
    Num(f64),
    Str(String),
    Arr(Vec<J>),
    Obj(BTreeMap<String, J>),
}

impl J {
    pub fn obj() -> J {
        J::Obj(BTreeMap::new())
    }
    pub fn set(&mut self, k: &str, v: J) -> &mut J {
        if let J::Obj(m) = self {
            m.insert(k.to_string(), v);
        }
        self
    }
    pub fn s(x: impl Into<String>) -> J {
        J::Str(x.into())
    }
    pub fn i(x: impl TryInto<i128>) -> J {
        J::Int(x.try_into().ok().unwrap_or(0))
    }
    pub fn write(&self, out: &mut String) {
        match self {
            J::Null => out.push_str("null"),
            J::Bool(b) => out.push_str(if *b { "true" } else { "false" }),
            J::Int(i) => out.push_str(&i.to_string()),
            J::Num(f) => {
                if f.is_finite() {
                    out.push_str(&format!("{}", f))
                } else {
                    out.push_str("null")
                }
            }
            J::Str(s) => write_str(s, out),
            J::Arr(a) => {
                out.push('[');
                for (i, x) in a.iter().enumerate() {
                    if i > 0 {
                        out.push(',');
                    }
                    x.write(out);
                }
                out.push(']');
            }
            J::Obj(m) => {
                out.push('{');
                for (i, (k, v)) in m.iter().enumerate() {
                    if i > 0 {
                        out.push(',');
                    }
                    write_str(k, out);
                    out.push(':');
                    v.write(out);
                }
                out.push('}');
            }
        }
    }
    pub fn to_string(&self) -> String {
        let mut s = String::new();
        self.write(&mut s);
        s
    }
}

fn write_str(s: &str, out: &mut String) {
    out.push('"');
    for c in s.chars() {
        match c {
            '"' => out.push_str("\\\""),
            '\\' => out.push_str("\\\\"),
            '\n' => out.push_str("\\n"),
            '\r' => out.push_str("\\r"),
            '\t' => out.push_str("\\t"),
            c if (c as u32) < 0x20 => out.push_str(&format!("\\u{:04x}", c as u32)),
            c => out.push(c),
        }
    }
    out.push('"');
}

pub fn hex(b: &[u8]) -> String {
    let mut s = String::with_capacity(b.len() * 2);
    for x in b {
        s.push_str(&format!("{:02x}", x));
    }
    s
}
pub fn unhex(s: &str) -> Option<Vec<u8>> {
    let s = s.trim();
    if s.len() % 2 != 0 {
        return None;
    }
    let mut v = Vec::with_capacity(s.len() / 2);
    let b = s.as_bytes();
    for i in (0..b.len()).step_by(2) {
        let h = (b[i] as char).to_digit(16)?;
        let l = (b[i + 1] as char).to_digit(16)?;
        v.push((h * 16 + l) as u8);
    }
    Some(v)
}
