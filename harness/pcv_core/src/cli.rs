//! Command line shared by the worker binaries.
use crate::run::{Cfg, Tier};
use std::collections::BTreeMap;
use std::path::PathBuf;

pub fn parse_args() -> Result<Cfg, String> {
    let mut args = std::env::args().skip(1);
    let prop = args.next().ok_or("usage: <PROP> [--tier tiny|quick|thorough] [--seed N] [--threads N] [--out DIR] [--replay FILE] [--stage NAME] [--set k=v]")?;
    let mut cfg = Cfg {
        prop,
        tier: Tier::Quick,
        seed: 1,
        threads: std::thread::available_parallelism().map(|n| n.get()).unwrap_or(4),
        out_dir: PathBuf::from("."),
        replay: None,
        knobs: BTreeMap::new(),
        stage: "native".into(),
        repo: PathBuf::from("/repo"),
    };
    while let Some(a) = args.next() {
        let mut val = || args.next().ok_or(format!("missing value for {}", a));
        match a.as_str() {
            "--tier" => {
                cfg.tier = match val()?.as_str() {
                    "tiny" => Tier::Tiny,
                    "quick" => Tier::Quick,
                    "thorough" => Tier::Thorough,
                    o => return Err(format!("bad tier {}", o)),
                }
            }
            "--seed" => cfg.seed = val()?.parse().map_err(|e| format!("seed: {}", e))?,
            "--threads" => cfg.threads = val()?.parse().map_err(|e| format!("threads: {}", e))?,
            "--out" => cfg.out_dir = PathBuf::from(val()?),
            "--replay" => cfg.replay = Some(PathBuf::from(val()?)),
            "--stage" => cfg.stage = val()?,
            "--repo" => cfg.repo = PathBuf::from(val()?),
            "--set" => {
                let kv = val()?;
                let (k, v) = kv.split_once('=').ok_or("--set k=v")?;
                cfg.knobs.insert(k.to_string(), v.to_string());
            }
            o => return Err(format!("unknown argument {}", o)),
        }
    }
    Ok(cfg)
}
