//! pcv_core: runtime-monitoring harness for postcard (properties C01-C13, C20).
pub mod bridge;
pub mod corpus;
pub mod gen;
pub mod json;
pub mod mem;
pub mod model;
pub mod refs;
pub mod rng;
pub mod run;
pub mod spec;
pub mod cli;
pub mod checks;

#[global_allocator]
static GLOBAL: mem::CountingAlloc = mem::CountingAlloc;
