//! Run-time model of the serde data model: `Shape` (a type) and `Val` (a value of the
//! 29 serde kinds, self-describing enough to be encoded without its shape), plus a
//! compact text syntax for shapes (used in replay files and evidence samples).

pub type Name = &'static str;

#[derive(Clone, Debug, PartialEq, Eq, Hash)]
pub enum Shape {
    Bool,
    I8,
    I16,
    I32,
    I64,
    I128,
    U8,
    U16,
    U32,
    U64,
    U128,
    /// pointer-sized markers: serde sees u64 / i64 on this host
    Usize,
    Isize,
    F32,
    F64,
    Char,
    Str,
    Bytes,
    Option(Box<Shape>),
    Unit,
    UnitStruct(Name),
    NewtypeStruct(Name, Box<Shape>),
    Seq(Box<Shape>),
    Tuple(Vec<Shape>),
    TupleStruct(Name, Vec<Shape>),
    Map(Box<Shape>, Box<Shape>),
    Struct(Name, Vec<(Name, Shape)>),
    Enum(Name, Vec<VariantShape>),
}

#[derive(Clone, Debug, PartialEq, Eq, Hash)]
pub struct VariantShape {
    pub name: Name,
    pub data: VData,
}

#[derive(Clone, Debug, PartialEq, Eq, Hash)]
pub enum VData {
    Unit,
    Newtype(Box<Shape>),
    Tuple(Vec<Shape>),
    Struct(Vec<(Name, Shape)>),
}

/// A value of the serde data model.  Floats are kept as bit patterns so equality is
/// bit-for-bit.
#[derive(Clone, Debug, PartialEq, Eq, Hash)]
pub enum Val {
    Bool(bool),
    I8(i8),
    I16(i16),
    I32(i32),
    I64(i64),
    I128(i128),
    U8(u8),
    U16(u16),
    U32(u32),
    U64(u64),
    U128(u128),
    F32(u32),
    F64(u64),
    Char(char),
    Str(String),
    Bytes(Vec<u8>),
    None,
    Some(Box<Val>),
    Unit,
    UnitStruct(Name),
    NewtypeStruct(Name, Box<Val>),
    Seq(Vec<Val>),
    Tuple(Vec<Val>),
    TupleStruct(Name, Vec<Val>),
    Map(Vec<(Val, Val)>),
    Struct(Name, Vec<(Name, Val)>),
    UnitVariant(Name, u32, Name),
    NewtypeVariant(Name, u32, Name, Box<Val>),
    TupleVariant(Name, u32, Name, Vec<Val>),
    StructVariant(Name, u32, Name, Vec<(Name, Val)>),
}

// ---------------------------------------------------------------------------------
// static name pools (serde needs &'static str)

pub const FIELD_POOL: [&str; 64] = [
    "f0", "f1", "f2", "f3", "f4", "f5", "f6", "f7", "f8", "f9", "f10", "f11", "f12", "f13", "f14", "f15", "f16",
    "f17", "f18", "f19", "f20", "f21", "f22", "f23", "f24", "f25", "f26", "f27", "f28", "f29", "f30", "f31", "f32",
    "f33", "f34", "f35", "f36", "f37", "f38", "f39", "f40", "f41", "f42", "f43", "f44", "f45", "f46", "f47", "f48",
    "f49", "f50", "f51", "f52", "f53", "f54", "f55", "f56", "f57", "f58", "f59", "f60", "f61", "f62", "f63",
];
pub const FIELD_POOL_ALT: [&str; 64] = [
    "alpha", "beta", "gamma", "delta", "eps", "zeta", "eta", "theta", "iota", "kappa", "lambda", "mu", "nu", "xi",
    "omicron", "pi", "rho", "sigma", "tau", "upsilon", "phi", "chi", "psi", "omega", "a24", "a25", "a26", "a27",
    "a28", "a29", "a30", "a31", "a32", "a33", "a34", "a35", "a36", "a37", "a38", "a39", "a40", "a41", "a42", "a43",
    "a44", "a45", "a46", "a47", "a48", "a49", "a50", "a51", "a52", "a53", "a54", "a55", "a56", "a57", "a58", "a59",
    "a60", "a61", "a62", "a63",
];
pub const TYPE_POOL: [&str; 16] = [
    "T0", "T1", "T2", "T3", "T4", "T5", "T6", "T7", "T8", "T9", "Ta", "Tb", "Tc", "Td", "Te", "Tf",
];
pub const TYPE_POOL_ALT: [&str; 16] = [
    "Alpha", "Bravo", "Charlie", "Delta", "Echo", "Foxtrot", "Golf", "Hotel", "India", "Juliet", "Kilo", "Lima",
    "Mike", "November", "Oscar", "Papa",
];

/// `&'static [&'static str]` of length n for serde's `fields` / `variants` parameters.
pub fn static_names(n: usize) -> &'static [&'static str] {
    static BIG: std::sync::OnceLock<Vec<&'static str>> = std::sync::OnceLock::new();
    let v = BIG.get_or_init(|| {
        let mut v: Vec<&'static str> = Vec::new();
        for i in 0..4096 {
            if i < 64 {
                v.push(FIELD_POOL[i]);
            } else {
                v.push("x");
            }
        }
        v
    });
    &v[..n.min(v.len())]
}

/// Force the lazily built name pools (so their one-off allocations never fall inside a
/// monitored window).
pub fn warm_up() {
    let _ = static_names(1);
    let _ = variant_name(0);
    let _ = variant_name_alt(0);
    let _ = intern("warm");
}

pub fn variant_name(i: usize) -> &'static str {
    static NAMES: std::sync::OnceLock<Vec<&'static str>> = std::sync::OnceLock::new();
    let v = NAMES.get_or_init(|| (0..600).map(|i| &*Box::leak(format!("V{}", i).into_boxed_str())).collect());
    v[i % v.len()]
}
pub fn variant_name_alt(i: usize) -> &'static str {
    static NAMES: std::sync::OnceLock<Vec<&'static str>> = std::sync::OnceLock::new();
    let v = NAMES.get_or_init(|| (0..600).map(|i| &*Box::leak(format!("Var_{}_x", i).into_boxed_str())).collect());
    v[i % v.len()]
}

// ---------------------------------------------------------------------------------

impl Shape {
    /// number of nodes
    pub fn nodes(&self) -> usize {
        match self {
            Shape::Option(a) | Shape::NewtypeStruct(_, a) | Shape::Seq(a) => 1 + a.nodes(),
            Shape::Tuple(v) | Shape::TupleStruct(_, v) => 1 + v.iter().map(|s| s.nodes()).sum::<usize>(),
            Shape::Map(k, v) => 1 + k.nodes() + v.nodes(),
            Shape::Struct(_, f) => 1 + f.iter().map(|(_, s)| s.nodes()).sum::<usize>(),
            Shape::Enum(_, vs) => {
                1 + vs
                    .iter()
                    .map(|v| match &v.data {
                        VData::Unit => 1,
                        VData::Newtype(s) => 1 + s.nodes(),
                        VData::Tuple(v) => 1 + v.iter().map(|s| s.nodes()).sum::<usize>(),
                        VData::Struct(f) => 1 + f.iter().map(|(_, s)| s.nodes()).sum::<usize>(),
                    })
                    .sum::<usize>()
            }
            _ => 1,
        }
    }

    /// Minimum number of wire bytes a value of this shape occupies (0 = zero-width possible).
    pub fn min_wire(&self) -> usize {
        match self {
            Shape::Bool | Shape::I8 | Shape::U8 => 1,
            Shape::I16 | Shape::I32 | Shape::I64 | Shape::I128 => 1,
            Shape::U16 | Shape::U32 | Shape::U64 | Shape::U128 | Shape::Usize | Shape::Isize => 1,
            Shape::F32 => 4,
            Shape::F64 => 8,
            Shape::Char => 2,
            Shape::Str | Shape::Bytes | Shape::Seq(_) | Shape::Map(_, _) | Shape::Option(_) => 1,
            Shape::Unit | Shape::UnitStruct(_) => 0,
            Shape::NewtypeStruct(_, a) => a.min_wire(),
            Shape::Tuple(v) | Shape::TupleStruct(_, v) => v.iter().map(|s| s.min_wire()).sum(),
            Shape::Struct(_, f) => f.iter().map(|(_, s)| s.min_wire()).sum(),
            Shape::Enum(_, vs) => {
                if vs.is_empty() {
                    1
                } else {
                    1
                }
            }
        }
    }

    /// Does this shape contain a sequence / map whose element may be zero-width?  (C04's
    /// allocation bound is not claimed for those.)
    pub fn has_zero_width_collection(&self) -> bool {
        match self {
            Shape::Seq(e) => e.min_wire() == 0 || e.has_zero_width_collection(),
            Shape::Map(k, v) => {
                (k.min_wire() + v.min_wire()) == 0 || k.has_zero_width_collection() || v.has_zero_width_collection()
            }
            Shape::Option(a) | Shape::NewtypeStruct(_, a) => a.has_zero_width_collection(),
            Shape::Tuple(v) | Shape::TupleStruct(_, v) => v.iter().any(|s| s.has_zero_width_collection()),
            Shape::Struct(_, f) => f.iter().any(|(_, s)| s.has_zero_width_collection()),
            Shape::Enum(_, vs) => vs.iter().any(|v| match &v.data {
                VData::Unit => false,
                VData::Newtype(s) => s.has_zero_width_collection(),
                VData::Tuple(v) => v.iter().any(|s| s.has_zero_width_collection()),
                VData::Struct(f) => f.iter().any(|(_, s)| s.has_zero_width_collection()),
            }),
            _ => false,
        }
    }

    pub fn has_map(&self) -> bool {
        match self {
            Shape::Map(_, _) => true,
            Shape::Seq(a) | Shape::Option(a) | Shape::NewtypeStruct(_, a) => a.has_map(),
            Shape::Tuple(v) | Shape::TupleStruct(_, v) => v.iter().any(|s| s.has_map()),
            Shape::Struct(_, f) => f.iter().any(|(_, s)| s.has_map()),
            Shape::Enum(_, vs) => vs.iter().any(|v| match &v.data {
                VData::Unit => false,
                VData::Newtype(s) => s.has_map(),
                VData::Tuple(v) => v.iter().any(|s| s.has_map()),
                VData::Struct(f) => f.iter().any(|(_, s)| s.has_map()),
            }),
            _ => false,
        }
    }

    /// kind label for coverage counters
    pub fn kind(&self) -> &'static str {
        match self {
            Shape::Bool => "bool",
            Shape::I8 => "i8",
            Shape::I16 => "i16",
            Shape::I32 => "i32",
            Shape::I64 => "i64",
            Shape::I128 => "i128",
            Shape::U8 => "u8",
            Shape::U16 => "u16",
            Shape::U32 => "u32",
            Shape::U64 => "u64",
            Shape::U128 => "u128",
            Shape::Usize => "usize",
            Shape::Isize => "isize",
            Shape::F32 => "f32",
            Shape::F64 => "f64",
            Shape::Char => "char",
            Shape::Str => "str",
            Shape::Bytes => "bytes",
            Shape::Option(_) => "option",
            Shape::Unit => "unit",
            Shape::UnitStruct(_) => "unit_struct",
            Shape::NewtypeStruct(_, _) => "newtype_struct",
            Shape::Seq(_) => "seq",
            Shape::Tuple(_) => "tuple",
            Shape::TupleStruct(_, _) => "tuple_struct",
            Shape::Map(_, _) => "map",
            Shape::Struct(_, _) => "struct",
            Shape::Enum(_, _) => "enum",
        }
    }

    /// visit all nodes
    pub fn walk(&self, f: &mut dyn FnMut(&Shape)) {
        f(self);
        match self {
            Shape::Option(a) | Shape::NewtypeStruct(_, a) | Shape::Seq(a) => a.walk(f),
            Shape::Tuple(v) | Shape::TupleStruct(_, v) => v.iter().for_each(|s| s.walk(f)),
            Shape::Map(k, v) => {
                k.walk(f);
                v.walk(f)
            }
            Shape::Struct(_, fl) => fl.iter().for_each(|(_, s)| s.walk(f)),
            Shape::Enum(_, vs) => vs.iter().for_each(|v| match &v.data {
                VData::Unit => {}
                VData::Newtype(s) => s.walk(f),
                VData::Tuple(v) => v.iter().for_each(|s| s.walk(f)),
                VData::Struct(fl) => fl.iter().for_each(|(_, s)| s.walk(f)),
            }),
            _ => {}
        }
    }
}

impl Val {
    /// serde kind label (29 kinds) for coverage counters
    pub fn kind(&self) -> &'static str {
        match self {
            Val::Bool(_) => "bool",
            Val::I8(_) => "i8",
            Val::I16(_) => "i16",
            Val::I32(_) => "i32",
            Val::I64(_) => "i64",
            Val::I128(_) => "i128",
            Val::U8(_) => "u8",
            Val::U16(_) => "u16",
            Val::U32(_) => "u32",
            Val::U64(_) => "u64",
            Val::U128(_) => "u128",
            Val::F32(_) => "f32",
            Val::F64(_) => "f64",
            Val::Char(_) => "char",
            Val::Str(_) => "string",
            Val::Bytes(_) => "byte_array",
            Val::None | Val::Some(_) => "option",
            Val::Unit => "unit",
            Val::UnitStruct(_) => "unit_struct",
            Val::NewtypeStruct(_, _) => "newtype_struct",
            Val::Seq(_) => "seq",
            Val::Tuple(_) => "tuple",
            Val::TupleStruct(_, _) => "tuple_struct",
            Val::Map(_) => "map",
            Val::Struct(_, _) => "struct",
            Val::UnitVariant(..) => "unit_variant",
            Val::NewtypeVariant(..) => "newtype_variant",
            Val::TupleVariant(..) => "tuple_variant",
            Val::StructVariant(..) => "struct_variant",
        }
    }

    pub fn walk(&self, f: &mut dyn FnMut(&Val)) {
        f(self);
        match self {
            Val::Some(a) | Val::NewtypeStruct(_, a) | Val::NewtypeVariant(_, _, _, a) => a.walk(f),
            Val::Seq(v) | Val::Tuple(v) | Val::TupleStruct(_, v) | Val::TupleVariant(_, _, _, v) => {
                v.iter().for_each(|x| x.walk(f))
            }
            Val::Map(m) => m.iter().for_each(|(k, v)| {
                k.walk(f);
                v.walk(f)
            }),
            Val::Struct(_, fl) | Val::StructVariant(_, _, _, fl) => fl.iter().for_each(|(_, x)| x.walk(f)),
            _ => {}
        }
    }

    /// compact rendering for samples
    pub fn show(&self) -> String {
        let mut s = String::new();
        self.show_into(&mut s, 400);
        s
    }
    fn show_into(&self, out: &mut String, lim: usize) {
        if out.len() > lim {
            if !out.ends_with("..") {
                out.push_str("..");
            }
            return;
        }
        match self {
            Val::Bool(b) => out.push_str(&format!("{}", b)),
            Val::I8(x) => out.push_str(&format!("{}i8", x)),
            Val::I16(x) => out.push_str(&format!("{}i16", x)),
            Val::I32(x) => out.push_str(&format!("{}i32", x)),
            Val::I64(x) => out.push_str(&format!("{}i64", x)),
            Val::I128(x) => out.push_str(&format!("{}i128", x)),
            Val::U8(x) => out.push_str(&format!("{}u8", x)),
            Val::U16(x) => out.push_str(&format!("{}u16", x)),
            Val::U32(x) => out.push_str(&format!("{}u32", x)),
            Val::U64(x) => out.push_str(&format!("{}u64", x)),
            Val::U128(x) => out.push_str(&format!("{}u128", x)),
            Val::F32(b) => out.push_str(&format!("f32#{:08x}", b)),
            Val::F64(b) => out.push_str(&format!("f64#{:016x}", b)),
            Val::Char(c) => out.push_str(&format!("{:?}", c)),
            Val::Str(s) => {
                if s.len() > 40 {
                    out.push_str(&format!("str[{}B]", s.len()))
                } else {
                    out.push_str(&format!("{:?}", s))
                }
            }
            Val::Bytes(b) => {
                if b.len() > 24 {
                    out.push_str(&format!("bytes[{}B]", b.len()))
                } else {
                    out.push_str(&format!("b#{}", crate::json::hex(b)))
                }
            }
            Val::None => out.push_str("None"),
            Val::Some(a) => {
                out.push_str("Some(");
                a.show_into(out, lim);
                out.push(')')
            }
            Val::Unit => out.push_str("()"),
            Val::UnitStruct(n) => out.push_str(n),
            Val::NewtypeStruct(n, a) => {
                out.push_str(n);
                out.push('(');
                a.show_into(out, lim);
                out.push(')')
            }
            Val::Seq(v) => {
                out.push('[');
                if v.len() > 12 {
                    out.push_str(&format!("{} items", v.len()));
                } else {
                    for (i, x) in v.iter().enumerate() {
                        if i > 0 {
                            out.push(',');
                        }
                        x.show_into(out, lim);
                    }
                }
                out.push(']')
            }
            Val::Tuple(v) | Val::TupleStruct(_, v) | Val::TupleVariant(_, _, _, v) => {
                match self {
                    Val::TupleStruct(n, _) => out.push_str(n),
                    Val::TupleVariant(n, i, vn, _) => out.push_str(&format!("{}::{}#{}", n, vn, i)),
                    _ => {}
                }
                out.push('(');
                for (i, x) in v.iter().enumerate() {
                    if i > 0 {
                        out.push(',');
                    }
                    x.show_into(out, lim);
                }
                out.push(')')
            }
            Val::Map(m) => {
                out.push('{');
                if m.len() > 8 {
                    out.push_str(&format!("{} entries", m.len()));
                } else {
                    for (i, (k, v)) in m.iter().enumerate() {
                        if i > 0 {
                            out.push(',');
                        }
                        k.show_into(out, lim);
                        out.push_str("=>");
                        v.show_into(out, lim);
                    }
                }
                out.push('}')
            }
            Val::Struct(_, fl) | Val::StructVariant(_, _, _, fl) => {
                match self {
                    Val::Struct(n, _) => out.push_str(n),
                    Val::StructVariant(n, i, vn, _) => out.push_str(&format!("{}::{}#{}", n, vn, i)),
                    _ => {}
                }
                out.push('{');
                for (i, (k, x)) in fl.iter().enumerate() {
                    if i > 0 {
                        out.push(',');
                    }
                    out.push_str(k);
                    out.push(':');
                    x.show_into(out, lim);
                }
                out.push('}')
            }
            Val::UnitVariant(n, i, vn) => out.push_str(&format!("{}::{}#{}", n, vn, i)),
            Val::NewtypeVariant(n, i, vn, a) => {
                out.push_str(&format!("{}::{}#{}(", n, vn, i));
                a.show_into(out, lim);
                out.push(')')
            }
        }
    }
}

// ---------------------------------------------------------------------------------
// text syntax for shapes
//
//   bool i8 .. u128 usize isize f32 f64 char str bytes unit
//   opt(T) seq(T) map(K,V) tup(T,..) ustruct:N nstruct:N(T) tstruct:N(T,..)
//   struct:N{f:T,..} enum:N{V,V(T),V(T,U),V{f:T}}   (a 1-tuple variant is written V((T)) )

/// Names that are not plain identifiers (empty, spaces, punctuation, non-ASCII) are written
/// as `~<hex of the UTF-8 bytes>` so that every shape text can be parsed back.
fn push_name(n: &str, out: &mut String) {
    let plain = !n.is_empty() && n.bytes().all(|c| c.is_ascii_alphanumeric() || c == b'_');
    if plain {
        out.push_str(n);
    } else {
        out.push('~');
        out.push_str(&crate::json::hex(n.as_bytes()));
    }
}

impl Shape {
    pub fn text(&self) -> String {
        let mut s = String::new();
        self.text_into(&mut s);
        s
    }
    fn list(v: &[Shape], out: &mut String) {
        for (i, x) in v.iter().enumerate() {
            if i > 0 {
                out.push(',');
            }
            x.text_into(out);
        }
    }
    fn fields(v: &[(Name, Shape)], out: &mut String) {
        for (i, (n, x)) in v.iter().enumerate() {
            if i > 0 {
                out.push(',');
            }
            push_name(n, out);
            out.push(':');
            x.text_into(out);
        }
    }
    fn text_into(&self, out: &mut String) {
        match self {
            Shape::Option(a) => {
                out.push_str("opt(");
                a.text_into(out);
                out.push(')')
            }
            Shape::Seq(a) => {
                out.push_str("seq(");
                a.text_into(out);
                out.push(')')
            }
            Shape::Map(k, v) => {
                out.push_str("map(");
                k.text_into(out);
                out.push(',');
                v.text_into(out);
                out.push(')')
            }
            Shape::Tuple(v) => {
                out.push_str("tup(");
                Self::list(v, out);
                out.push(')')
            }
            Shape::UnitStruct(n) => {
                out.push_str("ustruct:");
                push_name(n, out)
            }
            Shape::NewtypeStruct(n, a) => {
                out.push_str("nstruct:");
                push_name(n, out);
                out.push('(');
                a.text_into(out);
                out.push(')')
            }
            Shape::TupleStruct(n, v) => {
                out.push_str("tstruct:");
                push_name(n, out);
                out.push('(');
                Self::list(v, out);
                out.push(')')
            }
            Shape::Struct(n, f) => {
                out.push_str("struct:");
                push_name(n, out);
                out.push('{');
                Self::fields(f, out);
                out.push('}')
            }
            Shape::Enum(n, vs) => {
                out.push_str("enum:");
                push_name(n, out);
                out.push('{');
                for (i, v) in vs.iter().enumerate() {
                    if i > 0 {
                        out.push(',');
                    }
                    push_name(v.name, out);
                    match &v.data {
                        VData::Unit => {}
                        VData::Newtype(s) => {
                            out.push('(');
                            s.text_into(out);
                            out.push(')')
                        }
                        VData::Tuple(t) => {
                            out.push_str("((");
                            Self::list(t, out);
                            out.push_str("))")
                        }
                        VData::Struct(f) => {
                            out.push('{');
                            Self::fields(f, out);
                            out.push('}')
                        }
                    }
                }
                out.push('}')
            }
            Shape::Unit => out.push_str("unit"),
            other => out.push_str(other.kind()),
        }
    }

    pub fn parse(s: &str) -> Result<Shape, String> {
        let mut p = P { b: s.as_bytes(), i: 0 };
        let sh = p.shape()?;
        p.ws();
        if p.i != p.b.len() {
            return Err(format!("trailing input at {}", p.i));
        }
        Ok(sh)
    }
}

struct P<'a> {
    b: &'a [u8],
    i: usize,
}

fn leak(s: &str) -> Name {
    // interned so that repeated parsing does not leak unboundedly
    use std::collections::HashSet;
    use std::sync::Mutex;
    static POOL: Mutex<Option<HashSet<&'static str>>> = Mutex::new(None);
    let mut g = POOL.lock().unwrap();
    let set = g.get_or_insert_with(HashSet::new);
    if let Some(x) = set.get(s) {
        return x;
    }
    let l: &'static str = Box::leak(s.to_string().into_boxed_str());
    set.insert(l);
    l
}
pub fn intern(s: &str) -> Name {
    leak(s)
}

impl<'a> P<'a> {
    fn ws(&mut self) {
        while self.i < self.b.len() && (self.b[self.i] as char).is_whitespace() {
            self.i += 1;
        }
    }
    fn peek(&self) -> Option<u8> {
        self.b.get(self.i).copied()
    }
    fn eat(&mut self, c: u8) -> Result<(), String> {
        self.ws();
        if self.peek() == Some(c) {
            self.i += 1;
            Ok(())
        } else {
            Err(format!("expected '{}' at {}", c as char, self.i))
        }
    }
    /// a name: plain identifier or `~hex`
    fn name(&mut self) -> Result<Name, String> {
        self.ws();
        if self.peek() == Some(b'~') {
            self.i += 1;
            let st = self.i;
            while self.i < self.b.len() && (self.b[self.i] as char).is_ascii_hexdigit() {
                self.i += 1;
            }
            let h = std::str::from_utf8(&self.b[st..self.i]).map_err(|e| e.to_string())?;
            let bytes = crate::json::unhex(h).ok_or("bad hex in name")?;
            let s = String::from_utf8(bytes).map_err(|e| e.to_string())?;
            return Ok(leak(&s));
        }
        Ok(leak(self.ident()?))
    }
    fn ident(&mut self) -> Result<&'a str, String> {
        self.ws();
        let st = self.i;
        while self.i < self.b.len() {
            let c = self.b[self.i];
            if c.is_ascii_alphanumeric() || c == b'_' || c >= 0x80 || c == b'<' || c == b'>' || c == b' ' && false {
                self.i += 1;
            } else {
                break;
            }
        }
        if st == self.i {
            return Err(format!("expected identifier at {}", st));
        }
        Ok(std::str::from_utf8(&self.b[st..self.i]).map_err(|e| e.to_string())?)
    }
    fn list(&mut self, close: u8) -> Result<Vec<Shape>, String> {
        let mut v = Vec::new();
        self.ws();
        if self.peek() == Some(close) {
            self.i += 1;
            return Ok(v);
        }
        loop {
            v.push(self.shape()?);
            self.ws();
            match self.peek() {
                Some(b',') => self.i += 1,
                Some(c) if c == close => {
                    self.i += 1;
                    return Ok(v);
                }
                _ => return Err(format!("expected ',' or close at {}", self.i)),
            }
        }
    }
    fn fields(&mut self) -> Result<Vec<(Name, Shape)>, String> {
        // after '{'
        let mut v = Vec::new();
        self.ws();
        if self.peek() == Some(b'}') {
            self.i += 1;
            return Ok(v);
        }
        loop {
            let n = self.name()?;
            self.eat(b':')?;
            let s = self.shape()?;
            v.push((n, s));
            self.ws();
            match self.peek() {
                Some(b',') => self.i += 1,
                Some(b'}') => {
                    self.i += 1;
                    return Ok(v);
                }
                _ => return Err(format!("expected ',' or '}}' at {}", self.i)),
            }
        }
    }
    fn shape(&mut self) -> Result<Shape, String> {
        let id = self.ident()?;
        Ok(match id {
            "bool" => Shape::Bool,
            "i8" => Shape::I8,
            "i16" => Shape::I16,
            "i32" => Shape::I32,
            "i64" => Shape::I64,
            "i128" => Shape::I128,
            "u8" => Shape::U8,
            "u16" => Shape::U16,
            "u32" => Shape::U32,
            "u64" => Shape::U64,
            "u128" => Shape::U128,
            "usize" => Shape::Usize,
            "isize" => Shape::Isize,
            "f32" => Shape::F32,
            "f64" => Shape::F64,
            "char" => Shape::Char,
            "str" => Shape::Str,
            "bytes" => Shape::Bytes,
            "unit" => Shape::Unit,
            "opt" => {
                self.eat(b'(')?;
                let a = self.shape()?;
                self.eat(b')')?;
                Shape::Option(Box::new(a))
            }
            "seq" => {
                self.eat(b'(')?;
                let a = self.shape()?;
                self.eat(b')')?;
                Shape::Seq(Box::new(a))
            }
            "map" => {
                self.eat(b'(')?;
                let k = self.shape()?;
                self.eat(b',')?;
                let v = self.shape()?;
                self.eat(b')')?;
                Shape::Map(Box::new(k), Box::new(v))
            }
            "tup" => {
                self.eat(b'(')?;
                Shape::Tuple(self.list(b')')?)
            }
            "ustruct" => {
                self.eat(b':')?;
                Shape::UnitStruct(self.name()?)
            }
            "nstruct" => {
                self.eat(b':')?;
                let n = self.name()?;
                self.eat(b'(')?;
                let a = self.shape()?;
                self.eat(b')')?;
                Shape::NewtypeStruct(n, Box::new(a))
            }
            "tstruct" => {
                self.eat(b':')?;
                let n = self.name()?;
                self.eat(b'(')?;
                Shape::TupleStruct(n, self.list(b')')?)
            }
            "struct" => {
                self.eat(b':')?;
                let n = self.name()?;
                self.eat(b'{')?;
                Shape::Struct(n, self.fields()?)
            }
            "enum" => {
                self.eat(b':')?;
                let n = self.name()?;
                self.eat(b'{')?;
                let mut vs = Vec::new();
                self.ws();
                if self.peek() == Some(b'}') {
                    self.i += 1;
                    return Ok(Shape::Enum(n, vs));
                }
                loop {
                    let vn = self.name()?;
                    self.ws();
                    let data = match self.peek() {
                        Some(b'(') => {
                            self.i += 1;
                            self.ws();
                            if self.peek() == Some(b'(') {
                                self.i += 1;
                                let l = self.list(b')')?;
                                self.eat(b')')?;
                                VData::Tuple(l)
                            } else {
                                let s = self.shape()?;
                                self.eat(b')')?;
                                VData::Newtype(Box::new(s))
                            }
                        }
                        Some(b'{') => {
                            self.i += 1;
                            VData::Struct(self.fields()?)
                        }
                        _ => VData::Unit,
                    };
                    vs.push(VariantShape { name: vn, data });
                    self.ws();
                    match self.peek() {
                        Some(b',') => self.i += 1,
                        Some(b'}') => {
                            self.i += 1;
                            break;
                        }
                        _ => return Err(format!("expected ',' or '}}' at {}", self.i)),
                    }
                }
                Shape::Enum(n, vs)
            }
            other => return Err(format!("unknown shape keyword {:?}", other)),
        })
    }
}
