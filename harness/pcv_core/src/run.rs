//! Run infrastructure shared by all checks: configuration, per-thread statistics,
//! violation records with replay files, parallel execution, result JSON.

use crate::json::J;
use crate::mem::Crumb;
use crate::rng::Rng;
use std::collections::{BTreeMap, HashSet};
use std::path::{Path, PathBuf};

#[derive(Clone, Copy, PartialEq, Eq, Debug)]
pub enum Tier {
    /// reduced workload for interpreters / sanitizers
    Tiny,
    Quick,
    Thorough,
}

#[derive(Clone)]
pub struct Cfg {
    pub prop: String,
    pub tier: Tier,
    pub seed: u64,
    pub threads: usize,
    pub out_dir: PathBuf,
    pub replay: Option<PathBuf>,
    /// free-form knobs (`--set k=v`)
    pub knobs: BTreeMap<String, String>,
    pub stage: String,
    pub repo: PathBuf,
}

static START: std::sync::OnceLock<std::time::Instant> = std::sync::OnceLock::new();
pub fn mark_start() {
    let _ = START.get_or_init(std::time::Instant::now);
}

impl Cfg {
    /// Soft workload limiter (`--set deadline_s=N`): stop *generating* further cases.  Never a
    /// verdict: coverage floors decide whether what was observed is enough.
    pub fn expired(&self) -> bool {
        match self.knobs.get("deadline_s").and_then(|v| v.parse::<f64>().ok()) {
            Some(d) => START.get().map(|s| s.elapsed().as_secs_f64() > d).unwrap_or(false),
            None => false,
        }
    }
    /// oracle step budget per decode (small under interpreters)
    pub fn oracle_budget(&self) -> u64 {
        match self.tier {
            Tier::Tiny => 2_000,
            _ => 100_000,
        }
    }
    pub fn knob_u64(&self, k: &str, default: u64) -> u64 {
        self.knobs.get(k).and_then(|v| v.parse().ok()).unwrap_or(default)
    }
    pub fn scale(&self, tiny: u64, quick: u64, thorough: u64) -> u64 {
        let base = match self.tier {
            Tier::Tiny => tiny,
            Tier::Quick => quick,
            Tier::Thorough => thorough,
        };
        let pct = self.knob_u64("scale_pct", 100);
        (base * pct / 100).max(1)
    }
}

#[derive(Clone, Debug)]
pub struct Violation {
    /// stable classification used for known-findings matching
    pub signature: String,
    pub message: String,
    /// `key: value` lines of the replay file
    pub replay: Vec<(String, String)>,
}

pub const MAX_DISTINCT_PER_THREAD: usize = 3_000_000;
pub const MAX_VIOL_PER_SIG: usize = 3;

pub struct Stats {
    pub counters: BTreeMap<String, u64>,
    pub distinct: HashSet<u64>,
    pub distinct_capped: bool,
    /// distinct cases known exactly by construction (enumerated sub-spaces)
    pub distinct_enumerated: u64,
    pub evaluations: u64,
    pub samples: Vec<J>,
    pub violations: Vec<Violation>,
    pub viol_by_sig: BTreeMap<String, u64>,
    pub notes: Vec<String>,
    /// harness/oracle problems: make the run inconclusive, never a violation
    pub inconclusive: Vec<String>,
    pub spaces: Vec<J>,
    pub sample_cap: usize,
}

impl Stats {
    pub fn new() -> Stats {
        Stats {
            counters: BTreeMap::new(),
            distinct: HashSet::new(),
            distinct_capped: false,
            distinct_enumerated: 0,
            evaluations: 0,
            samples: Vec::new(),
            violations: Vec::new(),
            viol_by_sig: BTreeMap::new(),
            notes: Vec::new(),
            inconclusive: Vec::new(),
            spaces: Vec::new(),
            sample_cap: 6,
        }
    }
    #[inline]
    pub fn count(&mut self, k: &str) {
        self.add(k, 1)
    }
    #[inline]
    pub fn add(&mut self, k: &str, n: u64) {
        if let Some(c) = self.counters.get_mut(k) {
            *c += n;
        } else {
            self.counters.insert(k.to_string(), n);
        }
    }
    pub fn max(&mut self, k: &str, n: u64) {
        let e = self.counters.entry(k.to_string()).or_insert(0);
        if n > *e {
            *e = n;
        }
    }
    #[inline]
    pub fn eval(&mut self) {
        self.evaluations += 1;
    }
    /// register one non-trivial case by fingerprint
    #[inline]
    pub fn nontrivial(&mut self, fp: u64) {
        if self.distinct.len() < MAX_DISTINCT_PER_THREAD {
            self.distinct.insert(fp);
        } else {
            self.distinct_capped = true;
        }
    }
    pub fn sample(&mut self, j: J) {
        if self.samples.len() < self.sample_cap {
            self.samples.push(j);
        }
    }
    pub fn want_sample(&self) -> bool {
        self.samples.len() < self.sample_cap
    }
    pub fn violation(&mut self, sig: &str, msg: String, replay: Vec<(String, String)>) {
        let n = self.viol_by_sig.entry(sig.to_string()).or_insert(0);
        *n += 1;
        if *n as usize <= MAX_VIOL_PER_SIG {
            self.violations.push(Violation { signature: sig.to_string(), message: msg, replay });
        }
    }
    pub fn inconclusive(&mut self, why: String) {
        if self.inconclusive.len() < 20 {
            self.inconclusive.push(why);
        }
    }
    pub fn space(&mut self, name: &str, size: u64, exhaustive: bool) {
        let mut j = J::obj();
        j.set("name", J::s(name)).set("cases", J::i(size)).set("exhaustive", J::Bool(exhaustive));
        self.spaces.push(j);
    }
    pub fn merge(&mut self, o: Stats) {
        for (k, v) in o.counters {
            if k.starts_with("max_") {
                self.max(&k, v);
            } else {
                self.add(&k, v);
            }
        }
        for f in o.distinct {
            if self.distinct.len() < 40_000_000 {
                self.distinct.insert(f);
            } else {
                self.distinct_capped = true;
            }
        }
        self.distinct_capped |= o.distinct_capped;
        self.distinct_enumerated += o.distinct_enumerated;
        self.evaluations += o.evaluations;
        for s in o.samples {
            if self.samples.len() < 24 {
                self.samples.push(s);
            }
        }
        for (k, v) in o.viol_by_sig {
            *self.viol_by_sig.entry(k).or_insert(0) += v;
        }
        for v in o.violations {
            let kept = self.violations.iter().filter(|x| x.signature == v.signature).count();
            if kept < MAX_VIOL_PER_SIG {
                self.violations.push(v);
            }
        }
        self.notes.extend(o.notes);
        self.inconclusive.extend(o.inconclusive);
        // spaces: merge by name (sum cases)
        for s in o.spaces {
            let name = match &s {
                J::Obj(m) => match m.get("name") {
                    Some(J::Str(n)) => n.clone(),
                    _ => String::new(),
                },
                _ => String::new(),
            };
            let mut found = false;
            for mine in self.spaces.iter_mut() {
                if let (J::Obj(m), J::Obj(o2)) = (mine, &s) {
                    if let Some(J::Str(n)) = m.get("name") {
                        if *n == name {
                            let a = if let Some(J::Int(a)) = m.get("cases") { *a } else { 0 };
                            let b = if let Some(J::Int(b)) = o2.get("cases") { *b } else { 0 };
                            m.insert("cases".into(), J::Int(a + b));
                            found = true;
                            break;
                        }
                    }
                }
            }
            if !found {
                self.spaces.push(s);
            }
        }
    }
}

/// Per-thread context handed to check bodies.
pub struct Tctx<'a> {
    pub cfg: &'a Cfg,
    pub tid: usize,
    pub nthreads: usize,
    pub rng: Rng,
    pub st: Stats,
    pub crumb: Crumb,
}

impl<'a> Tctx<'a> {
    /// does this thread own item `i` of an enumerated space?
    #[inline]
    pub fn mine(&self, i: u64) -> bool {
        (i % self.nthreads as u64) == self.tid as u64
    }
}

/// Run `body` on `cfg.threads` threads (big stacks), merge statistics.
pub fn parallel<F>(cfg: &Cfg, lane: u64, body: F) -> Stats
where
    F: Fn(&mut Tctx) + Sync,
{
    let n = cfg.threads.max(1);
    let mut total = Stats::new();
    crate::model::warm_up();
    let lane_t0 = std::time::Instant::now();
    struct LaneTimer(std::time::Instant, u64, bool);
    impl Drop for LaneTimer {
        fn drop(&mut self) {
            if self.2 {
                eprintln!("[lane {}] {:.2}s", self.1, self.0.elapsed().as_secs_f64());
            }
        }
    }
    let _lt = LaneTimer(lane_t0, lane, cfg.knobs.contains_key("timing"));
    if n == 1 {
        let mut t = Tctx {
            cfg,
            tid: 0,
            nthreads: 1,
            rng: Rng::derive(cfg.seed, lane, 0),
            st: Stats::new(),
            crumb: Crumb::open(&cfg.out_dir.join(format!("crumb.{}.{}", lane, 0))),
        };
        body(&mut t);
        t.crumb.clear();
        total.merge(t.st);
        return total;
    }
    let results: Vec<Stats> = std::thread::scope(|s| {
        let mut hs = Vec::new();
        for tid in 0..n {
            let body = &body;
            let h = std::thread::Builder::new()
                .stack_size(256 << 20)
                .spawn_scoped(s, move || {
                    let mut t = Tctx {
                        cfg,
                        tid,
                        nthreads: n,
                        rng: Rng::derive(cfg.seed, lane, tid as u64),
                        st: Stats::new(),
                        crumb: Crumb::open(&cfg.out_dir.join(format!("crumb.{}.{}", lane, tid))),
                    };
                    body(&mut t);
                    t.crumb.clear();
                    t.st
                })
                .expect("spawn");
            hs.push(h);
        }
        hs.into_iter()
            .map(|h| match h.join() {
                Ok(s) => s,
                Err(_) => {
                    let mut s = Stats::new();
                    s.inconclusive("a harness worker thread panicked outside a monitored call".into());
                    s
                }
            })
            .collect()
    });
    for r in results {
        total.merge(r);
    }
    total
}

pub struct Report {
    pub prop: String,
    pub stats: Stats,
    pub rule: String,
    pub assumptions: Vec<String>,
    pub extra: BTreeMap<String, J>,
    /// floors: counter name -> minimum
    pub floors: Vec<(String, u64)>,
}

impl Report {
    pub fn new(prop: &str) -> Report {
        Report {
            prop: prop.to_string(),
            stats: Stats::new(),
            rule: String::new(),
            assumptions: Vec::new(),
            extra: BTreeMap::new(),
            floors: Vec::new(),
        }
    }
    pub fn floor(&mut self, counter: &str, min: u64) {
        self.floors.push((counter.to_string(), min));
    }

    /// Write result JSON + replay files; returns (number of violations, inconclusive?).
    pub fn finish(mut self, cfg: &Cfg, wall_s: f64) -> (usize, bool) {
        // floors -> inconclusive
        let floors = if cfg.tier == Tier::Tiny || cfg.replay.is_some() { Vec::new() } else { std::mem::take(&mut self.floors) };
        for (k, min) in &floors {
            let have = self.stats.counters.get(k).copied().unwrap_or(0);
            if have < *min {
                self.stats.inconclusive(format!("coverage floor not met: {} = {} < {}", k, have, min));
            }
        }
        let mut j = J::obj();
        j.set("property_id", J::s(&self.prop));
        j.set("stage", J::s(&cfg.stage));
        j.set("tier", J::s(match cfg.tier {
            Tier::Tiny => "tiny",
            Tier::Quick => "quick",
            Tier::Thorough => "thorough",
        }));
        j.set("seed", J::i(cfg.seed));
        j.set("threads", J::i(cfg.threads as u64));
        j.set("wall_s", J::Num(wall_s));
        j.set("evaluations", J::i(self.stats.evaluations));
        j.set("distinct_hashed", J::i(self.stats.distinct.len() as u64));
        j.set("distinct_enumerated", J::i(self.stats.distinct_enumerated));
        j.set("distinct_capped", J::Bool(self.stats.distinct_capped));
        j.set("rule", J::s(&self.rule));
        j.set("assumptions", J::Arr(self.assumptions.iter().map(J::s).collect()));
        let mut c = J::obj();
        for (k, v) in &self.stats.counters {
            c.set(k, J::i(*v));
        }
        j.set("counters", c);
        j.set("samples", J::Arr(self.stats.samples.clone()));
        j.set("spaces", J::Arr(self.stats.spaces.clone()));
        j.set("notes", J::Arr(self.stats.notes.iter().map(J::s).collect()));
        j.set("inconclusive", J::Arr(self.stats.inconclusive.iter().map(J::s).collect()));
        let mut fl = J::obj();
        for (k, m) in &floors {
            fl.set(k, J::i(*m));
        }
        j.set("floors", fl);
        for (k, v) in &self.extra {
            j.set(k, v.clone());
        }
        let mut viols = Vec::new();
        for (i, v) in self.stats.violations.iter().enumerate() {
            let path = cfg.out_dir.join(format!("replay_{}_{}_{}.txt", self.prop, cfg.stage, i));
            let mut text = String::new();
            text.push_str(&format!("property: {}\n", self.prop));
            text.push_str(&format!("signature: {}\n", v.signature));
            text.push_str(&format!("message: {}\n", v.message.replace('\n', " ")));
            for (k, val) in &v.replay {
                text.push_str(&format!("{}: {}\n", k, val.replace('\n', " ")));
            }
            let _ = std::fs::write(&path, text);
            let mut vj = J::obj();
            vj.set("signature", J::s(&v.signature));
            vj.set("message", J::s(&v.message));
            vj.set("replay", J::s(path.to_string_lossy()));
            viols.push(vj);
        }
        let mut vs = J::obj();
        for (k, n) in &self.stats.viol_by_sig {
            vs.set(k, J::i(*n));
        }
        j.set("violations_by_signature", vs);
        j.set("violations", J::Arr(viols));
        let out = cfg.out_dir.join(format!("result_{}_{}.json", self.prop, cfg.stage));
        let _ = std::fs::write(&out, j.to_string());
        (self.stats.violations.len(), !self.stats.inconclusive.is_empty())
    }
}

/// Parse a replay file (`key: value` lines) into a map.
pub fn read_replay(p: &Path) -> Result<BTreeMap<String, String>, String> {
    let text = std::fs::read_to_string(p).map_err(|e| format!("{}: {}", p.display(), e))?;
    let mut m = BTreeMap::new();
    for l in text.lines() {
        if let Some((k, v)) = l.split_once(": ") {
            m.insert(k.trim().to_string(), v.to_string());
        } else if let Some(k) = l.strip_suffix(':') {
            m.insert(k.trim().to_string(), String::new());
        }
    }
    Ok(m)
}

pub fn kv(k: &str, v: impl Into<String>) -> (String, String) {
    (k.to_string(), v.into())
}
