//! Bridges between the run-time model and serde:
//!  * `impl Serialize for Val`        – issues exactly the calls serde-derive would issue
//!  * `Seed` (`DeserializeSeed`)      – drives any `Deserializer` with derive-shaped visitors
//!  * `Recorder` (`Serializer`)       – records the call tree of any `Serialize` value as a `Val`

use crate::model::{static_names, Name, Shape, VData, Val};
use serde::de::{self, DeserializeSeed, EnumAccess, MapAccess, SeqAccess, VariantAccess, Visitor};
use serde::ser::{self, Serialize, SerializeMap, SerializeSeq, SerializeStruct, SerializeStructVariant};
use serde::ser::{SerializeTuple, SerializeTupleStruct, SerializeTupleVariant};
use std::cell::RefCell;
use std::fmt;

// ------------------------------------------------------------------ Val -> serde

thread_local! {
    static SER_HUMAN_READABLE: std::cell::Cell<bool> = const { std::cell::Cell::new(false) };
}
/// Did any serializer that a `Val` was written to claim to be human readable? (resets the flag)
pub fn take_ser_human_readable() -> bool {
    SER_HUMAN_READABLE.with(|c| c.replace(false))
}

impl Serialize for Val {
    fn serialize<S: ser::Serializer>(&self, s: S) -> Result<S::Ok, S::Error> {
        if s.is_human_readable() {
            SER_HUMAN_READABLE.with(|c| c.set(true));
        }
        match self {
            Val::Bool(x) => s.serialize_bool(*x),
            Val::I8(x) => s.serialize_i8(*x),
            Val::I16(x) => s.serialize_i16(*x),
            Val::I32(x) => s.serialize_i32(*x),
            Val::I64(x) => s.serialize_i64(*x),
            Val::I128(x) => s.serialize_i128(*x),
            Val::U8(x) => s.serialize_u8(*x),
            Val::U16(x) => s.serialize_u16(*x),
            Val::U32(x) => s.serialize_u32(*x),
            Val::U64(x) => s.serialize_u64(*x),
            Val::U128(x) => s.serialize_u128(*x),
            Val::F32(b) => s.serialize_f32(f32::from_bits(*b)),
            Val::F64(b) => s.serialize_f64(f64::from_bits(*b)),
            Val::Char(c) => s.serialize_char(*c),
            Val::Str(x) => s.serialize_str(x),
            Val::Bytes(x) => s.serialize_bytes(x),
            Val::None => s.serialize_none(),
            Val::Some(x) => s.serialize_some(&**x),
            Val::Unit => s.serialize_unit(),
            Val::UnitStruct(n) => s.serialize_unit_struct(n),
            Val::NewtypeStruct(n, x) => s.serialize_newtype_struct(n, &**x),
            Val::Seq(items) => {
                let mut q = s.serialize_seq(Some(items.len()))?;
                for i in items {
                    q.serialize_element(i)?;
                }
                q.end()
            }
            Val::Tuple(items) => {
                let mut q = s.serialize_tuple(items.len())?;
                for i in items {
                    q.serialize_element(i)?;
                }
                q.end()
            }
            Val::TupleStruct(n, items) => {
                let mut q = s.serialize_tuple_struct(n, items.len())?;
                for i in items {
                    q.serialize_field(i)?;
                }
                q.end()
            }
            Val::Map(m) => {
                let mut q = s.serialize_map(Some(m.len()))?;
                for (k, v) in m {
                    q.serialize_entry(k, v)?;
                }
                q.end()
            }
            Val::Struct(n, f) => {
                let mut q = s.serialize_struct(n, f.len())?;
                for (k, v) in f {
                    q.serialize_field(k, v)?;
                }
                q.end()
            }
            Val::UnitVariant(n, i, vn) => s.serialize_unit_variant(n, *i, vn),
            Val::NewtypeVariant(n, i, vn, x) => s.serialize_newtype_variant(n, *i, vn, &**x),
            Val::TupleVariant(n, i, vn, items) => {
                let mut q = s.serialize_tuple_variant(n, *i, vn, items.len())?;
                for x in items {
                    q.serialize_field(x)?;
                }
                q.end()
            }
            Val::StructVariant(n, i, vn, f) => {
                let mut q = s.serialize_struct_variant(n, *i, vn, f.len())?;
                for (k, v) in f {
                    q.serialize_field(k, v)?;
                }
                q.end()
            }
        }
    }
}

// ------------------------------------------------------------------ serde -> Val, driven by a Shape

/// Side channel filled in while deserialising: pointer ranges of borrowed strings / bytes.
#[derive(Default)]
pub struct Ctx {
    /// (address, len, borrowed?) in visit order
    pub strs: RefCell<Vec<(usize, usize, bool)>>,
    /// set when the harness visitor stopped a zero-width element flood (case must be skipped)
    pub flood: std::cell::Cell<bool>,
    /// set when a deserializer claimed to be human readable (postcard is a binary format)
    pub human_readable_seen: std::cell::Cell<bool>,
}

/// Upper bound on zero-width elements the harness visitor accepts before it abandons the case;
/// much smaller under the interpreter, where every element costs milliseconds.
thread_local! {
    static OWNED_TURN: std::cell::Cell<u32> = const { std::cell::Cell::new(0) };
}
fn owned_turn() -> bool {
    OWNED_TURN.with(|c| {
        let n = c.get().wrapping_add(1);
        c.set(n);
        n % 3 == 0
    })
}

pub const ZERO_WIDTH_FLOOD_LIMIT: usize = if cfg!(miri) { 2_000 } else { 300_000 };

impl Ctx {
    pub fn new() -> Self {
        Ctx::default()
    }
    pub fn clear(&self) {
        self.strs.borrow_mut().clear();
        self.flood.set(false);
        self.human_readable_seen.set(false);
    }
}

#[derive(Clone, Copy)]
enum Target<'s> {
    Shape(&'s Shape),
    VTuple(Name, u32, Name, &'s [Shape]),
    VStruct(Name, u32, Name, &'s [(Name, Shape)]),
}

#[derive(Clone, Copy)]
pub struct Seed<'s> {
    pub shape: &'s Shape,
    pub ctx: &'s Ctx,
}

impl<'s> Seed<'s> {
    pub fn new(shape: &'s Shape, ctx: &'s Ctx) -> Self {
        Seed { shape, ctx }
    }
}

struct V<'s> {
    t: Target<'s>,
    ctx: &'s Ctx,
}

/// serde's own `size_hint::cautious`: never pre-allocate more than 1 MiB.
fn cautious<T>(hint: Option<usize>) -> usize {
    const MAX_PREALLOC_BYTES: usize = 1024 * 1024;
    if std::mem::size_of::<T>() == 0 {
        0
    } else {
        std::cmp::min(hint.unwrap_or(0), MAX_PREALLOC_BYTES / std::mem::size_of::<T>())
    }
}

impl<'de, 's> DeserializeSeed<'de> for Seed<'s> {
    type Value = Val;
    fn deserialize<D: de::Deserializer<'de>>(self, d: D) -> Result<Val, D::Error> {
        let v = V { t: Target::Shape(self.shape), ctx: self.ctx };
        if d.is_human_readable() {
            self.ctx.human_readable_seen.set(true);
        }
        match self.shape {
            Shape::Bool => d.deserialize_bool(v),
            Shape::I8 => d.deserialize_i8(v),
            Shape::I16 => d.deserialize_i16(v),
            Shape::I32 => d.deserialize_i32(v),
            Shape::I64 | Shape::Isize => d.deserialize_i64(v),
            Shape::I128 => d.deserialize_i128(v),
            Shape::U8 => d.deserialize_u8(v),
            Shape::U16 => d.deserialize_u16(v),
            Shape::U32 => d.deserialize_u32(v),
            Shape::U64 | Shape::Usize => d.deserialize_u64(v),
            Shape::U128 => d.deserialize_u128(v),
            Shape::F32 => d.deserialize_f32(v),
            Shape::F64 => d.deserialize_f64(v),
            Shape::Char => d.deserialize_char(v),
            // every third request asks for the OWNED form (deserialize_string / deserialize_byte_buf): a format may
            // serve the two through different code
            Shape::Str => {
                if owned_turn() {
                    d.deserialize_string(v)
                } else {
                    d.deserialize_str(v)
                }
            }
            Shape::Bytes => {
                if owned_turn() {
                    d.deserialize_byte_buf(v)
                } else {
                    d.deserialize_bytes(v)
                }
            }
            Shape::Option(_) => d.deserialize_option(v),
            Shape::Unit => d.deserialize_unit(v),
            Shape::UnitStruct(n) => d.deserialize_unit_struct(n, v),
            Shape::NewtypeStruct(n, _) => d.deserialize_newtype_struct(n, v),
            Shape::Seq(_) => d.deserialize_seq(v),
            Shape::Tuple(f) => d.deserialize_tuple(f.len(), v),
            Shape::TupleStruct(n, f) => d.deserialize_tuple_struct(n, f.len(), v),
            Shape::Map(_, _) => d.deserialize_map(v),
            Shape::Struct(n, f) => d.deserialize_struct(n, static_names(f.len()), v),
            Shape::Enum(n, vs) => d.deserialize_enum(n, static_names(vs.len()), v),
        }
    }
}

struct IdxSeed {
    n: usize,
}
impl<'de> DeserializeSeed<'de> for IdxSeed {
    type Value = u32;
    fn deserialize<D: de::Deserializer<'de>>(self, d: D) -> Result<u32, D::Error> {
        d.deserialize_identifier(self)
    }
}
impl<'de> Visitor<'de> for IdxSeed {
    type Value = u32;
    fn expecting(&self, f: &mut fmt::Formatter) -> fmt::Result {
        write!(f, "variant index 0 <= i < {}", self.n)
    }
    fn visit_u64<E: de::Error>(self, v: u64) -> Result<u32, E> {
        if (v as u128) < self.n as u128 {
            Ok(v as u32)
        } else {
            Err(E::invalid_value(de::Unexpected::Unsigned(v), &self))
        }
    }
    fn visit_u32<E: de::Error>(self, v: u32) -> Result<u32, E> {
        self.visit_u64(v as u64)
    }
}

macro_rules! prim {
    ($name:ident, $t:ty, $shape:pat, $mk:expr) => {
        fn $name<E: de::Error>(self, v: $t) -> Result<Val, E> {
            match self.t {
                Target::Shape($shape) => Ok($mk(v)),
                _ => Err(E::custom(concat!("unexpected ", stringify!($name)))),
            }
        }
    };
}

impl<'de, 's> Visitor<'de> for V<'s> {
    type Value = Val;
    fn expecting(&self, f: &mut fmt::Formatter) -> fmt::Result {
        match self.t {
            Target::Shape(s) => write!(f, "{}", s.kind()),
            _ => write!(f, "variant payload"),
        }
    }
    prim!(visit_bool, bool, Shape::Bool, Val::Bool);
    prim!(visit_i8, i8, Shape::I8, Val::I8);
    prim!(visit_i16, i16, Shape::I16, Val::I16);
    prim!(visit_i32, i32, Shape::I32, Val::I32);
    prim!(visit_i64, i64, Shape::I64 | Shape::Isize, Val::I64);
    prim!(visit_i128, i128, Shape::I128, Val::I128);
    prim!(visit_u8, u8, Shape::U8, Val::U8);
    prim!(visit_u16, u16, Shape::U16, Val::U16);
    prim!(visit_u32, u32, Shape::U32, Val::U32);
    prim!(visit_u64, u64, Shape::U64 | Shape::Usize, Val::U64);
    prim!(visit_u128, u128, Shape::U128, Val::U128);
    prim!(visit_char, char, Shape::Char, Val::Char);
    fn visit_f32<E: de::Error>(self, v: f32) -> Result<Val, E> {
        match self.t {
            Target::Shape(Shape::F32) => Ok(Val::F32(v.to_bits())),
            _ => Err(E::custom("unexpected f32")),
        }
    }
    fn visit_f64<E: de::Error>(self, v: f64) -> Result<Val, E> {
        match self.t {
            Target::Shape(Shape::F64) => Ok(Val::F64(v.to_bits())),
            _ => Err(E::custom("unexpected f64")),
        }
    }
    fn visit_borrowed_str<E: de::Error>(self, v: &'de str) -> Result<Val, E> {
        crate::mem::uncounted(|| self.ctx.strs.borrow_mut().push((v.as_ptr() as usize, v.len(), true)));
        match self.t {
            Target::Shape(Shape::Str) => Ok(Val::Str(v.to_string())),
            _ => Err(E::custom("unexpected str")),
        }
    }
    fn visit_str<E: de::Error>(self, v: &str) -> Result<Val, E> {
        crate::mem::uncounted(|| self.ctx.strs.borrow_mut().push((v.as_ptr() as usize, v.len(), false)));
        match self.t {
            Target::Shape(Shape::Str) => Ok(Val::Str(v.to_string())),
            _ => Err(E::custom("unexpected str")),
        }
    }
    fn visit_borrowed_bytes<E: de::Error>(self, v: &'de [u8]) -> Result<Val, E> {
        crate::mem::uncounted(|| self.ctx.strs.borrow_mut().push((v.as_ptr() as usize, v.len(), true)));
        match self.t {
            Target::Shape(Shape::Bytes) => Ok(Val::Bytes(v.to_vec())),
            _ => Err(E::custom("unexpected bytes")),
        }
    }
    fn visit_bytes<E: de::Error>(self, v: &[u8]) -> Result<Val, E> {
        crate::mem::uncounted(|| self.ctx.strs.borrow_mut().push((v.as_ptr() as usize, v.len(), false)));
        match self.t {
            Target::Shape(Shape::Bytes) => Ok(Val::Bytes(v.to_vec())),
            _ => Err(E::custom("unexpected bytes")),
        }
    }
    fn visit_none<E: de::Error>(self) -> Result<Val, E> {
        match self.t {
            Target::Shape(Shape::Option(_)) => Ok(Val::None),
            _ => Err(E::custom("unexpected none")),
        }
    }
    fn visit_some<D: de::Deserializer<'de>>(self, d: D) -> Result<Val, D::Error> {
        match self.t {
            Target::Shape(Shape::Option(inner)) => {
                let v = Seed { shape: inner, ctx: self.ctx }.deserialize(d)?;
                Ok(Val::Some(crate::mem::uncounted(|| Box::new(v))))
            }
            _ => Err(de::Error::custom("unexpected some")),
        }
    }
    fn visit_unit<E: de::Error>(self) -> Result<Val, E> {
        match self.t {
            Target::Shape(Shape::Unit) => Ok(Val::Unit),
            Target::Shape(Shape::UnitStruct(n)) => Ok(Val::UnitStruct(n)),
            _ => Err(E::custom("unexpected unit")),
        }
    }
    fn visit_newtype_struct<D: de::Deserializer<'de>>(self, d: D) -> Result<Val, D::Error> {
        match self.t {
            Target::Shape(Shape::NewtypeStruct(n, inner)) => {
                let v = Seed { shape: inner, ctx: self.ctx }.deserialize(d)?;
                Ok(Val::NewtypeStruct(n, crate::mem::uncounted(|| Box::new(v))))
            }
            _ => Err(de::Error::custom("unexpected newtype struct")),
        }
    }
    fn visit_seq<A: SeqAccess<'de>>(self, mut seq: A) -> Result<Val, A::Error> {
        let ctx = self.ctx;
        fn fixed<'de, 's, A: SeqAccess<'de>>(seq: &mut A, ctx: &'s Ctx, f: &'s [Shape]) -> Result<Vec<Val>, A::Error> {
            // fixed-arity containers live on the stack in real derived types: not counted
            let mut out = crate::mem::uncounted(|| Vec::with_capacity(f.len()));
            for (i, s) in f.iter().enumerate() {
                match seq.next_element_seed(Seed { shape: s, ctx })? {
                    Some(v) => out.push(v),
                    None => return Err(de::Error::invalid_length(i, &"more elements")),
                }
            }
            Ok(out)
        }
        fn named<'de, 's, A: SeqAccess<'de>>(
            seq: &mut A,
            ctx: &'s Ctx,
            f: &'s [(Name, Shape)],
        ) -> Result<Vec<(Name, Val)>, A::Error> {
            let mut out = crate::mem::uncounted(|| Vec::with_capacity(f.len()));
            for (i, (n, s)) in f.iter().enumerate() {
                match seq.next_element_seed(Seed { shape: s, ctx })? {
                    Some(v) => out.push((*n, v)),
                    None => return Err(de::Error::invalid_length(i, &"more fields")),
                }
            }
            Ok(out)
        }
        match self.t {
            Target::Shape(Shape::Seq(elem)) => {
                // like Vec<T>'s visitor
                let mut out: Vec<Val> = Vec::with_capacity(cautious::<Val>(seq.size_hint()));
                let zero_width = elem.min_wire() == 0;
                while let Some(v) = seq.next_element_seed(Seed { shape: elem, ctx })? {
                    out.push(v);
                    // harness self-protection: a sequence of zero-width elements costs time and
                    // memory proportional to its *claimed* length by construction of serde's
                    // visitors (outside the properties' claims); stop the visitor, flag the case.
                    if zero_width && out.len() > ZERO_WIDTH_FLOOD_LIMIT {
                        ctx.flood.set(true);
                        return Err(de::Error::custom("harness: zero-width element flood"));
                    }
                }
                Ok(Val::Seq(out))
            }
            Target::Shape(Shape::Tuple(f)) => Ok(Val::Tuple(fixed(&mut seq, ctx, f)?)),
            Target::Shape(Shape::TupleStruct(n, f)) => Ok(Val::TupleStruct(n, fixed(&mut seq, ctx, f)?)),
            Target::Shape(Shape::Struct(n, f)) => Ok(Val::Struct(n, named(&mut seq, ctx, f)?)),
            Target::VTuple(n, i, vn, f) => Ok(Val::TupleVariant(n, i, vn, fixed(&mut seq, ctx, f)?)),
            Target::VStruct(n, i, vn, f) => Ok(Val::StructVariant(n, i, vn, named(&mut seq, ctx, f)?)),
            _ => Err(de::Error::custom("unexpected seq")),
        }
    }
    fn visit_map<A: MapAccess<'de>>(self, mut map: A) -> Result<Val, A::Error> {
        match self.t {
            Target::Shape(Shape::Map(k, v)) => {
                let mut out: Vec<(Val, Val)> = Vec::with_capacity(cautious::<(Val, Val)>(map.size_hint()));
                let zero_width = k.min_wire() + v.min_wire() == 0;
                while let Some(kk) = map.next_key_seed(Seed { shape: k, ctx: self.ctx })? {
                    let vv = map.next_value_seed(Seed { shape: v, ctx: self.ctx })?;
                    out.push((kk, vv));
                    if zero_width && out.len() > ZERO_WIDTH_FLOOD_LIMIT {
                        self.ctx.flood.set(true);
                        return Err(de::Error::custom("harness: zero-width element flood"));
                    }
                }
                Ok(Val::Map(out))
            }
            _ => Err(de::Error::custom("unexpected map")),
        }
    }
    fn visit_enum<A: EnumAccess<'de>>(self, data: A) -> Result<Val, A::Error> {
        match self.t {
            Target::Shape(Shape::Enum(n, vs)) => {
                let (idx, variant) = data.variant_seed(IdxSeed { n: vs.len() })?;
                let v = &vs[idx as usize];
                match &v.data {
                    VData::Unit => {
                        variant.unit_variant()?;
                        Ok(Val::UnitVariant(n, idx, v.name))
                    }
                    VData::Newtype(inner) => {
                        let x = variant.newtype_variant_seed(Seed { shape: inner, ctx: self.ctx })?;
                        Ok(Val::NewtypeVariant(n, idx, v.name, crate::mem::uncounted(|| Box::new(x))))
                    }
                    VData::Tuple(f) => {
                        variant.tuple_variant(f.len(), V { t: Target::VTuple(n, idx, v.name, f), ctx: self.ctx })
                    }
                    VData::Struct(f) => variant.struct_variant(
                        static_names(f.len()),
                        V { t: Target::VStruct(n, idx, v.name, f), ctx: self.ctx },
                    ),
                }
            }
            _ => Err(de::Error::custom("unexpected enum")),
        }
    }
}

// ------------------------------------------------------------------ Recorder

#[derive(Debug)]
pub struct RecErr(pub String);
impl fmt::Display for RecErr {
    fn fmt(&self, f: &mut fmt::Formatter) -> fmt::Result {
        write!(f, "{}", self.0)
    }
}
impl std::error::Error for RecErr {}
impl ser::Error for RecErr {
    fn custom<T: fmt::Display>(m: T) -> Self {
        RecErr(m.to_string())
    }
}

/// Records the serde call tree of any `Serialize` value.  `is_human_readable` is false,
/// like postcard's serializer, so types that switch representation behave identically.
pub struct Recorder;

pub fn record<T: Serialize + ?Sized>(v: &T) -> Result<Val, RecErr> {
    v.serialize(Recorder)
}

pub struct RecSeq {
    kind: u8, // 0 seq 1 tuple 2 tuple struct 3 tuple variant
    name: Name,
    idx: u32,
    vname: Name,
    declared: Option<usize>,
    items: Vec<Val>,
}
pub struct RecMap {
    declared: Option<usize>,
    items: Vec<(Val, Val)>,
    key: Option<Val>,
}
pub struct RecStruct {
    variant: bool,
    name: Name,
    idx: u32,
    vname: Name,
    declared: usize,
    fields: Vec<(Name, Val)>,
}

impl ser::Serializer for Recorder {
    type Ok = Val;
    type Error = RecErr;
    type SerializeSeq = RecSeq;
    type SerializeTuple = RecSeq;
    type SerializeTupleStruct = RecSeq;
    type SerializeTupleVariant = RecSeq;
    type SerializeMap = RecMap;
    type SerializeStruct = RecStruct;
    type SerializeStructVariant = RecStruct;

    fn is_human_readable(&self) -> bool {
        false
    }
    fn serialize_bool(self, v: bool) -> Result<Val, RecErr> {
        Ok(Val::Bool(v))
    }
    fn serialize_i8(self, v: i8) -> Result<Val, RecErr> {
        Ok(Val::I8(v))
    }
    fn serialize_i16(self, v: i16) -> Result<Val, RecErr> {
        Ok(Val::I16(v))
    }
    fn serialize_i32(self, v: i32) -> Result<Val, RecErr> {
        Ok(Val::I32(v))
    }
    fn serialize_i64(self, v: i64) -> Result<Val, RecErr> {
        Ok(Val::I64(v))
    }
    fn serialize_i128(self, v: i128) -> Result<Val, RecErr> {
        Ok(Val::I128(v))
    }
    fn serialize_u8(self, v: u8) -> Result<Val, RecErr> {
        Ok(Val::U8(v))
    }
    fn serialize_u16(self, v: u16) -> Result<Val, RecErr> {
        Ok(Val::U16(v))
    }
    fn serialize_u32(self, v: u32) -> Result<Val, RecErr> {
        Ok(Val::U32(v))
    }
    fn serialize_u64(self, v: u64) -> Result<Val, RecErr> {
        Ok(Val::U64(v))
    }
    fn serialize_u128(self, v: u128) -> Result<Val, RecErr> {
        Ok(Val::U128(v))
    }
    fn serialize_f32(self, v: f32) -> Result<Val, RecErr> {
        Ok(Val::F32(v.to_bits()))
    }
    fn serialize_f64(self, v: f64) -> Result<Val, RecErr> {
        Ok(Val::F64(v.to_bits()))
    }
    fn serialize_char(self, v: char) -> Result<Val, RecErr> {
        Ok(Val::Char(v))
    }
    fn serialize_str(self, v: &str) -> Result<Val, RecErr> {
        Ok(Val::Str(v.to_string()))
    }
    fn serialize_bytes(self, v: &[u8]) -> Result<Val, RecErr> {
        Ok(Val::Bytes(v.to_vec()))
    }
    fn serialize_none(self) -> Result<Val, RecErr> {
        Ok(Val::None)
    }
    fn serialize_some<T: ?Sized + Serialize>(self, v: &T) -> Result<Val, RecErr> {
        Ok(Val::Some(Box::new(v.serialize(Recorder)?)))
    }
    fn serialize_unit(self) -> Result<Val, RecErr> {
        Ok(Val::Unit)
    }
    fn serialize_unit_struct(self, n: Name) -> Result<Val, RecErr> {
        Ok(Val::UnitStruct(n))
    }
    fn serialize_unit_variant(self, n: Name, i: u32, vn: Name) -> Result<Val, RecErr> {
        Ok(Val::UnitVariant(n, i, vn))
    }
    fn serialize_newtype_struct<T: ?Sized + Serialize>(self, n: Name, v: &T) -> Result<Val, RecErr> {
        Ok(Val::NewtypeStruct(n, Box::new(v.serialize(Recorder)?)))
    }
    fn serialize_newtype_variant<T: ?Sized + Serialize>(self, n: Name, i: u32, vn: Name, v: &T) -> Result<Val, RecErr> {
        Ok(Val::NewtypeVariant(n, i, vn, Box::new(v.serialize(Recorder)?)))
    }
    fn serialize_seq(self, len: Option<usize>) -> Result<RecSeq, RecErr> {
        Ok(RecSeq { kind: 0, name: "", idx: 0, vname: "", declared: len, items: Vec::new() })
    }
    fn serialize_tuple(self, len: usize) -> Result<RecSeq, RecErr> {
        Ok(RecSeq { kind: 1, name: "", idx: 0, vname: "", declared: Some(len), items: Vec::new() })
    }
    fn serialize_tuple_struct(self, n: Name, len: usize) -> Result<RecSeq, RecErr> {
        Ok(RecSeq { kind: 2, name: n, idx: 0, vname: "", declared: Some(len), items: Vec::new() })
    }
    fn serialize_tuple_variant(self, n: Name, i: u32, vn: Name, len: usize) -> Result<RecSeq, RecErr> {
        Ok(RecSeq { kind: 3, name: n, idx: i, vname: vn, declared: Some(len), items: Vec::new() })
    }
    fn serialize_map(self, len: Option<usize>) -> Result<RecMap, RecErr> {
        Ok(RecMap { declared: len, items: Vec::new(), key: None })
    }
    fn serialize_struct(self, n: Name, len: usize) -> Result<RecStruct, RecErr> {
        Ok(RecStruct { variant: false, name: n, idx: 0, vname: "", declared: len, fields: Vec::new() })
    }
    fn serialize_struct_variant(self, n: Name, i: u32, vn: Name, len: usize) -> Result<RecStruct, RecErr> {
        Ok(RecStruct { variant: true, name: n, idx: i, vname: vn, declared: len, fields: Vec::new() })
    }
}

impl RecSeq {
    fn finish(self) -> Result<Val, RecErr> {
        if let Some(d) = self.declared {
            if d != self.items.len() {
                return Err(RecErr(format!("declared length {} but {} elements serialised", d, self.items.len())));
            }
        } else {
            return Err(RecErr("sequence of undeclared length".into()));
        }
        Ok(match self.kind {
            0 => Val::Seq(self.items),
            1 => Val::Tuple(self.items),
            2 => Val::TupleStruct(self.name, self.items),
            _ => Val::TupleVariant(self.name, self.idx, self.vname, self.items),
        })
    }
}
impl SerializeSeq for RecSeq {
    type Ok = Val;
    type Error = RecErr;
    fn serialize_element<T: ?Sized + Serialize>(&mut self, v: &T) -> Result<(), RecErr> {
        self.items.push(v.serialize(Recorder)?);
        Ok(())
    }
    fn end(self) -> Result<Val, RecErr> {
        self.finish()
    }
}
impl SerializeTuple for RecSeq {
    type Ok = Val;
    type Error = RecErr;
    fn serialize_element<T: ?Sized + Serialize>(&mut self, v: &T) -> Result<(), RecErr> {
        self.items.push(v.serialize(Recorder)?);
        Ok(())
    }
    fn end(self) -> Result<Val, RecErr> {
        self.finish()
    }
}
impl SerializeTupleStruct for RecSeq {
    type Ok = Val;
    type Error = RecErr;
    fn serialize_field<T: ?Sized + Serialize>(&mut self, v: &T) -> Result<(), RecErr> {
        self.items.push(v.serialize(Recorder)?);
        Ok(())
    }
    fn end(self) -> Result<Val, RecErr> {
        self.finish()
    }
}
impl SerializeTupleVariant for RecSeq {
    type Ok = Val;
    type Error = RecErr;
    fn serialize_field<T: ?Sized + Serialize>(&mut self, v: &T) -> Result<(), RecErr> {
        self.items.push(v.serialize(Recorder)?);
        Ok(())
    }
    fn end(self) -> Result<Val, RecErr> {
        self.finish()
    }
}
impl SerializeMap for RecMap {
    type Ok = Val;
    type Error = RecErr;
    fn serialize_key<T: ?Sized + Serialize>(&mut self, k: &T) -> Result<(), RecErr> {
        self.key = Some(k.serialize(Recorder)?);
        Ok(())
    }
    fn serialize_value<T: ?Sized + Serialize>(&mut self, v: &T) -> Result<(), RecErr> {
        let k = self.key.take().ok_or_else(|| RecErr("value without key".into()))?;
        self.items.push((k, v.serialize(Recorder)?));
        Ok(())
    }
    fn end(self) -> Result<Val, RecErr> {
        match self.declared {
            Some(d) if d == self.items.len() => Ok(Val::Map(self.items)),
            Some(d) => Err(RecErr(format!("declared map length {} but {} entries", d, self.items.len()))),
            None => Err(RecErr("map of undeclared length".into())),
        }
    }
}
impl RecStruct {
    fn finish(self) -> Result<Val, RecErr> {
        if self.declared != self.fields.len() {
            return Err(RecErr(format!("declared {} fields but {} serialised", self.declared, self.fields.len())));
        }
        Ok(if self.variant {
            Val::StructVariant(self.name, self.idx, self.vname, self.fields)
        } else {
            Val::Struct(self.name, self.fields)
        })
    }
}
impl SerializeStruct for RecStruct {
    type Ok = Val;
    type Error = RecErr;
    fn serialize_field<T: ?Sized + Serialize>(&mut self, k: Name, v: &T) -> Result<(), RecErr> {
        self.fields.push((k, v.serialize(Recorder)?));
        Ok(())
    }
    fn end(self) -> Result<Val, RecErr> {
        self.finish()
    }
}
impl SerializeStructVariant for RecStruct {
    type Ok = Val;
    type Error = RecErr;
    fn serialize_field<T: ?Sized + Serialize>(&mut self, k: Name, v: &T) -> Result<(), RecErr> {
        self.fields.push((k, v.serialize(Recorder)?));
        Ok(())
    }
    fn end(self) -> Result<Val, RecErr> {
        self.finish()
    }
}

/// Normalise map entry order (HashMap iteration order is not stable) for comparisons.
pub fn normalise_maps(v: &mut Val) {
    match v {
        Val::Some(a) | Val::NewtypeStruct(_, a) | Val::NewtypeVariant(_, _, _, a) => normalise_maps(a),
        Val::Seq(x) | Val::Tuple(x) | Val::TupleStruct(_, x) | Val::TupleVariant(_, _, _, x) => {
            x.iter_mut().for_each(normalise_maps)
        }
        Val::Struct(_, f) | Val::StructVariant(_, _, _, f) => f.iter_mut().for_each(|(_, x)| normalise_maps(x)),
        Val::Map(m) => {
            for (k, x) in m.iter_mut() {
                normalise_maps(k);
                normalise_maps(x);
            }
            m.sort_by(|a, b| crate::spec::encode(&a.0).cmp(&crate::spec::encode(&b.0)));
        }
        _ => {}
    }
}

// ------------------------------------------------------------------ DynVal: a `Deserialize` type whose shape is chosen at run time
//
// postcard's convenience entry points (`from_bytes`, `take_from_bytes`, `from_bytes_cobs`,
// `from_io`, the CRC helpers, the accumulator) want `T: Deserialize`, not a seed.  `DynVal`
// reads the shape from a thread-local set by `with_shape`, so *every* public entry point can
// be driven with run-time generated type shapes.

thread_local! {
    static DYN_SHAPE: std::cell::Cell<*const Shape> = const { std::cell::Cell::new(std::ptr::null()) };
    static DYN_CTX: Ctx = Ctx::default();
}

#[derive(Debug, Clone, PartialEq)]
pub struct DynVal(pub Val);

/// Run `f` with `shape` as the shape `DynVal::deserialize` decodes.
pub fn with_shape<R>(shape: &Shape, f: impl FnOnce() -> R) -> R {
    struct Reset(*const Shape);
    impl Drop for Reset {
        fn drop(&mut self) {
            DYN_SHAPE.with(|c| c.set(self.0));
        }
    }
    let prev = DYN_SHAPE.with(|c| c.replace(shape as *const Shape));
    let _r = Reset(prev);
    DYN_CTX.with(|c| c.clear());
    f()
}

/// Did any deserializer claim to be human readable since the last `with_shape`?
pub fn human_readable_seen() -> bool {
    DYN_CTX.with(|c| c.human_readable_seen.get())
}

/// Did the harness visitor stop a zero-width flood since the last `with_shape`?
pub fn flooded() -> bool {
    DYN_CTX.with(|c| c.flood.get())
}

/// Pointer ranges recorded by the visitors since the last `with_shape`.
pub fn take_strs() -> Vec<(usize, usize, bool)> {
    DYN_CTX.with(|c| std::mem::take(&mut *c.strs.borrow_mut()))
}

impl<'de> serde::Deserialize<'de> for DynVal {
    fn deserialize<D: de::Deserializer<'de>>(d: D) -> Result<DynVal, D::Error> {
        let p = DYN_SHAPE.with(|c| c.get());
        if p.is_null() {
            return Err(de::Error::custom("DynVal used outside with_shape"));
        }
        // SAFETY: `with_shape` keeps the shape alive for the duration of the closure and
        // resets the pointer afterwards; deserialisation happens inside that closure.
        let shape: &Shape = unsafe { &*p };
        DYN_CTX.with(|ctx| {
            // SAFETY: the thread-local outlives this call; the reference does not escape it.
            let ctx: &Ctx = unsafe { &*(ctx as *const Ctx) };
            Seed { shape, ctx }.deserialize(d).map(DynVal)
        })
    }
}

impl Serialize for DynVal {
    fn serialize<S: ser::Serializer>(&self, s: S) -> Result<S::Ok, S::Error> {
        self.0.serialize(s)
    }
}
