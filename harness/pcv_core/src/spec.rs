//! Reference encoder / decoder written from `spec/src/wire-format.md`, independent of
//! postcard's implementation (no shifts-and-masks copied from it: varints by repeated
//! `% 128`, `/ 128` on u128; zig-zag by its arithmetic definition).  `selfcheck` parses
//! the tables of the markdown document and requires this module to reproduce every row.

use crate::model::{Shape, VData, Val};

#[derive(Clone, Copy, Debug, PartialEq, Eq, Hash)]
pub enum SpecErr {
    UnexpectedEnd,
    BadVarint,
    BadBool,
    BadOption,
    BadUtf8,
    BadChar,
    /// discriminant not declared by the enum (serde-derive's mapping: any Err accepted)
    BadEnumIndex,
}

impl SpecErr {
    pub fn label(self) -> &'static str {
        match self {
            SpecErr::UnexpectedEnd => "unexpected_end",
            SpecErr::BadVarint => "bad_varint",
            SpecErr::BadBool => "bad_bool",
            SpecErr::BadOption => "bad_option",
            SpecErr::BadUtf8 => "bad_utf8",
            SpecErr::BadChar => "bad_char",
            SpecErr::BadEnumIndex => "bad_enum_index",
        }
    }
}

// ------------------------------------------------------------------ encode

pub fn varint(mut v: u128, out: &mut Vec<u8>) {
    loop {
        let b = (v % 128) as u8;
        v /= 128;
        if v == 0 {
            out.push(b);
            return;
        } else {
            out.push(b + 128);
        }
    }
}

/// zig-zag by definition: n >= 0 -> 2n ; n < 0 -> 2(-(n+1)) + 1
pub fn zigzag(n: i128) -> u128 {
    if n >= 0 {
        (n as u128) * 2
    } else {
        ((-(n + 1)) as u128) * 2 + 1
    }
}
pub fn unzigzag(z: u128) -> i128 {
    let half = (z / 2) as i128;
    if z % 2 == 0 {
        half
    } else {
        -half - 1
    }
}

pub fn encode(v: &Val) -> Vec<u8> {
    let mut out = Vec::new();
    enc(v, &mut out);
    out
}

fn enc_len(n: usize, out: &mut Vec<u8>) {
    varint(n as u128, out)
}

pub fn enc(v: &Val, out: &mut Vec<u8>) {
    match v {
        Val::Bool(b) => out.push(if *b { 1 } else { 0 }),
        Val::I8(x) => out.push(x.to_le_bytes()[0]),
        Val::U8(x) => out.push(*x),
        Val::I16(x) => varint(zigzag(*x as i128), out),
        Val::I32(x) => varint(zigzag(*x as i128), out),
        Val::I64(x) => varint(zigzag(*x as i128), out),
        Val::I128(x) => varint(zigzag(*x), out),
        Val::U16(x) => varint(*x as u128, out),
        Val::U32(x) => varint(*x as u128, out),
        Val::U64(x) => varint(*x as u128, out),
        Val::U128(x) => varint(*x, out),
        Val::F32(bits) => {
            let mut b = *bits;
            for _ in 0..4 {
                out.push((b % 256) as u8);
                b /= 256;
            }
        }
        Val::F64(bits) => {
            let mut b = *bits;
            for _ in 0..8 {
                out.push((b % 256) as u8);
                b /= 256;
            }
        }
        Val::Char(c) => {
            let mut buf = [0u8; 4];
            let s = c.encode_utf8(&mut buf);
            enc_len(s.len(), out);
            out.extend_from_slice(s.as_bytes());
        }
        Val::Str(s) => {
            enc_len(s.len(), out);
            out.extend_from_slice(s.as_bytes());
        }
        Val::Bytes(b) => {
            enc_len(b.len(), out);
            out.extend_from_slice(b);
        }
        Val::None => out.push(0),
        Val::Some(a) => {
            out.push(1);
            enc(a, out)
        }
        Val::Unit | Val::UnitStruct(_) => {}
        Val::NewtypeStruct(_, a) => enc(a, out),
        Val::Seq(items) => {
            enc_len(items.len(), out);
            for i in items {
                enc(i, out)
            }
        }
        Val::Tuple(items) | Val::TupleStruct(_, items) => {
            for i in items {
                enc(i, out)
            }
        }
        Val::Map(m) => {
            enc_len(m.len(), out);
            for (k, v) in m {
                enc(k, out);
                enc(v, out);
            }
        }
        Val::Struct(_, f) => {
            for (_, v) in f {
                enc(v, out)
            }
        }
        Val::UnitVariant(_, i, _) => varint(*i as u128, out),
        Val::NewtypeVariant(_, i, _, a) => {
            varint(*i as u128, out);
            enc(a, out)
        }
        Val::TupleVariant(_, i, _, items) => {
            varint(*i as u128, out);
            for x in items {
                enc(x, out)
            }
        }
        Val::StructVariant(_, i, _, f) => {
            varint(*i as u128, out);
            for (_, x) in f {
                enc(x, out)
            }
        }
    }
}

// ------------------------------------------------------------------ decode

pub struct Decoded {
    pub val: Val,
    pub consumed: usize,
    /// (offset, len) of every string / byte-array payload, in wire order
    pub borrows: Vec<(usize, usize)>,
    /// scratch bytes a reader-based decode needs: payloads of str/bytes/char + 4/8 per float
    pub scratch_need: usize,
    /// (offset, len, bits) of every varint located, in wire order
    pub varints: Vec<(usize, usize, u32)>,
}

struct D<'a> {
    b: &'a [u8],
    i: usize,
    borrows: Vec<(usize, usize)>,
    scratch: usize,
    varints: Vec<(usize, usize, u32)>,
    /// budget on total elements decoded (guards the oracle against claimed 2^60 zero-width elements)
    budget: u64,
}

/// ceil(bits / 7)
pub fn varint_max_len(bits: u32) -> usize {
    ((bits + 6) / 7) as usize
}

#[derive(Debug)]
pub enum DecodeFail {
    Spec(SpecErr),
    /// the oracle gave up (element budget exhausted) - inconclusive, never a verdict
    OracleBudget,
}

impl<'a> D<'a> {
    fn byte(&mut self) -> Result<u8, DecodeFail> {
        if self.i >= self.b.len() {
            return Err(DecodeFail::Spec(SpecErr::UnexpectedEnd));
        }
        let x = self.b[self.i];
        self.i += 1;
        Ok(x)
    }
    fn take(&mut self, n: usize) -> Result<&'a [u8], DecodeFail> {
        let remain = self.b.len() - self.i;
        if n > remain {
            return Err(DecodeFail::Spec(SpecErr::UnexpectedEnd));
        }
        let s = &self.b[self.i..self.i + n];
        self.i += n;
        Ok(s)
    }
    /// varint(N) per "Maximum Encoded Length" and "Canonicalization"
    fn varint(&mut self, bits: u32) -> Result<u128, DecodeFail> {
        let max_len = varint_max_len(bits);
        let start = self.i;
        let mut value: u128 = 0;
        let mut weight: u128 = 1; // 128^k
        for k in 0..max_len {
            let b = self.byte()?;
            let data = (b % 128) as u128;
            let cont = b >= 128;
            let last_permitted = k == max_len - 1;
            if last_permitted {
                // bits still available in the type
                let avail = bits - 7 * (max_len as u32 - 1);
                if cont {
                    return Err(DecodeFail::Spec(SpecErr::BadVarint)); // exceeds max encoded length
                }
                if avail < 7 && data >= (1u128 << avail) {
                    return Err(DecodeFail::Spec(SpecErr::BadVarint)); // exceeds max value of type
                }
            }
            value += data * weight;
            if !cont {
                self.varints.push((start, self.i - start, bits));
                return Ok(value);
            }
            if !last_permitted {
                weight *= 128;
            }
        }
        unreachable!()
    }
    fn len(&mut self) -> Result<usize, DecodeFail> {
        // lengths are varint(usize): the width of the target's pointers bounds both the value and the number of bytes
        Ok(self.varint(usize::BITS)? as usize)
    }
    fn spend(&mut self) -> Result<(), DecodeFail> {
        if self.budget == 0 {
            return Err(DecodeFail::OracleBudget);
        }
        self.budget -= 1;
        Ok(())
    }

    fn fields(&mut self, f: &[(crate::model::Name, Shape)]) -> Result<Vec<(crate::model::Name, Val)>, DecodeFail> {
        let mut out = Vec::with_capacity(f.len());
        for (n, s) in f {
            out.push((*n, self.dec(s)?));
        }
        Ok(out)
    }
    fn list(&mut self, f: &[Shape]) -> Result<Vec<Val>, DecodeFail> {
        let mut out = Vec::with_capacity(f.len());
        for s in f {
            out.push(self.dec(s)?);
        }
        Ok(out)
    }

    fn dec(&mut self, s: &Shape) -> Result<Val, DecodeFail> {
        self.spend()?;
        Ok(match s {
            Shape::Bool => match self.byte()? {
                0 => Val::Bool(false),
                1 => Val::Bool(true),
                _ => return Err(DecodeFail::Spec(SpecErr::BadBool)),
            },
            Shape::I8 => Val::I8(i8::from_le_bytes([self.byte()?])),
            Shape::U8 => Val::U8(self.byte()?),
            Shape::I16 => Val::I16(unzigzag(self.varint(16)?) as i16),
            Shape::I32 => Val::I32(unzigzag(self.varint(32)?) as i32),
            Shape::I64 | Shape::Isize => Val::I64(unzigzag(self.varint(64)?) as i64),
            Shape::I128 => Val::I128(unzigzag(self.varint(128)?)),
            Shape::U16 => Val::U16(self.varint(16)? as u16),
            Shape::U32 => Val::U32(self.varint(32)? as u32),
            Shape::U64 | Shape::Usize => Val::U64(self.varint(64)? as u64),
            Shape::U128 => Val::U128(self.varint(128)?),
            Shape::F32 => {
                let b = self.take(4)?;
                self.scratch += 4;
                let mut bits: u32 = 0;
                for k in (0..4).rev() {
                    bits = bits * 256 + b[k] as u32;
                }
                Val::F32(bits)
            }
            Shape::F64 => {
                let b = self.take(8)?;
                self.scratch += 8;
                let mut bits: u64 = 0;
                for k in (0..8).rev() {
                    bits = bits * 256 + b[k] as u64;
                }
                Val::F64(bits)
            }
            Shape::Char => {
                let n = self.len()?;
                if n > 4 {
                    return Err(DecodeFail::Spec(SpecErr::BadChar));
                }
                let b = self.take(n)?;
                self.scratch += n;
                let st = std::str::from_utf8(b).map_err(|_| DecodeFail::Spec(SpecErr::BadChar))?;
                let mut it = st.chars();
                match (it.next(), it.next()) {
                    (Some(c), None) => Val::Char(c),
                    _ => return Err(DecodeFail::Spec(SpecErr::BadChar)),
                }
            }
            Shape::Str => {
                let n = self.len()?;
                let off = self.i;
                let b = self.take(n)?;
                self.scratch += n;
                let st = std::str::from_utf8(b).map_err(|_| DecodeFail::Spec(SpecErr::BadUtf8))?;
                self.borrows.push((off, n));
                Val::Str(st.to_string())
            }
            Shape::Bytes => {
                let n = self.len()?;
                let off = self.i;
                let b = self.take(n)?;
                self.scratch += n;
                self.borrows.push((off, n));
                Val::Bytes(b.to_vec())
            }
            Shape::Option(inner) => match self.byte()? {
                0 => Val::None,
                1 => Val::Some(Box::new(self.dec(inner)?)),
                _ => return Err(DecodeFail::Spec(SpecErr::BadOption)),
            },
            Shape::Unit => Val::Unit,
            Shape::UnitStruct(n) => Val::UnitStruct(n),
            Shape::NewtypeStruct(n, a) => Val::NewtypeStruct(n, Box::new(self.dec(a)?)),
            Shape::Seq(e) => {
                let n = self.len()?;
                let mut v = Vec::new();
                for _ in 0..n {
                    v.push(self.dec(e)?);
                }
                Val::Seq(v)
            }
            Shape::Tuple(f) => Val::Tuple(self.list(f)?),
            Shape::TupleStruct(n, f) => Val::TupleStruct(n, self.list(f)?),
            Shape::Map(k, v) => {
                let n = self.len()?;
                let mut m = Vec::new();
                for _ in 0..n {
                    let kk = self.dec(k)?;
                    let vv = self.dec(v)?;
                    m.push((kk, vv));
                }
                Val::Map(m)
            }
            Shape::Struct(n, f) => Val::Struct(n, self.fields(f)?),
            Shape::Enum(n, vs) => {
                let idx = self.varint(32)? as u32;
                let v = match vs.get(idx as usize) {
                    Some(v) => v,
                    None => return Err(DecodeFail::Spec(SpecErr::BadEnumIndex)),
                };
                match &v.data {
                    VData::Unit => Val::UnitVariant(n, idx, v.name),
                    VData::Newtype(a) => Val::NewtypeVariant(n, idx, v.name, Box::new(self.dec(a)?)),
                    VData::Tuple(f) => Val::TupleVariant(n, idx, v.name, self.list(f)?),
                    VData::Struct(f) => Val::StructVariant(n, idx, v.name, self.fields(f)?),
                }
            }
        })
    }
}

pub fn decode(shape: &Shape, bytes: &[u8]) -> Result<Decoded, DecodeFail> {
    decode_budget(shape, bytes, 4_000_000)
}

pub fn decode_budget(shape: &Shape, bytes: &[u8], budget: u64) -> Result<Decoded, DecodeFail> {
    let mut d = D { b: bytes, i: 0, borrows: Vec::new(), scratch: 0, varints: Vec::new(), budget };
    let val = d.dec(shape)?;
    Ok(Decoded { val, consumed: d.i, borrows: d.borrows, scratch_need: d.scratch, varints: d.varints })
}

/// Standalone reference varint decode (for the exhaustive sub-spaces): returns (value, consumed).
pub fn decode_varint(bits: u32, bytes: &[u8]) -> Result<(u128, usize), SpecErr> {
    let mut d = D { b: bytes, i: 0, borrows: Vec::new(), scratch: 0, varints: Vec::new(), budget: 10 };
    match d.varint(bits) {
        Ok(v) => Ok((v, d.i)),
        Err(DecodeFail::Spec(e)) => Err(e),
        Err(DecodeFail::OracleBudget) => unreachable!(),
    }
}

// ------------------------------------------------------------------ self validation against the document

/// Parse `[0x80, 0x01]`-style byte lists.
fn parse_bytes(cell: &str) -> Option<Vec<u8>> {
    let c = cell.trim().trim_matches('`');
    let c = c.trim().strip_prefix('[')?.strip_suffix(']')?;
    let mut v = Vec::new();
    for p in c.split(',') {
        let p = p.trim();
        if p.is_empty() {
            continue;
        }
        let p = p.strip_prefix("0x")?;
        v.push(u8::from_str_radix(p, 16).ok()?);
    }
    Some(v)
}

fn table_rows(md: &str) -> Vec<Vec<String>> {
    md.lines()
        .filter(|l| l.trim_start().starts_with('|'))
        .map(|l| l.trim().trim_matches('|').split('|').map(|c| c.trim().to_string()).collect())
        .collect()
}

/// Returns Ok(number of rows reproduced) or Err(description): the oracle disagrees with
/// the document it was written from => inconclusive, never a violation.
pub fn selfcheck(md: &str) -> Result<usize, String> {
    let mut checked = 0usize;
    let mut seen_u16 = 0;
    let mut seen_i16 = 0;
    let mut seen_max = 0;
    let mut seen_canon = 0;
    for row in table_rows(md) {
        // unsigned example rows: Dec | Hex | encoded | Length
        if row.len() == 4 {
            if let (Ok(dec), Some(bytes), Ok(len)) =
                (row[0].parse::<u64>(), parse_bytes(&row[2]), row[3].parse::<usize>())
            {
                if row[1].starts_with("`0x") {
                    let e = encode(&Val::U16(dec as u16));
                    if e != bytes || e.len() != len {
                        return Err(format!("u16 example {} -> {:?}, document says {:?}", dec, e, bytes));
                    }
                    match decode(&Shape::U16, &bytes) {
                        Ok(d) if d.val == Val::U16(dec as u16) && d.consumed == len => {}
                        _ => return Err(format!("u16 example {} does not decode back", dec)),
                    }
                    checked += 1;
                    seen_u16 += 1;
                    continue;
                }
            }
            // max-length table: Type | Varint Type | Type length | Varint length max
            if row[0].starts_with('`') && row[1].starts_with("`varint(") {
                if let (Ok(tl), Ok(ml)) = (row[2].parse::<u32>(), row[3].parse::<usize>()) {
                    if varint_max_len(tl * 8) != ml {
                        return Err(format!("max length for {} bytes: {} vs document {}", tl, varint_max_len(tl * 8), ml));
                    }
                    checked += 1;
                    seen_max += 1;
                    continue;
                }
            }
            // canonicalization table: Value | Encoded | Canonical? | Accepted?
            if let (Ok(val), Some(bytes)) = (row[0].parse::<u64>(), parse_bytes(&row[1])) {
                let accepted = row[3].starts_with("Yes");
                let canonical = row[2].starts_with("Yes");
                let got = decode_varint(16, &bytes);
                match (accepted, &got) {
                    (true, Ok((v, n))) if *v == val as u128 && *n == bytes.len() => {}
                    (false, Err(SpecErr::BadVarint)) => {}
                    _ => {
                        return Err(format!("canonicalization row {:?}: oracle says {:?}", row, got));
                    }
                }
                if val <= 65535 {
                    let e = encode(&Val::U16(val as u16));
                    if canonical != (e == bytes) {
                        return Err(format!("canonical flag mismatch for row {:?}", row));
                    }
                }
                checked += 1;
                seen_canon += 1;
                continue;
            }
        }
        // signed example rows: Dec | Hex | Zigzag | encoded | Length
        if row.len() == 5 {
            if let (Ok(dec), Some(bytes), Ok(len)) =
                (row[0].parse::<i64>(), parse_bytes(&row[3]), row[4].parse::<usize>())
            {
                let zz = row[2].trim_matches('`').trim_start_matches("0x").replace('_', "");
                let zz = u128::from_str_radix(&zz, 16).map_err(|e| e.to_string())?;
                if zigzag(dec as i128) != zz {
                    return Err(format!("zigzag({}) = {:#x}, document says {:#x}", dec, zigzag(dec as i128), zz));
                }
                let e = encode(&Val::I16(dec as i16));
                if e != bytes || e.len() != len {
                    return Err(format!("i16 example {} -> {:?}, document says {:?}", dec, e, bytes));
                }
                match decode(&Shape::I16, &bytes) {
                    Ok(d) if d.val == Val::I16(dec as i16) => {}
                    _ => return Err(format!("i16 example {} does not decode back", dec)),
                }
                checked += 1;
                seen_i16 += 1;
            }
        }
    }
    // float examples quoted in the prose
    if md.contains("`0xc200_0600u32`") && md.contains("`[0x00, 0x06, 0x00, 0xc2]`") {
        if encode(&Val::F32(0xc200_0600)) != [0x00, 0x06, 0x00, 0xc2] {
            return Err("f32 example".into());
        }
        if (-32.005859375f32).to_bits() != 0xc200_0600 {
            return Err("f32 example bits".into());
        }
        checked += 1;
    } else {
        return Err("f32 example not found in document".into());
    }
    if md.contains("`0xc040_00c0_0000_0000u64`") && md.contains("`[0x00, 0x00, 0x00, 0x00, 0xc0, 0x00, 0x40, 0xc0]`") {
        if encode(&Val::F64(0xc040_00c0_0000_0000)) != [0x00, 0x00, 0x00, 0x00, 0xc0, 0x00, 0x40, 0xc0] {
            return Err("f64 example".into());
        }
        checked += 1;
    } else {
        return Err("f64 example not found in document".into());
    }
    if seen_u16 < 7 || seen_i16 < 9 || seen_max < 8 || seen_canon < 7 {
        return Err(format!(
            "document tables not found as expected (u16 {}, i16 {}, maxlen {}, canon {})",
            seen_u16, seen_i16, seen_max, seen_canon
        ));
    }
    Ok(checked)
}
