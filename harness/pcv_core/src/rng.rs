//! xoshiro256** PRNG seeded through splitmix64.  Hand-written so that replay and
//! partitioning are fully under the harness's control (no external crates).

#[derive(Clone)]
pub struct Rng {
    s: [u64; 4],
}

fn splitmix(x: &mut u64) -> u64 {
    *x = x.wrapping_add(0x9E37_79B9_7F4A_7C15);
    let mut z = *x;
    z = (z ^ (z >> 30)).wrapping_mul(0xBF58_476D_1CE4_E5B9);
    z = (z ^ (z >> 27)).wrapping_mul(0x94D0_49BB_1331_11EB);
    z ^ (z >> 31)
}

impl Rng {
    pub fn new(seed: u64) -> Self {
        let mut x = seed;
        let s = [splitmix(&mut x), splitmix(&mut x), splitmix(&mut x), splitmix(&mut x)];
        Rng { s }
    }
    /// Independent stream for (seed, lane, sub-lane).
    pub fn derive(seed: u64, a: u64, b: u64) -> Self {
        let mut x = seed ^ a.wrapping_mul(0xA24B_AED4_963E_E407) ^ b.wrapping_mul(0x9FB2_1C65_1E98_DF25);
        let _ = splitmix(&mut x);
        Rng::new(x)
    }
    #[inline]
    pub fn next(&mut self) -> u64 {
        let r = self.s[1].wrapping_mul(5).rotate_left(7).wrapping_mul(9);
        let t = self.s[1] << 17;
        self.s[2] ^= self.s[0];
        self.s[3] ^= self.s[1];
        self.s[1] ^= self.s[2];
        self.s[0] ^= self.s[3];
        self.s[2] ^= t;
        self.s[3] = self.s[3].rotate_left(45);
        r
    }
    #[inline]
    pub fn u128(&mut self) -> u128 {
        ((self.next() as u128) << 64) | self.next() as u128
    }
    /// Uniform in 0..n (n > 0).
    #[inline]
    pub fn below(&mut self, n: u64) -> u64 {
        debug_assert!(n > 0);
        // multiply-shift; bias negligible for our n
        ((self.next() as u128 * n as u128) >> 64) as u64
    }
    #[inline]
    pub fn range(&mut self, lo: usize, hi_incl: usize) -> usize {
        lo + self.below((hi_incl - lo + 1) as u64) as usize
    }
    #[inline]
    pub fn chance(&mut self, num: u64, den: u64) -> bool {
        self.below(den) < num
    }
    #[inline]
    pub fn pick<'a, T>(&mut self, xs: &'a [T]) -> &'a T {
        &xs[self.below(xs.len() as u64) as usize]
    }
    pub fn bytes(&mut self, n: usize) -> Vec<u8> {
        let mut v = Vec::with_capacity(n);
        while v.len() < n {
            let x = self.next().to_le_bytes();
            let k = (n - v.len()).min(8);
            v.extend_from_slice(&x[..k]);
        }
        v
    }
}

/// FNV-1a 64 fingerprint used for distinct-case counting.
#[inline]
pub fn fp(bytes: &[u8]) -> u64 {
    let mut h: u64 = 0xcbf2_9ce4_8422_2325;
    for b in bytes {
        h ^= *b as u64;
        h = h.wrapping_mul(0x0000_0100_0000_01b3);
    }
    h
}
#[inline]
pub fn fp_mix(a: u64, b: u64) -> u64 {
    let mut x = a ^ b.wrapping_mul(0x9E37_79B9_7F4A_7C15);
    x ^= x >> 32;
    x = x.wrapping_mul(0xD6E8_FEB8_6659_FD93);
    x ^= x >> 32;
    x
}
