//! Conformance of a recorded serde call tree to a schema, plus the per-type driver (shared by
//! the full build and the alloc-only build of the C14 check).

use crate::conv::*;
use pcv_core::bridge::record;
use pcv_core::corpus::{corpus_value, HasShape};
use pcv_core::gen::ValGen;
use pcv_core::json::{hex, J};
use pcv_core::mem::catch;
use pcv_core::model::*;
use pcv_core::rng::{fp, fp_mix};
use pcv_core::run::*;
use postcard_schema::schema::owned::{OwnedData, OwnedDataModelType, OwnedNamedField};
use postcard_schema::Schema;
use serde::{Deserialize, Serialize};

/// Does the recorded value conform to the schema?  Err(path: reason).
pub fn conforms(v: &Val, s: &OwnedDataModelType, flatten_tuples: bool) -> Result<(), String> {
    use OwnedDataModelType as O;
    fn fields(got: &[(Name, Val)], want: &[OwnedNamedField], fl: bool, what: &str) -> Result<(), String> {
        if got.len() != want.len() {
            return Err(format!("{}: {} fields serialised, schema lists {}", what, got.len(), want.len()));
        }
        for (i, ((gn, gv), w)) in got.iter().zip(want.iter()).enumerate() {
            if *gn != &*w.name {
                return Err(format!("{}: field #{} is serialised as '{}' but the schema names it '{}'", what, i, gn, w.name));
            }
            conforms(gv, &w.ty, fl).map_err(|e| format!("{}.{}: {}", what, gn, e))?;
        }
        Ok(())
    }
    fn list(got: &[Val], want: &[OwnedDataModelType], fl: bool, what: &str) -> Result<(), String> {
        if got.len() != want.len() {
            return Err(format!("{}: arity {} serialised, schema says {}", what, got.len(), want.len()));
        }
        for (i, (g, w)) in got.iter().zip(want.iter()).enumerate() {
            conforms(g, w, fl).map_err(|e| format!("{}.{}: {}", what, i, e))?;
        }
        Ok(())
    }
    let mismatch = |what: &str| Err(format!("serialised as {} but the schema says {:?}", what, s));
    match (s, v) {
        (O::Bool, Val::Bool(_)) => Ok(()),
        (O::I8, Val::I8(_)) | (O::U8, Val::U8(_)) => Ok(()),
        (O::I16, Val::I16(_)) | (O::I32, Val::I32(_)) | (O::I64, Val::I64(_)) | (O::I128, Val::I128(_)) => Ok(()),
        (O::U16, Val::U16(_)) | (O::U32, Val::U32(_)) | (O::U64, Val::U64(_)) | (O::U128, Val::U128(_)) => Ok(()),
        (O::Usize, Val::U64(_)) | (O::Isize, Val::I64(_)) => Ok(()),
        (O::F32, Val::F32(_)) | (O::F64, Val::F64(_)) => Ok(()),
        (O::Char, Val::Char(_)) => Ok(()),
        (O::String, Val::Str(_)) => Ok(()),
        (O::ByteArray, Val::Bytes(_)) => Ok(()),
        (O::Option(_), Val::None) => Ok(()),
        (O::Option(i), Val::Some(x)) => conforms(x, i, flatten_tuples).map_err(|e| format!("Some: {}", e)),
        (O::Unit, Val::Unit) => Ok(()),
        (O::Seq(e), Val::Seq(items)) => {
            for (i, x) in items.iter().enumerate() {
                conforms(x, e, flatten_tuples).map_err(|er| format!("[{}]: {}", i, er))?;
            }
            Ok(())
        }
        (O::Tuple(w), Val::Tuple(items)) => {
            if flatten_tuples {
                // nalgebra: matrix storage serialises as nested arrays, schema is the flattened tuple
                fn flat(v: &Val, out: &mut Vec<Val>) {
                    match v {
                        Val::Tuple(x) => x.iter().for_each(|i| flat(i, out)),
                        o => out.push(o.clone()),
                    }
                }
                let mut f = Vec::new();
                flat(v, &mut f);
                list(&f, w, false, "tuple(flattened)")
            } else {
                list(items, w, false, "tuple")
            }
        }
        (O::Map { key, val }, Val::Map(m)) => {
            for (k, x) in m {
                conforms(k, key, flatten_tuples).map_err(|e| format!("map key: {}", e))?;
                conforms(x, val, flatten_tuples).map_err(|e| format!("map value: {}", e))?;
            }
            Ok(())
        }
        (O::Struct { data: OwnedData::Unit, .. }, Val::UnitStruct(_)) => Ok(()),
        (O::Struct { data: OwnedData::Newtype(i), .. }, Val::NewtypeStruct(_, x)) => conforms(x, i, flatten_tuples).map_err(|e| format!("newtype: {}", e)),
        (O::Struct { data: OwnedData::Tuple(w), .. }, Val::TupleStruct(_, items)) => list(items, w, flatten_tuples, "tuple struct"),
        (O::Struct { data: OwnedData::Struct(w), .. }, Val::Struct(_, f)) => fields(f, w, flatten_tuples, "struct"),
        (O::Enum { variants, .. }, Val::UnitVariant(_, i, vn))
        | (O::Enum { variants, .. }, Val::NewtypeVariant(_, i, vn, _))
        | (O::Enum { variants, .. }, Val::TupleVariant(_, i, vn, _))
        | (O::Enum { variants, .. }, Val::StructVariant(_, i, vn, _)) => {
            let w = variants.get(*i as usize).ok_or_else(|| format!("variant index {} serialised, schema lists {} variants", i, variants.len()))?;
            if &*w.name != *vn {
                return Err(format!("variant index {} is serialised as '{}' but the schema names it '{}'", i, vn, w.name));
            }
            match (&w.data, v) {
                (OwnedData::Unit, Val::UnitVariant(..)) => Ok(()),
                (OwnedData::Newtype(ty), Val::NewtypeVariant(_, _, _, x)) => conforms(x, ty, flatten_tuples).map_err(|e| format!("{}: {}", vn, e)),
                (OwnedData::Tuple(ws), Val::TupleVariant(_, _, _, items)) => list(items, ws, flatten_tuples, vn),
                (OwnedData::Struct(ws), Val::StructVariant(_, _, _, f)) => fields(f, ws, flatten_tuples, vn),
                (d, _) => Err(format!("variant '{}' is serialised as a {} but the schema says {:?}", vn, v.kind(), d)),
            }
        }
        (O::Schema, _) => conforms_meta(v),
        _ => mismatch(v.kind()),
    }
}

/// The schema-of-schema kind: the value must be a serialised (Owned)DataModelType.  Checked
/// against a hand-written description of that meta format (names, not numbers).
fn conforms_meta(v: &Val) -> Result<(), String> {
    let leaf = [
        "Bool", "I8", "U8", "I16", "I32", "I64", "I128", "U16", "U32", "U64", "U128", "Usize", "Isize", "F32", "F64", "Char", "String", "ByteArray", "Unit", "Schema",
    ];
    fn data(v: &Val) -> Result<(), String> {
        match v {
            Val::UnitVariant(_, _, "Unit") => Ok(()),
            Val::NewtypeVariant(_, _, "Newtype", x) => conforms_meta(x),
            Val::NewtypeVariant(_, _, "Tuple", x) => match &**x {
                Val::Seq(items) => items.iter().try_for_each(conforms_meta),
                o => Err(format!("Data::Tuple payload is a {}", o.kind())),
            },
            Val::NewtypeVariant(_, _, "Struct", x) => match &**x {
                Val::Seq(items) => items.iter().try_for_each(|f| match f {
                    Val::Struct(_, fl) if fl.len() == 2 && fl[0].0 == "name" && fl[1].0 == "ty" && matches!(fl[0].1, Val::Str(_)) => conforms_meta(&fl[1].1),
                    o => Err(format!("NamedField serialised as {}", o.show())),
                }),
                o => Err(format!("Data::Struct payload is a {}", o.kind())),
            },
            o => Err(format!("not a Data value: {}", o.show())),
        }
    }
    match v {
        Val::UnitVariant(_, _, n) if leaf.contains(n) => Ok(()),
        Val::NewtypeVariant(_, _, "Option", x) | Val::NewtypeVariant(_, _, "Seq", x) => conforms_meta(x),
        Val::NewtypeVariant(_, _, "Tuple", x) => match &**x {
            Val::Seq(items) => items.iter().try_for_each(conforms_meta),
            o => Err(format!("Tuple payload is a {}", o.kind())),
        },
        Val::StructVariant(_, _, "Map", f) if f.len() == 2 && f[0].0 == "key" && f[1].0 == "val" => {
            conforms_meta(&f[0].1)?;
            conforms_meta(&f[1].1)
        }
        Val::StructVariant(_, _, "Struct", f) if f.len() == 2 && f[0].0 == "name" && f[1].0 == "data" && matches!(f[0].1, Val::Str(_)) => data(&f[1].1),
        Val::StructVariant(_, _, "Enum", f) if f.len() == 2 && f[0].0 == "name" && f[1].0 == "variants" && matches!(f[0].1, Val::Str(_)) => match &f[1].1 {
            Val::Seq(items) => items.iter().try_for_each(|x| match x {
                Val::Struct(_, fl) if fl.len() == 2 && fl[0].0 == "name" && fl[1].0 == "data" && matches!(fl[0].1, Val::Str(_)) => data(&fl[1].1),
                o => Err(format!("Variant serialised as {}", o.show())),
            }),
            o => Err(format!("variants is a {}", o.kind())),
        },
        o => Err(format!("not a serialised schema: {}", o.show())),
    }
}

/// One value of one type: conformance + wire walker.
pub fn check_value<T: Serialize + ?Sized>(t: &mut Tctx, name: &str, v: &T, schema: &OwnedDataModelType, flatten: bool) -> bool {
    t.st.eval();
    let rec = match record(v) {
        Ok(r) => r,
        Err(e) => {
            t.st.inconclusive(format!("Recorder failed on {}: {}", name, e));
            return false;
        }
    };
    let bytes = match catch(|| postcard::to_allocvec(v)) {
        Ok(Ok(b)) => b,
        _ => {
            t.st.inconclusive(format!("{}: to_allocvec failed in the C14 harness", name));
            return false;
        }
    };
    t.st.nontrivial(fp_mix(fp(name.as_bytes()), fp(&bytes)));
    rec.walk(&mut |x| {
        if let Val::UnitVariant(..) | Val::NewtypeVariant(..) | Val::TupleVariant(..) | Val::StructVariant(..) = x {
            t.st.count("variant_values_seen");
        }
    });
    let rp = || vec![kv("kind", "c14"), kv("type", name), kv("value", rec.show()), kv("bytes", hex(&bytes)), kv("schema", format!("{:?}", schema))];
    if let Err(e) = conforms(&rec, schema, flatten) {
        t.st.violation(
            &format!("C14:serialisation-does-not-conform-to-schema:{}", name.replace(' ', "")),
            format!("{}: {} (value {})", name, e, rec.show()),
            rp(),
        );
        return false;
    }
    t.st.count("conformance_checks");
    match walk_by_schema(schema, &bytes) {
        Ok(n) if n == bytes.len() => {
            t.st.count("wire_walks_exact");
            true
        }
        other => {
            t.st.violation(
                &format!("C14:schema-driven-reader-does-not-consume-encoding:{}", name.replace(' ', "")),
                format!("{}: a reader that knows only the schema gave {:?} on the {}-byte encoding {}", name, other, bytes.len(), hex(&bytes)),
                rp(),
            );
            false
        }
    }
}

pub fn shaped<T>(t: &mut Tctx, name: &str)
where
    T: Serialize + for<'de> Deserialize<'de> + HasShape + Schema,
{
    let schema: OwnedDataModelType = T::SCHEMA.into();
    let shape = T::shape();
    t.st.count("types");
    let rounds = t.cfg.scale(3, 1500, 30_000);
    // every enum variant of the top-level type (and nested ones by random generation)
    let mut done = 0;
    for i in 0..rounds {
        if t.cfg.expired() {
            break;
        }
        let got = {
            let mut g = if i % 4 == 0 { ValGen::new(&mut t.rng) } else { ValGen::small(&mut t.rng) };
            g.max_str = 300;
            if let (Shape::Enum(n, vs), true) = (&shape, (i as usize) < 4 * 64) {
                // force variant i % nvariants
                let k = (i as usize) % vs.len().max(1);
                if vs.is_empty() {
                    None
                } else {
                    let v = g.gen_variant(n, vs, k);
                    let b = pcv_core::spec::encode(&v);
                    postcard::from_bytes::<T>(&b).ok().map(|x| (x, b))
                }
            } else {
                corpus_value::<T>(&shape, &mut g)
            }
        };
        if let Some((v, _)) = got {
            done += 1;
            if !check_value(t, name, &v, &schema, false) {
                return;
            }
            if t.st.want_sample() && done == 2 {
                let mut j = J::obj();
                j.set("type", J::s(name)).set("schema", J::s(format!("{}", schema))).set("value", J::s(record(&v).map(|r| r.show()).unwrap_or_default()));
                t.st.sample(j);
            }
        } else {
            t.st.count("values_rejected_by_type");
        }
    }
    if done == 0 {
        t.st.inconclusive(format!("no value of {} could be generated", name));
    }
}

