//! C17 (dynamic codec agrees with the static codec and serde_json) and C18 (dynamic codec
//! is total on untrusted bytes, JSON and schemas; encode -> decode -> encode fixpoint).

use crate::conv::*;
use pcv_core::checks::dec::hostile_inputs;
use pcv_core::corpus::{corpus_value, HasShape};
use pcv_core::gen::*;
#[allow(unused_imports)]
use pcv_core::gen::{deep_case, DEEP_DEPTHS};
use pcv_core::json::{hex, J};
use pcv_core::mem::{catch, count_allocs};
use pcv_core::model::*;
use pcv_core::rng::{fp, fp_mix, Rng};
use pcv_core::run::*;
use pcv_core::spec;
use postcard_dyn::{from_slice_dyn, to_stdvec_dyn};
use postcard_schema::schema::owned::OwnedDataModelType;
use postcard_schema::Schema;
use serde::{Deserialize, Serialize};
use serde_json::Value;

// ------------------------------------------------------------------ C17: restricting shapes and values

/// Does a value of this shape serialise to JSON `null` (ambiguous directly inside Option)?
fn null_like(s: &Shape) -> bool {
    match s {
        Shape::Unit | Shape::UnitStruct(_) | Shape::Option(_) => true,
        Shape::NewtypeStruct(_, a) => null_like(a),
        _ => false,
    }
}

/// Rewrite a random shape so that it stays inside C17's quantifier: string-keyed maps, no
/// null-like payload directly inside Option.
fn restrict_shape(s: &Shape) -> Shape {
    fn l(v: &[Shape]) -> Vec<Shape> {
        v.iter().map(restrict_shape).collect()
    }
    fn f(v: &[(Name, Shape)]) -> Vec<(Name, Shape)> {
        v.iter().map(|(n, s)| (*n, restrict_shape(s))).collect()
    }
    match s {
        Shape::Option(a) => {
            let inner = restrict_shape(a);
            if null_like(&inner) {
                Shape::Option(Box::new(Shape::Tuple(vec![inner, Shape::U8])))
            } else {
                Shape::Option(Box::new(inner))
            }
        }
        Shape::Seq(a) => Shape::Seq(Box::new(restrict_shape(a))),
        Shape::Map(_, v) => Shape::Map(Box::new(Shape::Str), Box::new(restrict_shape(v))),
        Shape::Tuple(v) => Shape::Tuple(l(v)),
        Shape::NewtypeStruct(n, a) => Shape::NewtypeStruct(n, Box::new(restrict_shape(a))),
        Shape::TupleStruct(n, v) => Shape::TupleStruct(n, l(v)),
        Shape::Struct(n, fl) => Shape::Struct(n, f(fl)),
        Shape::Enum(n, vs) => Shape::Enum(
            n,
            vs.iter()
                .map(|v| VariantShape {
                    name: v.name,
                    data: match &v.data {
                        VData::Unit => VData::Unit,
                        VData::Newtype(a) => VData::Newtype(Box::new(restrict_shape(a))),
                        VData::Tuple(t) => VData::Tuple(l(t)),
                        VData::Struct(fl) => VData::Struct(f(fl)),
                    },
                })
                .collect(),
        ),
        o => o.clone(),
    }
}

/// Bring a generated value inside the quantifier: integers within i64/u64, finite floats,
/// map entries unique and in ascending key order.
fn restrict_val(v: &mut Val) {
    match v {
        Val::I128(x) => *x = (*x).clamp(i64::MIN as i128, u64::MAX as i128),
        Val::U128(x) => *x = (*x).min(u64::MAX as u128),
        Val::F32(b) => {
            if !f32::from_bits(*b).is_finite() {
                *b = (1.5f32).to_bits() ^ (*b & 0x8000_0000)
            }
        }
        Val::F64(b) => {
            if !f64::from_bits(*b).is_finite() {
                *b = (2.25f64).to_bits() ^ (*b & 0x8000_0000_0000_0000)
            }
        }
        Val::Some(a) | Val::NewtypeStruct(_, a) | Val::NewtypeVariant(_, _, _, a) => restrict_val(a),
        Val::Seq(x) | Val::Tuple(x) | Val::TupleStruct(_, x) | Val::TupleVariant(_, _, _, x) => x.iter_mut().for_each(restrict_val),
        Val::Struct(_, f) | Val::StructVariant(_, _, _, f) => f.iter_mut().for_each(|(_, x)| restrict_val(x)),
        Val::Map(m) => {
            for (k, x) in m.iter_mut() {
                restrict_val(k);
                restrict_val(x);
            }
            m.sort_by(|a, b| match (&a.0, &b.0) {
                (Val::Str(x), Val::Str(y)) => x.cmp(y),
                _ => std::cmp::Ordering::Equal,
            });
            m.dedup_by(|a, b| a.0 == b.0);
        }
        _ => {}
    }
}

thread_local! {
    static CUR_ORIGIN: std::cell::RefCell<String> = const { std::cell::RefCell::new(String::new()) };
}
fn rp17(kind: &str, schema: &OwnedDataModelType, bytes: &[u8], json: &Value) -> Vec<(String, String)> {
    let origin = CUR_ORIGIN.with(|o| o.borrow().clone());
    vec![kv("kind", kind), kv("origin", origin), kv("shape", owned_to_shape(schema).text()), kv("schema", format!("{:?}", schema)), kv("static_bytes", hex(bytes)), kv("json", json.to_string())]
}

/// Classify a C17 disagreement by the feature involved (exact signatures for known-findings matching).
fn classify17(shape: &Shape, val: &Val) -> &'static str {
    let mut has_char = false;
    let mut tuple01 = false;
    let mut wide = false;
    shape.walk(&mut |s| match s {
        Shape::Char => has_char = true,
        Shape::Tuple(v) | Shape::TupleStruct(_, v) if v.len() <= 1 => tuple01 = true,
        Shape::Enum(_, vs) => {
            for v in vs {
                if let VData::Tuple(t) = &v.data {
                    if t.len() <= 1 {
                        tuple01 = true;
                    }
                }
            }
        }
        _ => {}
    });
    val.walk(&mut |v| match v {
        Val::I128(x) if *x > i64::MAX as i128 => wide = true,
        _ => {}
    });
    if has_char {
        "char"
    } else if tuple01 {
        "tuple-arity-0-or-1"
    } else if wide {
        "i128-above-i64-max"
    } else {
        "other"
    }
}

fn c17_case(t: &mut Tctx, schema: &OwnedDataModelType, shape: &Shape, val: &Val, static_bytes: &[u8], json: &Value, origin: &str) {
    CUR_ORIGIN.with(|o| *o.borrow_mut() = origin.to_string());
    t.st.eval();
    t.st.nontrivial(fp_mix(fp(format!("{:?}", schema).as_bytes()), fp(static_bytes)));
    let class = classify17(shape, val);
    // encode
    match catch(|| to_stdvec_dyn(schema, json)) {
        Err(p) => {
            t.st.violation(&format!("C17:dyn-encode-panic:{}", class), format!("to_stdvec_dyn panicked: {} ({})", p, origin), rp17("c17", schema, static_bytes, json));
            return;
        }
        Ok(Ok(b)) if b == static_bytes => t.st.count("dyn_encode_agrees"),
        Ok(other) => {
            t.st.violation(
                &format!("C17:dyn-encode-differs:{}", class),
                format!(
                    "to_stdvec_dyn gave {:?} but the static encoder gives {} for JSON {} under schema {} ({})",
                    other.map(|b| hex(&b)),
                    hex(static_bytes),
                    json,
                    schema,
                    origin
                ),
                rp17("c17", schema, static_bytes, json),
            );
            return;
        }
    }
    match catch(|| from_slice_dyn(schema, static_bytes)) {
        Err(p) => {
            t.st.violation(&format!("C17:dyn-decode-panic:{}", class), format!("from_slice_dyn panicked: {} ({})", p, origin), rp17("c17", schema, static_bytes, json));
        }
        Ok(Ok(j)) if j == *json => t.st.count("dyn_decode_agrees"),
        Ok(other) => {
            t.st.violation(
                &format!("C17:dyn-decode-differs:{}", class),
                format!("from_slice_dyn gave {:?} but serde_json::to_value gives {} (bytes {}, schema {}) ({})", other.map(|j| j.to_string()), json, hex(static_bytes), schema, origin),
                rp17("c17", schema, static_bytes, json),
            );
        }
    }
}

fn c17_corpus<T>(t: &mut Tctx, name: &str)
where
    T: Serialize + for<'de> Deserialize<'de> + HasShape + Schema,
{
    let schema: OwnedDataModelType = T::SCHEMA.into();
    let shape = T::shape();
    let rounds = t.cfg.scale(2, 1000, 20_000);
    for _ in 0..rounds {
        if t.cfg.expired() {
            break;
        }
        // generate inside the quantifier, then materialise the real type
        let mut v = {
            let mut g = ValGen::small(&mut t.rng);
            g.max_str = 60;
            g.gen(&shape)
        };
        restrict_val(&mut v);
        let b = spec::encode(&v);
        let tv: T = match postcard::from_bytes::<T>(&b) {
            Ok(x) => x,
            Err(_) => {
                t.st.count("values_rejected_by_type");
                continue;
            }
        };
        let (sb, json) = match (postcard::to_allocvec(&tv), serde_json::to_value(&tv)) {
            (Ok(a), Ok(j)) => (a, j),
            _ => continue,
        };
        let rec = pcv_core::bridge::record(&tv).unwrap_or(Val::Unit);
        t.st.count("corpus_cases");
        c17_case(t, &schema, &shape, &rec, &sb, &json, name);
    }
}

/// Shapes with pointer-sized integers and length-prefixed kinds, and a value whose usize / isize fields are
/// inside the target's pointer range (on a 32-bit target a `usize` cannot hold more).
fn ptr_sized_case(rng: &mut Rng) -> (Shape, Val) {
    let bits = usize::BITS;
    let u = |rng: &mut Rng| Val::U64(gen_uint(rng, bits) as u64);
    let i = |rng: &mut Rng| Val::I64(gen_int(rng, bits) as i64);
    match rng.below(4) {
        0 => (Shape::Usize, u(rng)),
        1 => (Shape::Isize, i(rng)),
        2 => (
            Shape::Struct("P0", vec![("a", Shape::Usize), ("b", Shape::Isize), ("c", Shape::Str), ("d", Shape::Seq(Box::new(Shape::Usize)))]),
            Val::Struct("P0", vec![("a", u(rng)), ("b", i(rng)), ("c", Val::Str(gen_string(rng, 6))), ("d", Val::Seq((0..rng.range(0, 3)).map(|_| u(rng)).collect()))]),
        ),
        _ => (
            Shape::Tuple(vec![Shape::Isize, Shape::Bytes, Shape::Option(Box::new(Shape::Isize))]),
            Val::Tuple(vec![i(rng), Val::Bytes(rng.bytes(3)), if rng.chance(1, 2) { Val::Some(Box::new(i(rng))) } else { Val::None }]),
        ),
    }
}

/// Lean interpreter workload for C17 (used for the 32-bit target, where postcard-dyn handles pointer-sized
/// integers and length prefixes with 32-bit varints).
fn lean_c17(t: &mut Tctx) {
    let mut n = 0u64;
    let limit = t.cfg.knob_u64("lean_shapes", 300);
    while !t.cfg.expired() && n < limit {
        n += 1;
        let (shape, mut val) = if n % 2 == 0 {
            ptr_sized_case(&mut t.rng)
        } else {
            let mut o = ShapeOpts::small();
            o.allow_ptr_sized = false;
            let depth = t.rng.range(0, 2) as u32;
            let shape = restrict_shape(&gen_shape(&mut t.rng, depth, &o));
            let val = {
                let mut g = ValGen::small(&mut t.rng);
                g.max_len = 3;
                g.max_str = 8;
                g.gen(&shape)
            };
            (shape, val)
        };
        restrict_val(&mut val);
        let schema = shape_to_owned(&shape);
        if let (Ok(sb), Ok(json)) = (postcard::to_allocvec(&val), serde_json::to_value(&val)) {
            t.st.count("lean_cases");
            c17_case(t, &schema, &shape, &val, &sb, &json, "lean");
        }
    }
}

/// Lean interpreter workload for C18 (32-bit target): pointer-sized and length-prefixed schema nodes x
/// valid / truncated / edge-of-pointer-width inputs, and JSON numbers around 2^31, 2^32 and 2^63.
fn lean_c18(t: &mut Tctx) {
    let mut n = 0u64;
    let limit = t.cfg.knob_u64("lean_shapes", 300);
    while !t.cfg.expired() && n < limit {
        n += 1;
        let (shape, val) = ptr_sized_case(&mut t.rng);
        let schema = shape_to_owned(&shape);
        let nodes = shape.nodes();
        let valid = spec::encode(&val);
        t.st.count("lean_cases");
        c18_decode(t, &schema, &shape, nodes, "valid", &valid);
        if valid.len() > 1 {
            c18_decode(t, &schema, &shape, nodes, "prefix", &valid[..valid.len() - 1]);
        }
        for pre in [
            vec![0xFFu8, 0xFF, 0xFF, 0xFF, 0x0F],
            vec![0x80, 0x80, 0x80, 0x80, 0x10],
            vec![0xFF, 0xFF, 0xFF, 0xFF, 0x1F],
            vec![0x81, 0x80, 0x80, 0x80, 0x80, 0x00],
            vec![0xFF, 0xFF, 0xFF, 0xFF, 0xFF, 0xFF, 0xFF, 0xFF, 0xFF, 0x01],
        ] {
            let mut m = pre.clone();
            m.extend_from_slice(&valid[valid.len().min(1)..]);
            c18_decode(t, &schema, &shape, nodes, "edge_varint", &m);
        }
        if let Ok(j) = serde_json::to_value(&val) {
            c18_encode(t, &schema, &shape, "type_correct", &j);
        }
        for x in [2147483647i64, 2147483648, -2147483648, -2147483649, 4294967295, 4294967296, i64::MAX, i64::MIN] {
            c18_encode(t, &shape_to_owned(&Shape::Usize), &Shape::Usize, "near_miss", &Value::from(x));
            c18_encode(t, &shape_to_owned(&Shape::Isize), &Shape::Isize, "near_miss", &Value::from(x));
        }
        c18_encode(t, &shape_to_owned(&Shape::Usize), &Shape::Usize, "near_miss", &Value::from(u64::MAX));
    }
}

pub fn run_c17(cfg: &Cfg) -> Report {
    let mut rep = Report::new("C17");
    if cfg.tier == Tier::Tiny && cfg.knob_u64("lean", 0) == 1 {
        let s = parallel(cfg, 1, |t| lean_c17(t));
        rep.stats.merge(s);
        rep.rule = "lean interpreter workload: pointer-sized integers within the target's range, length-prefixed kinds and small random shapes; dynamic encode == static bytes, dynamic decode == serde_json value".into();
        return rep;
    }
    let s = parallel(cfg, 1, |t| {
        let n = t.cfg.scale(30, 60_000, 1_500_000);
        for i in 0..n {
            if t.cfg.expired() {
                break;
            }
            let mut o = if t.rng.chance(1, 3) { ShapeOpts::full() } else { ShapeOpts::small() };
            o.big_enums = i % 50 == 0;
            // the alternative name pool is not in alphabetical order (JSON objects are)
            o.alt_names = i % 2 == 0;
            let depth = t.rng.range(0, o.max_depth as usize) as u32;
            let shape = restrict_shape(&gen_shape(&mut t.rng, depth, &o));
            let mut val = {
                let mut g = ValGen::small(&mut t.rng);
                g.max_str = 60;
                g.gen(&shape)
            };
            restrict_val(&mut val);
            let schema = shape_to_owned(&shape);
            let sb = match postcard::to_allocvec(&val) {
                Ok(b) => b,
                Err(_) => continue,
            };
            let json = match serde_json::to_value(&val) {
                Ok(j) => j,
                Err(_) => {
                    t.st.count("not_representable_in_json");
                    continue;
                }
            };
            shape.walk(&mut |s| t.st.count(&format!("shape_{}", s.kind())));
            t.st.count("random_shape_cases");
            if t.st.want_sample() && sb.len() > 3 && sb.len() < 30 {
                let mut j = J::obj();
                j.set("schema", J::s(format!("{}", schema))).set("json", J::s(json.to_string())).set("bytes", J::s(hex(&sb)));
                t.st.sample(j);
            }
            c17_case(t, &schema, &shape, &val, &sb, &json, "random shape");
        }
        // plain tuples / arrays of arity 0 and 1, zero-field variants: explicitly in scope
        let specials: Vec<Shape> = vec![
            Shape::Tuple(vec![]),
            Shape::Tuple(vec![Shape::U8]),
            Shape::Tuple(vec![Shape::Str]),
            Shape::TupleStruct("T0", vec![]),
            Shape::Struct("T1", vec![]),
            Shape::Struct("T2", vec![("f0", Shape::Tuple(vec![Shape::U16])), ("f1", Shape::Tuple(vec![]))]),
            Shape::Enum("T3", vec![VariantShape { name: "V0", data: VData::Tuple(vec![]) }, VariantShape { name: "V1", data: VData::Struct(vec![]) }, VariantShape { name: "V2", data: VData::Unit }]),
            Shape::Seq(Box::new(Shape::Tuple(vec![Shape::Bool]))),
            Shape::Seq(Box::new(Shape::Unit)),
            Shape::Seq(Box::new(Shape::UnitStruct("T4"))),
            Shape::Struct("T5", vec![("f0", Shape::Seq(Box::new(Shape::Tuple(vec![])))), ("f1", Shape::Seq(Box::new(Shape::Unit)))]),
            Shape::Enum(
                "Unit",
                vec![
                    VariantShape { name: "Kb", data: VData::Newtype(Box::new(Shape::U8)) },
                    VariantShape { name: "KB", data: VData::Newtype(Box::new(Shape::U8)) },
                    VariantShape { name: "kb", data: VData::Unit },
                    VariantShape { name: "kB", data: VData::Struct(vec![("Len", Shape::U16), ("len", Shape::U16), ("LEN", Shape::Str)]) },
                    VariantShape { name: "Mb", data: VData::Newtype(Box::new(Shape::Str)) },
                    VariantShape { name: "MB", data: VData::Newtype(Box::new(Shape::U32)) },
                ],
            ),
            Shape::Struct("Cased", vec![("Type", Shape::U8), ("TYPE", Shape::U16), ("type", Shape::Str), ("r#type", Shape::U32), ("r#", Shape::Bool)]),
            Shape::Enum("Raw", vec![VariantShape { name: "r#Move", data: VData::Newtype(Box::new(Shape::U8)) }, VariantShape { name: "Move", data: VData::Newtype(Box::new(Shape::U16)) }, VariantShape { name: "a::Move", data: VData::Unit }]),
            Shape::Char,
            Shape::Tuple(vec![Shape::Char, Shape::Char]),
            Shape::I128,
            Shape::U128,
        ];
        for (k, shape) in specials.iter().enumerate() {
            if !t.mine(k as u64) {
                continue;
            }
            for _ in 0..t.cfg.scale(2, 40, 400) {
                let mut val = {
                    let mut g = ValGen::small(&mut t.rng);
                    g.gen(shape)
                };
                restrict_val(&mut val);
                let schema = shape_to_owned(shape);
                if let (Ok(sb), Ok(json)) = (postcard::to_allocvec(&val), serde_json::to_value(&val)) {
                    t.st.count("special_shape_cases");
                    c17_case(t, &schema, shape, &val, &sb, &json, "arity 0/1, char, 128-bit");
                }
            }
        }
        // deep nesting
        let mut di = 0u64;
        for kind in [1usize, 2, 3, 4, 5] {
            for &depth in &DEEP_DEPTHS {
                di += 1;
                if !t.mine(di) {
                    continue;
                }
                let (shape, val) = deep_case(kind, depth);
                let schema = shape_to_owned(&shape);
                if let (Ok(sb), Ok(json)) = (postcard::to_allocvec(&val), serde_json::to_value(&val)) {
                    t.st.count("deep_nesting_cases");
                    c17_case(t, &schema, &shape, &val, &sb, &json, "deep nesting");
                }
            }
        }
        // concrete corpus inside the quantifier
        let mut i = 0u64;
        macro_rules! one {
            ($ty:ty) => {
                i += 1;
                if t.mine(i) {
                    c17_corpus::<$ty>(t, stringify!($ty));
                }
            };
        }
        one!(bool); one!(u8); one!(i8); one!(u16); one!(i16); one!(u32); one!(i32); one!(u64); one!(i64); one!(u128); one!(i128); one!(f32); one!(f64); one!(char); one!(String);
        one!((u8,)); one!((u8, i16)); one!((u8, i16, String)); one!([u8; 0]); one!([u8; 1]); one!([u32; 4]);
        one!(Vec<u8>); one!(Vec<String>); one!(Vec<Vec<u16>>); one!(std::collections::BTreeSet<u16>); one!(std::collections::BTreeMap<String, u16>);
        one!(Option<u8>); one!(Option<String>); one!(Result<u16, String>);
        one!(std::ops::Range<u16>); one!(std::ops::RangeInclusive<i32>); one!(std::ops::RangeFrom<u8>); one!(std::ops::RangeTo<u64>);
        one!(crate::corpus::SReprT); one!(crate::corpus::SReprField); one!(crate::corpus::SReprE);
        one!(crate::corpus::SNew); one!(crate::corpus::STup); one!(crate::corpus::SEmptyTup); one!(crate::corpus::SNamed); one!(crate::corpus::SEmptyNamed); one!(crate::corpus::SUnsorted);
        one!(crate::corpus::SBasic); one!(crate::corpus::SData); one!(crate::corpus::SNested); one!(crate::corpus::SStd); one!(crate::corpus::SArrays); one!(crate::corpus::SGen<u16>); one!(crate::corpus::SLevel); one!(crate::corpus::SRaw); one!(Vec<crate::corpus::SLevel>); one!(Vec<crate::corpus::SUnit>); one!(Vec<[u8; 0]>); one!(Vec<()>);
    });
    rep.stats.merge(s);
    rep.rule = "cases = (schema, value): random shape trees rewritten to stay inside the quantifier (string-keyed maps with unique ascending keys, no null-like payload directly inside Option, integers \
                within i64/u64, finite floats) and ~45 concrete types; the same value is serialised by postcard's static encoder and by serde_json::to_value, the schema is built from the shape by the harness \
                (or is T::SCHEMA); to_stdvec_dyn(schema, json) must equal the static bytes and from_slice_dyn(schema, bytes) must equal the JSON. Tuples/arrays of arity 0 and 1, zero-field variants, char and 128-bit \
                integers are explicitly exercised. distinct = (schema, static bytes)."
        .into();
    rep.assumptions = vec!["serde_json's Serializer is the JSON reference; serde_json without preserve_order keeps object keys sorted".into()];
    rep.floor("dyn_encode_agrees", 500);
    rep.floor("dyn_decode_agrees", 500);
    rep.floor("special_shape_cases", 20);
    rep.floor("corpus_cases", 100);
    rep.floor("deep_nesting_cases", 5);
    for k in ["shape_char", "shape_i128", "shape_u128", "shape_usize", "shape_isize", "shape_bytes", "shape_map", "shape_enum", "shape_tuple", "shape_option"] {
        rep.floor(k, 1);
    }
    rep
}

// ------------------------------------------------------------------ C18

fn gen_json(rng: &mut Rng, depth: u32) -> Value {
    match rng.below(if depth == 0 { 6 } else { 9 }) {
        0 => Value::Null,
        1 => Value::Bool(rng.chance(1, 2)),
        2 => Value::from(gen_uint(rng, 64) as u64),
        3 => Value::from(gen_int(rng, 64) as i64),
        4 => serde_json::Number::from_f64(f64::from_bits(rng.next())).map(Value::Number).unwrap_or(Value::from(1e300)),
        5 => Value::String(gen_string(rng, 12)),
        6 => Value::Array((0..rng.range(0, 4)).map(|_| gen_json(rng, depth - 1)).collect()),
        _ => {
            let mut m = serde_json::Map::new();
            for _ in 0..rng.range(0, 4) {
                let k = if rng.chance(1, 2) { crate::conv::name_pool()[rng.below(crate::conv::name_pool().len() as u64) as usize].to_string() } else { gen_string(rng, 6) };
                m.insert(k, gen_json(rng, depth - 1));
            }
            Value::Object(m)
        }
    }
}

/// Texts that a lenient number parser may take for a number (Rust's `str::parse::<f64>` accepts the first group).
const NUMBER_SPELLINGS: [&str; 34] = [
    "NaN", "-NaN", "+NaN", "nan", "-nan", "inf", "-inf", "+inf", "infinity", "-infinity", "Infinity", "-Infinity", "INF", "1e999", "-1e999", "1e-999", "-0", "-0.0", "0.0", "+1", "01", "1.0", "1e0",
    "1.", ".5", " 1", "1 ", "0x10", "1_000", "1,5", "١", "true", "null", "",
];

/// Replace one node of a JSON value by something of another type.
fn near_miss(rng: &mut Rng, j: &Value) -> Value {
    fn count(j: &Value) -> usize {
        1 + match j {
            Value::Array(a) => a.iter().map(count).sum(),
            Value::Object(o) => o.values().map(count).sum(),
            _ => 0,
        }
    }
    fn rec(j: &Value, k: &mut isize, rng: &mut Rng) -> Value {
        if *k == 0 {
            *k -= 1;
            return match j {
                Value::Null => Value::from(5),
                Value::Bool(_) => Value::String("x".into()),
                Value::Number(n) => match rng.below(9) {
                    // other spellings of a number as text: special floats, signs, padding, radix, separators
                    7 | 8 => Value::String((*rng.pick(&NUMBER_SPELLINGS)).into()),
                    0 => Value::String("1".into()),
                    // numbers as decimal strings, incl. ones beyond what a JSON number can hold
                    4 => Value::String(n.to_string()),
                    5 => Value::String((*rng.pick(&["18446744073709551616", "-9223372036854775809", "340282366920938463463374607431768211455", "-170141183460469231731687303715884105728", "99999999999999999999", "340282366920938463463374607431768211456"])).into()),
                    6 => Value::String(format!("{}", (rng.next() as u128) << rng.range(1, 63))),
                    1 => Value::from(1e300),
                    2 => Value::from(-1),
                    _ => Value::from(u64::MAX),
                },
                Value::String(_) => match rng.below(3) {
                    0 => Value::from(7),
                    1 => Value::String("ab".into()),
                    _ => Value::Null,
                },
                Value::Array(a) => {
                    let mut a = a.clone();
                    if a.is_empty() || rng.chance(1, 2) {
                        a.push(Value::from(1));
                    } else {
                        a.pop();
                    }
                    Value::Array(a)
                }
                Value::Object(o) => {
                    let mut o = o.clone();
                    if !o.is_empty() && rng.chance(1, 3) {
                        // respell one key: raw-identifier prefix added / removed, letter case changed
                        let keys: Vec<String> = o.keys().cloned().collect();
                        let k0 = keys[rng.below(keys.len() as u64) as usize].clone();
                        let v0 = o.remove(&k0).unwrap();
                        let k1 = match rng.below(4) {
                            0 => k0.strip_prefix("r#").map(|x| x.to_string()).unwrap_or_else(|| format!("r#{}", k0)),
                            1 => k0.to_uppercase(),
                            2 => k0.to_lowercase(),
                            _ => k0.rsplit("::").next().unwrap_or("").to_string(),
                        };
                        o.insert(k1, v0);
                    } else if o.is_empty() || rng.chance(1, 2) {
                        o.insert("extra_key_q".into(), Value::from(1));
                    } else {
                        let k0 = o.keys().next().cloned().unwrap();
                        let v0 = o.remove(&k0).unwrap();
                        if rng.chance(1, 2) {
                            o.insert(format!("{}x", k0), v0);
                        }
                    }
                    Value::Object(o)
                }
            };
        }
        *k -= 1;
        match j {
            Value::Array(a) => Value::Array(a.iter().map(|x| rec(x, k, rng)).collect()),
            Value::Object(o) => Value::Object(o.iter().map(|(n, x)| (n.clone(), rec(x, k, rng))).collect()),
            o => o.clone(),
        }
    }
    let n = count(j);
    let mut k = rng.below(n as u64) as isize;
    rec(j, &mut k, rng)
}

/// Other spellings of an object key that a lenient reader could take for the same key
/// (integers: leading zero, sign, negative zero, fraction, padding; any key: padding, letter case).
fn key_spellings(k: &str) -> Vec<String> {
    let mut v = vec![format!(" {}", k), format!("{} ", k), k.to_uppercase(), k.to_lowercase()];
    if let Ok(n) = k.parse::<i128>() {
        if n >= 0 {
            v.push(format!("0{}", k));
            v.push(format!("+{}", k));
            v.push(format!("00{}", k));
        } else {
            v.push(format!("-0{}", &k[1..]));
        }
        if n == 0 {
            v.push("-0".into());
            v.push("+0".into());
        }
        v.push(format!("{}.0", k));
        v.push(format!("{}e0", k));
    }
    v.retain(|x| x != k);
    v.sort();
    v.dedup();
    v
}

/// Every way of ADDING one respelt copy of an existing key (same value) to one object of `j`, up to `max`.
fn key_alias_variants(rng: &mut Rng, j: &Value, max: usize) -> Vec<Value> {
    fn paths(j: &Value, here: &mut Vec<String>, out: &mut Vec<Vec<String>>) {
        match j {
            Value::Object(o) => {
                if !o.is_empty() {
                    out.push(here.clone());
                }
                for (k, v) in o {
                    here.push(k.clone());
                    paths(v, here, out);
                    here.pop();
                }
            }
            Value::Array(a) => {
                for (i, v) in a.iter().enumerate() {
                    here.push(i.to_string());
                    paths(v, here, out);
                    here.pop();
                }
            }
            _ => {}
        }
    }
    fn at<'a>(j: &'a mut Value, p: &[String]) -> Option<&'a mut Value> {
        let mut cur = j;
        for s in p {
            cur = match cur {
                Value::Object(o) => o.get_mut(s)?,
                Value::Array(a) => a.get_mut(s.parse::<usize>().ok()?)?,
                _ => return None,
            };
        }
        Some(cur)
    }
    let mut ps = Vec::new();
    paths(j, &mut Vec::new(), &mut ps);
    let mut out = Vec::new();
    for _ in 0..max {
        if ps.is_empty() {
            break;
        }
        let p = ps[rng.below(ps.len() as u64) as usize].clone();
        let mut j2 = j.clone();
        if let Some(Value::Object(o)) = at(&mut j2, &p) {
            let keys: Vec<String> = o.keys().cloned().collect();
            let k0 = keys[rng.below(keys.len() as u64) as usize].clone();
            let sp = key_spellings(&k0);
            if sp.is_empty() {
                continue;
            }
            let k1 = sp[rng.below(sp.len() as u64) as usize].clone();
            if o.contains_key(&k1) {
                continue;
            }
            let v0 = o.get(&k0).cloned().unwrap();
            o.insert(k1, v0);
            out.push(j2);
        }
    }
    out
}

/// Can a value of this shape decode to JSON null in postcard-dyn (so that `Option(it)` coalesces)?
fn dyn_nullable(s: &Shape) -> bool {
    match s {
        Shape::Unit | Shape::UnitStruct(_) | Shape::Option(_) => true,
        Shape::NewtypeStruct(_, a) => dyn_nullable(a),
        Shape::Tuple(v) | Shape::TupleStruct(_, v) => v.is_empty() || (v.len() == 1 && dyn_nullable(&v[0])),
        _ => false,
    }
}
fn has_option_of_nullable(s: &Shape) -> bool {
    let mut f = false;
    s.walk(&mut |n| {
        if let Shape::Option(a) = n {
            if dyn_nullable(a) {
                f = true
            }
        }
    });
    f
}

fn rp18(kind: &str, schema: &OwnedDataModelType, bytes: Option<&[u8]>, json: Option<&Value>) -> Vec<(String, String)> {
    let mut v = vec![kv("kind", kind), kv("shape", owned_to_shape(schema).text()), kv("schema", format!("{:?}", schema))];
    if let Some(b) = bytes {
        v.push(kv("bytes", hex(b)));
    }
    if let Some(j) = json {
        v.push(kv("json", j.to_string()));
    }
    v
}

fn panic_class(p: &str) -> &'static str {
    if p.contains("not yet implemented") {
        "todo"
    } else if p.contains("capacity overflow") || p.contains("alloc") {
        "allocation"
    } else {
        "other"
    }
}

fn c18_decode(t: &mut Tctx, schema: &OwnedDataModelType, shape: &Shape, nodes: usize, class: &str, input: &[u8]) {
    // zero-width element sequences: time and memory proportional to the claimed length; cap the claim
    if matches!(spec::decode_budget(shape, input, 150_000), Err(spec::DecodeFail::OracleBudget)) {
        t.st.count("oracle_budget_skips");
        return;
    }
    t.st.eval();
    t.st.count(&format!("bytes_{}", class));
    t.st.nontrivial(fp_mix(fp(format!("{:?}", schema).as_bytes()), fp(input)));
    t.crumb.set(&format!("kind: c18-decode\nshape: {}\nbytes: {}", shape.text(), hex(input)));
    let (r, al) = count_allocs(|| catch(|| from_slice_dyn(schema, input)));
    t.crumb.clear();
    match r {
        Err(p) => {
            let mut k = "other";
            shape.walk(&mut |s| match s {
                Shape::Char => k = "char",
                Shape::UnitStruct(x) if *x == SCHEMA_MARKER => k = "schema-kind",
                _ => {}
            });
            t.st.violation(
                &format!("C18:dyn-decode-panic:{}:{}", panic_class(&p), k),
                format!("from_slice_dyn panicked: {} (schema {}, bytes {})", p, schema, hex(input)),
                rp18("c18-decode", schema, Some(input), None),
            );
        }
        Ok(res) => {
            t.st.count(if res.is_ok() { "dyn_decode_ok" } else { "dyn_decode_err" });
            if t.st.samples.len() < 3 && input.len() >= 2 && input.len() <= 20 && nodes > 2 && t.rng.chance(1, 64) {
                let mut j = J::obj();
                j.set("schema", J::s(format!("{}", schema))).set("bytes", J::s(hex(input))).set("class", J::s(class));
                j.set("from_slice_dyn", J::s(match &res {
                    Ok(v) => format!("Ok({})", v),
                    Err(e) => format!("Err({:?})", e),
                }));
                j.set("bytes_allocated", J::i(al.bytes as u64));
                t.st.sample(j);
            }
            let bound = 512 * nodes * (input.len() + 1);
            t.st.count("alloc_bound_checked");
            if al.bytes > bound {
                let zw = shape.has_zero_width_collection();
                t.st.violation(
                    if zw { "C18:dyn-decode-allocation-unbounded:seq-of-zero-width-elements" } else { "C18:dyn-decode-allocation-exceeds-bound" },
                    format!("{} bytes requested while decoding a {}-byte input under a {}-node schema (bound {}) (schema {}, bytes {})", al.bytes, input.len(), nodes, bound, schema, hex(input)),
                    rp18("c18-decode", schema, Some(input), None),
                );
            } else {
                t.st.max("max_alloc_bytes_per_decode", al.bytes as u64);
            }
        }
    }
}

fn c18_encode(t: &mut Tctx, schema: &OwnedDataModelType, shape: &Shape, class: &str, json: &Value) {
    t.st.eval();
    t.st.count(&format!("json_{}", class));
    t.st.nontrivial(fp_mix(fp(format!("{:?}", schema).as_bytes()), fp(json.to_string().as_bytes())));
    t.crumb.set(&format!("kind: c18-encode\nshape: {}\njson: {}", shape.text(), json));
    let r = catch(|| to_stdvec_dyn(schema, json));
    t.crumb.clear();
    let mut k = "other";
    shape.walk(&mut |s| match s {
        Shape::Char => k = "char",
        Shape::UnitStruct(x) if *x == SCHEMA_MARKER => k = "schema-kind",
        _ => {}
    });
    let bytes = match r {
        Err(p) => {
            t.st.violation(
                &format!("C18:dyn-encode-panic:{}:{}", panic_class(&p), k),
                format!("to_stdvec_dyn panicked: {} (schema {}, json {})", p, schema, json),
                rp18("c18-encode", schema, None, Some(json)),
            );
            return;
        }
        Ok(Err(_)) => {
            t.st.count("dyn_encode_err");
            return;
        }
        Ok(Ok(b)) => b,
    };
    t.st.count("dyn_encode_ok");
    if t.st.want_sample() && bytes.len() >= 2 && bytes.len() <= 24 && t.rng.chance(1, 16) {
        let mut j = J::obj();
        j.set("schema", J::s(format!("{}", schema))).set("json", J::s(json.to_string())).set("class", J::s(class)).set("to_stdvec_dyn", J::s(hex(&bytes)));
        t.st.sample(j);
    }
    // whatever encoding accepts, decoding succeeds and re-encodes to the same bytes
    let pattern = if has_option_of_nullable(shape) {
        "option-of-null-like"
    } else if k == "char" {
        "char"
    } else {
        let mut f32s = false;
        let mut t01 = false;
        shape.walk(&mut |s| match s {
            Shape::F32 => f32s = true,
            Shape::Tuple(v) | Shape::TupleStruct(_, v) if v.len() <= 1 => t01 = true,
            Shape::Enum(_, vs) => {
                for v in vs {
                    if let VData::Tuple(x) = &v.data {
                        if x.len() <= 1 {
                            t01 = true
                        }
                    }
                }
            }
            _ => {}
        });
        if t01 {
            "tuple-arity-0-or-1"
        } else if f32s {
            "f32"
        } else {
            "other"
        }
    };
    t.st.count("roundtrip_clause_checked");
    match catch(|| from_slice_dyn(schema, &bytes)) {
        Err(p) => t.st.violation(
            &format!("C18:accepted-by-encoder-but-decoder-panics:{}", pattern),
            format!("to_stdvec_dyn accepted {} (bytes {}) but from_slice_dyn panics: {} (schema {})", json, hex(&bytes), p, schema),
            rp18("c18-encode", schema, Some(&bytes), Some(json)),
        ),
        Ok(Err(e)) => t.st.violation(
            &format!("C18:accepted-by-encoder-but-rejected-by-decoder:{}", pattern),
            format!("to_stdvec_dyn accepted {} (bytes {}) but from_slice_dyn rejects them with {:?} (schema {})", json, hex(&bytes), e, schema),
            rp18("c18-encode", schema, Some(&bytes), Some(json)),
        ),
        Ok(Ok(j2)) => match catch(|| to_stdvec_dyn(schema, &j2)) {
            Ok(Ok(b2)) if b2 == bytes => t.st.count("roundtrip_fixpoint"),
            other => t.st.violation(
                &format!("C18:re-encoding-differs:{}", pattern),
                format!(
                    "{} encodes to {}, decodes to {}, which re-encodes to {:?} (schema {})",
                    json,
                    hex(&bytes),
                    j2,
                    other.map(|r| r.map(|b| hex(&b))),
                    schema
                ),
                rp18("c18-encode", schema, Some(&bytes), Some(json)),
            ),
        },
    }
}

pub fn run_c18(cfg: &Cfg) -> Report {
    let mut rep = Report::new("C18");
    if cfg.tier == Tier::Tiny && cfg.knob_u64("lean", 0) == 1 {
        let s = parallel(cfg, 1, |t| lean_c18(t));
        rep.stats.merge(s);
        rep.rule = "lean interpreter workload: pointer-sized and length-prefixed schema nodes x valid / truncated / edge-of-pointer-width inputs; JSON numbers around 2^31, 2^32, 2^63; totality, allocation bound and the decode/re-encode fixpoint".into();
        return rep;
    }
    let s = parallel(cfg, 1, |t| {
        let n = t.cfg.scale(20, 2_500, 60_000);
        let o = SchemaOpts { max_depth: 5, max_fan: 5, unique_names: true, allow_schema_kind: true };
        for _ in 0..n {
            if t.cfg.expired() {
                break;
            }
            let hi = if t.rng.chance(1, 4) { 5 } else { 3 };
            let depth = t.rng.range(0, hi) as u32;
            let shape = gen_schema_shape(&mut t.rng, depth, &o);
            let schema = shape_to_owned(&shape);
            let nodes = shape.nodes();
            let mut ks = std::collections::BTreeSet::new();
            kind_labels(&shape, &mut ks);
            for k in ks {
                t.st.count(k);
            }
            t.st.count("schemas");
            // a value of the schema's shape (the marker kind has no values: zero bytes)
            let val = {
                let mut g = ValGen::small(&mut t.rng);
                g.max_str = 30;
                g.gen(&shape)
            };
            let valid = spec::encode(&val);
            let mut inputs = hostile_inputs(&mut t.rng, &shape, &valid, false);
            for l in hostile_lengths(&mut t.rng, valid.len()).into_iter().take(8) {
                let mut m = varint_bytes(l as u128);
                m.extend_from_slice(&t.rng.bytes(t.rng.clone().range(0, 10)));
                inputs.push(("hostile_len", m));
            }
            for (class, input) in inputs {
                c18_decode(t, &schema, &shape, nodes, class, &input);
            }
            // JSON: type-correct, near-miss, unrelated
            if let Ok(j) = serde_json::to_value(&val) {
                c18_encode(t, &schema, &shape, "type_correct", &j);
                for _ in 0..3 {
                    let nm = near_miss(&mut t.rng, &j);
                    c18_encode(t, &schema, &shape, "near_miss", &nm);
                }
                for ja in key_alias_variants(&mut t.rng, &j, 2) {
                    c18_encode(t, &schema, &shape, "key_alias", &ja);
                }
            }
            for _ in 0..3 {
                let j = gen_json(&mut t.rng, 3);
                c18_encode(t, &schema, &shape, "unrelated", &j);
            }
        }
    });
    rep.stats.merge(s);
    // maps of every key kind: an object that holds one of its keys twice, under two spellings (integers: leading zero, sign,
    // negative zero, fraction; any key: padding, letter case).  Whatever the encoder makes of it, the fixpoint clause must hold.
    let s = parallel(cfg, 4, |t| {
        let key_kinds = [Shape::U8, Shape::I8, Shape::U16, Shape::I16, Shape::U32, Shape::I32, Shape::U64, Shape::I64, Shape::U128, Shape::I128, Shape::Usize, Shape::Isize, Shape::Str, Shape::Char, Shape::Bool];
        let mut ai = 0u64;
        for kk in key_kinds.iter() {
            for vk in 0..3 {
                ai += 1;
                if !t.mine(ai) || t.cfg.expired() {
                    continue;
                }
                let inner = Shape::Map(Box::new(kk.clone()), Box::new(Shape::U8));
                let shape = Shape::Map(Box::new(kk.clone()), Box::new([Shape::U8, Shape::Str, inner][vk].clone()));
                let schema = shape_to_owned(&shape);
                let rounds = t.cfg.scale(1, 6, 40);
                for _ in 0..rounds {
                    let key_text = |rng: &mut Rng| -> String {
                        match kk {
                            Shape::Str => gen_string(rng, 5),
                            Shape::Char => "k".into(),
                            Shape::Bool => if rng.chance(1, 2) { "true".into() } else { "false".into() },
                            Shape::I8 | Shape::I16 | Shape::I32 | Shape::I64 | Shape::I128 | Shape::Isize => (*rng.pick(&[0i64, -1, 7, -7, 42, -100, 127, -128])).to_string(),
                            _ => (*rng.pick(&[0u64, 1, 7, 9, 42, 100, 127, 255])).to_string(),
                        }
                    };
                    let mut o = serde_json::Map::new();
                    for _ in 0..t.rng.range(1, 4) {
                        let k = key_text(&mut t.rng);
                        let v = match vk {
                            0 => Value::from(t.rng.below(256)),
                            1 => Value::String(gen_string(&mut t.rng, 4)),
                            _ => {
                                let mut m = serde_json::Map::new();
                                for _ in 0..t.rng.range(1, 3) {
                                    m.insert(key_text(&mut t.rng), Value::from(t.rng.below(256)));
                                }
                                Value::Object(m)
                            }
                        };
                        o.insert(k, v);
                    }
                    let j = Value::Object(o);
                    t.st.count("key_alias_maps");
                    c18_encode(t, &schema, &shape, "map_plain", &j);
                    for ja in key_alias_variants(&mut t.rng, &j, 6) {
                        c18_encode(t, &schema, &shape, "key_alias", &ja);
                    }
                }
            }
        }
    });
    rep.stats.merge(s);
    rep.floor("json_key_alias", if cfg.tier == Tier::Tiny { 1 } else { 50 });
    // every scalar kind (alone, inside Option, Seq and a struct field) x every spelling of a number as JSON text, and x numbers at the edges
    let s = parallel(cfg, 5, |t| {
        let leaves = [Shape::F32, Shape::F64, Shape::U8, Shape::I8, Shape::U16, Shape::I16, Shape::U32, Shape::I32, Shape::U64, Shape::I64, Shape::U128, Shape::I128, Shape::Usize, Shape::Isize, Shape::Bool, Shape::Char, Shape::Str];
        let mut li = 0u64;
        for leaf in leaves.iter() {
            for wrap in 0..4 {
                li += 1;
                if !t.mine(li) || t.cfg.expired() || (t.cfg.tier == Tier::Tiny && wrap > 0) {
                    continue;
                }
                let shape = match wrap {
                    0 => leaf.clone(),
                    1 => Shape::Option(Box::new(leaf.clone())),
                    2 => Shape::Seq(Box::new(leaf.clone())),
                    _ => Shape::Struct("Holder", vec![("first", Shape::U8), ("x", leaf.clone())]),
                };
                let schema = shape_to_owned(&shape);
                let mut texts: Vec<Value> = NUMBER_SPELLINGS.iter().map(|x| Value::String((*x).into())).collect();
                for x in [0.0f64, -0.0, 1.5, 3.4028234663852886e38, 3.4028235677973366e38, -3.4028235677973366e38, 1e39, f64::MAX, f64::MIN_POSITIVE, 5e-324, 1e-46, 16777217.0, 9007199254740993.0] {
                    texts.push(serde_json::Number::from_f64(x).map(Value::Number).unwrap_or(Value::Null));
                }
                for x in [0u64, 255, 256, 65535, 65536, u32::MAX as u64, u32::MAX as u64 + 1, i64::MAX as u64, i64::MAX as u64 + 1, u64::MAX] {
                    texts.push(Value::from(x));
                }
                for x in [-1i64, -128, -129, -32769, i32::MIN as i64 - 1, i64::MIN] {
                    texts.push(Value::from(x));
                }
                for leafj in texts {
                    let j = match wrap {
                        0 | 1 => leafj,
                        2 => Value::Array(vec![leafj.clone(), leafj]),
                        _ => {
                            let mut m = serde_json::Map::new();
                            m.insert("first".into(), Value::from(1));
                            m.insert("x".into(), leafj);
                            Value::Object(m)
                        }
                    };
                    c18_encode(t, &schema, &shape, "number_spelling", &j);
                }
            }
        }
    });
    rep.stats.merge(s);
    rep.floor("json_number_spelling", if cfg.tier == Tier::Tiny { 1 } else { 500 });
    // wide nodes: structs, tuples and enums with 63 .. 300 (and 5000) members, type-correct and near-miss JSON, valid and cut bytes
    let s = parallel(cfg, 3, |t| {
        let mut wi = 0u64;
        for width in [63usize, 64, 65, 66, 127, 128, 129, 200, 256, 257, 300, 5000] {
            for kind in 0..4 {
                wi += 1;
                if !t.mine(wi) || t.cfg.expired() || (t.cfg.tier == Tier::Tiny && width > 70) {
                    continue;
                }
                let fname = |i: usize| pcv_core::model::intern(&format!("f{}", i));
                let leaf = |i: usize| [Shape::U8, Shape::Bool, Shape::U32, Shape::Str][i % 4].clone();
                let shape = match kind {
                    0 => Shape::Struct("Wide", (0..width).map(|i| (fname(i), leaf(i))).collect()),
                    1 => Shape::Tuple((0..width).map(leaf).collect()),
                    2 => Shape::Enum("WideE", (0..width).map(|i| VariantShape { name: fname(i), data: if i % 2 == 0 { VData::Unit } else { VData::Newtype(Box::new(leaf(i))) } }).collect()),
                    _ => Shape::Enum("WideV", vec![VariantShape { name: "Only", data: VData::Struct((0..width).map(|i| (fname(i), leaf(i))).collect()) }]),
                };
                let schema = shape_to_owned(&shape);
                let nodes = shape.nodes();
                for round in 0..3 {
                    let val = {
                        let mut g = ValGen::small(&mut t.rng);
                        g.max_str = 6;
                        if let (Shape::Enum(n, vs), 2) = (&shape, kind) {
                            // the last, the first and a middle variant
                            g.gen_variant(n, vs, [vs.len() - 1, 0, vs.len() / 2][round])
                        } else {
                            g.gen(&shape)
                        }
                    };
                    let valid = spec::encode(&val);
                    t.st.count("wide_node_cases");
                    c18_decode(t, &schema, &shape, nodes, "wide_valid", &valid);
                    c18_decode(t, &schema, &shape, nodes, "wide_prefix", &valid[..valid.len() / 2]);
                    if let Ok(j) = serde_json::to_value(&val) {
                        c18_encode(t, &schema, &shape, "wide_type_correct", &j);
                        let nm = near_miss(&mut t.rng, &j);
                        c18_encode(t, &schema, &shape, "near_miss", &nm);
                    }
                }
            }
        }
    });
    rep.stats.merge(s);
    rep.floor("wide_node_cases", if cfg.tier == Tier::Tiny { 1 } else { 50 });
    let s = parallel(cfg, 2, |t| {
        let mut di = 0u64;
        for kind in 0..7 {
            for &depth in &DEEP_DEPTHS {
                di += 1;
                if !t.mine(di) {
                    continue;
                }
                let (shape, val) = deep_case(kind, depth);
                let schema = shape_to_owned(&shape);
                let nodes = shape.nodes();
                let valid = spec::encode(&val);
                t.st.count("deep_nesting_cases");
                c18_decode(t, &schema, &shape, nodes, "deep_valid", &valid);
                c18_decode(t, &schema, &shape, nodes, "deep_prefix", &valid[..valid.len() / 2]);
                if let Ok(j) = serde_json::to_value(&val) {
                    c18_encode(t, &schema, &shape, "deep_type_correct", &j);
                }
            }
        }
    });
    rep.stats.merge(s);
    rep.rule = "cases = (schema, bytes) and (schema, JSON): random schema trees over every node kind (char, pointer-sized and 128-bit integers, nested options, non-string-keyed maps, the schema-of-schema kind; \
                field and variant names unique within one struct/enum) x {valid encoding, strict prefixes, byte substitutions, bit flips, varint re-paddings, hostile length prefixes, random bytes} decoded under catch_unwind \
                with a counting allocator (bound 512*nodes*(len+1) bytes), and x {type-correct, near-miss (one node replaced, incl. numbers spelt as text: special floats, signs, padding), key-aliased (one object key held twice under two spellings; maps of every key kind), number spellings x every scalar kind, unrelated random} JSON encoded under catch_unwind, followed by the decode/re-encode fixpoint \
                check for everything the encoder accepted. distinct = (schema, input)."
        .into();
    rep.assumptions = vec![
        "field / variant names are unique within one struct / enum (as every Rust type guarantees)".into(),
        "inputs whose reference decode exceeds 150000 elements (claimed lengths of zero-width element sequences) are skipped: the harness would not survive a 2^40-element allocation; smaller claims already violate the bound and are reported".into(),
    ];
    rep.floor("dyn_decode_ok", 100);
    rep.floor("dyn_decode_err", 100);
    rep.floor("dyn_encode_ok", 100);
    rep.floor("dyn_encode_err", 100);
    rep.floor("roundtrip_clause_checked", 100);
    rep.floor("json_near_miss", 50);
    rep.floor("json_unrelated", 50);
    rep.floor("bytes_hostile_len", 50);
    for k in crate::trees::KINDS30 {
        rep.floor(k, 1);
    }
    rep
}

// ------------------------------------------------------------------ replay

pub fn replay(cfg: &Cfg, prop: &str) -> Report {
    let mut rep = Report::new(prop);
    let p = cfg.replay.clone().unwrap();
    let m = read_replay(&p).unwrap_or_default();
    let prop_s = prop.to_string();
    // cases that come from a concrete Rust type carry that type's schema as derived at the time; the
    // schema itself may be what was wrong, so these are reproduced by re-running the (sub-second) check
    if prop == "C17" {
        let origin = m.get("origin").cloned().unwrap_or_default();
        if !["random shape", "arity 0/1, char, 128-bit", "deep nesting", "replay", ""].contains(&origin.as_str()) {
            let mut r = run_c17(&Cfg { replay: None, ..cfg.clone() });
            r.floors.clear();
            r.rule = format!("replay of a corpus-type case ({}): the whole check is re-run", origin);
            return r;
        }
    }
    let s = parallel(&Cfg { threads: 1, ..cfg.clone() }, 9, |t| {
        let shape = match m.get("shape").map(|s| Shape::parse(s)) {
            Some(Ok(s)) => s,
            other => {
                t.st.inconclusive(format!("replay file has no parsable shape ({:?})", other.map(|r| r.err())));
                return;
            }
        };
        let schema = shape_to_owned(&shape);
        let json: Option<Value> = m.get("json").and_then(|j| serde_json::from_str(j).ok());
        if prop_s == "C17" {
            let sb = pcv_core::json::unhex(m.get("static_bytes").map(|s| s.as_str()).unwrap_or("")).unwrap_or_default();
            match spec::decode(&shape, &sb) {
                Ok(d) => {
                    // serde_json's parser stops at 128 levels; deeply nested cases rebuild the JSON from the value
                    match json.or_else(|| serde_json::to_value(&d.val).ok()) {
                        Some(j) => c17_case(t, &schema, &shape, &d.val, &sb, &j, "replay"),
                        None => t.st.inconclusive("replay: the value has no JSON form".into()),
                    }
                }
                Err(_) => t.st.inconclusive("replay: static bytes do not decode under the reference decoder".into()),
            }
        } else {
            match m.get("kind").map(|s| s.as_str()) {
                Some("c18-decode") => {
                    let b = pcv_core::json::unhex(m.get("bytes").map(|s| s.as_str()).unwrap_or("")).unwrap_or_default();
                    c18_decode(t, &schema, &shape, shape.nodes(), "replay", &b);
                }
                _ => match json {
                    Some(j) => c18_encode(t, &schema, &shape, "replay", &j),
                    None => t.st.inconclusive("replay: JSON unparsable".into()),
                },
            }
        }
    });
    rep.stats.merge(s);
    rep.rule = "replay of one recorded case".into();
    if prop == "C18" && rep.stats.violations.is_empty() && rep.stats.inconclusive.is_empty() {
        // the recorded case alone is clean: the violation may depend on what the same thread encoded before
        // (state kept across calls); re-run the workload that produced it
        let mut r = run_c18(&Cfg { replay: None, tier: Tier::Quick, ..cfg.clone() });
        r.floors.clear();
        r.rule = "replay: the recorded case alone no longer violates; the quick workload was re-run to cover history-dependent behaviour".into();
        return r;
    }
    rep
}
