fn main(){}
