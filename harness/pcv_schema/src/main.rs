//! pcv_schema: worker for the postcard-schema / postcard-dyn properties (C14-C19).
mod c14;
mod conform;
mod conv;
mod corpus;
mod dynm;
mod trees;

use pcv_core::{cli, mem, run};

fn main() {
    let cfg = match cli::parse_args() {
        Ok(c) => c,
        Err(e) => {
            eprintln!("{}", e);
            std::process::exit(3);
        }
    };
    if cfg.prop == "NOOP" {
        return;
    }
    run::mark_start();
    mem::install_panic_hook();
    let _ = std::fs::create_dir_all(&cfg.out_dir);
    let t0 = std::time::Instant::now();
    let oracle = if cfg!(miri) { Ok(pcv_core::json::J::s("performed by the native stage")) } else { pcv_core::checks::oracle_selfcheck(&cfg) };
    let mut rep = match cfg.prop.as_str() {
        "C15" | "C16" | "C19" if cfg.replay.is_some() => trees::replay(&cfg, &cfg.prop),
        "C17" | "C18" if cfg.replay.is_some() => dynm::replay(&cfg, &cfg.prop),
        "C14" => c14::run(&cfg),
        "C15" => trees::run_c15(&cfg),
        "C16" => trees::run_c16(&cfg),
        "C17" => dynm::run_c17(&cfg),
        "C18" => dynm::run_c18(&cfg),
        "C19" => trees::run_c19(&cfg),
        other => {
            eprintln!("unknown property {}", other);
            std::process::exit(3);
        }
    };
    if cfg.replay.is_some() && cfg.prop == "C14" {
        rep.stats.notes.push("C14 replay files name the concrete type and value; the whole (sub-second) check is re-run to reproduce".into());
    }
    match oracle {
        Ok(j) => {
            rep.extra.insert("oracle_selfcheck".into(), j);
        }
        Err(e) => rep.stats.inconclusive(format!("oracle self-check failed: {}", e)),
    }
    let (nviol, inconclusive) = rep.finish(&cfg, t0.elapsed().as_secs_f64());
    if nviol > 0 {
        std::process::exit(1);
    }
    if inconclusive {
        std::process::exit(2);
    }
}
