//! C14: a type's Schema describes exactly what its Serialize writes.
//!  (1) structural conformance of the recorded serde call tree to `T::SCHEMA`
//!  (2) a schema-directed wire walker that knows nothing but the schema consumes every
//!      encoding exactly.

use crate::conform::*;
use crate::conv::*;
use pcv_core::run::*;
use postcard_schema::schema::owned::OwnedDataModelType;
use postcard_schema::Schema;

// ---- candidate types: no Schema impl today, but a plausible future one; checked as soon as the impl exists
struct Probe<T: ?Sized>(std::marker::PhantomData<T>);
trait ViaNo {
    fn declared(&self) -> Option<&'static postcard_schema::schema::DataModelType> {
        None
    }
}
impl<T: ?Sized> ViaNo for &Probe<T> {}
trait ViaYes {
    fn declared(&self) -> Option<&'static postcard_schema::schema::DataModelType>;
}
impl<T: Schema + ?Sized> ViaYes for Probe<T> {
    fn declared(&self) -> Option<&'static postcard_schema::schema::DataModelType> {
        Some(T::SCHEMA)
    }
}
macro_rules! candidate {
    ($t:expr, $ty:ty, [$($v:expr),* $(,)?]) => {{
        let declared = (&Probe::<$ty>(std::marker::PhantomData)).declared();
        $t.st.count("candidate_types_probed");
        if let Some(sch) = declared {
            $t.st.count("candidate_types_with_an_impl");
            $t.st.count("types");
            let schema: OwnedDataModelType = sch.into();
            let vals: Vec<$ty> = vec![$($v),*];
            for v in &vals {
                if !check_value::<$ty>($t, stringify!($ty), v, &schema, false) {
                    break;
                }
            }
        }
    }};
}

fn schema_candidates(t: &mut Tctx) {
    use std::net::{IpAddr, Ipv4Addr, Ipv6Addr, SocketAddr, SocketAddrV4};
    use std::ops::Bound;
    use std::time::Duration;
    candidate!(t, Bound<u32>, [Bound::Unbounded, Bound::Included(7), Bound::Excluded(u32::MAX)]);
    candidate!(t, (Bound<u8>, Bound<String>), [(Bound::Unbounded, Bound::Included("x".to_string())), (Bound::Excluded(3), Bound::Unbounded), (Bound::Included(1), Bound::Excluded(String::new()))]);
    candidate!(t, Duration, [Duration::ZERO, Duration::new(5, 999_999_999), Duration::MAX]);
    candidate!(t, std::num::Wrapping<u32>, [std::num::Wrapping(9)]);
    candidate!(t, std::cmp::Reverse<u16>, [std::cmp::Reverse(300)]);
    candidate!(t, std::cell::Cell<u8>, [std::cell::Cell::new(200)]);
    candidate!(t, std::cell::RefCell<String>, [std::cell::RefCell::new("käse".to_string())]);
    candidate!(t, std::sync::Mutex<u8>, [std::sync::Mutex::new(3)]);
    candidate!(t, std::sync::RwLock<u16>, [std::sync::RwLock::new(300)]);
    candidate!(t, Ipv4Addr, [Ipv4Addr::new(127, 0, 0, 1)]);
    candidate!(t, Ipv6Addr, [Ipv6Addr::LOCALHOST]);
    candidate!(t, IpAddr, [IpAddr::V4(Ipv4Addr::new(10, 1, 2, 3)), IpAddr::V6(Ipv6Addr::LOCALHOST)]);
    candidate!(t, SocketAddr, [SocketAddr::V4(SocketAddrV4::new(Ipv4Addr::new(10, 1, 2, 3), 8080))]);
    candidate!(t, Box<u32>, [Box::new(70_000)]);
    candidate!(t, Box<str>, ["abc".into()]);
    candidate!(t, Box<[u16]>, [vec![1u16, 300].into_boxed_slice()]);
    candidate!(t, std::rc::Rc<String>, [std::rc::Rc::new("x".to_string())]);
    candidate!(t, std::sync::Arc<u8>, [std::sync::Arc::new(9)]);
    candidate!(t, std::borrow::Cow<'static, str>, [std::borrow::Cow::Borrowed("käse"), std::borrow::Cow::Owned(String::new())]);
    candidate!(t, std::collections::VecDeque<u16>, [vec![1u16, 300, 7].into_iter().collect()]);
    candidate!(t, std::collections::LinkedList<u8>, [vec![1u8, 2].into_iter().collect()]);
    candidate!(t, std::collections::BinaryHeap<u32>, [vec![5u32].into_iter().collect()]);
    candidate!(t, std::ffi::CString, [std::ffi::CString::new("abc").unwrap()]);
    candidate!(t, std::marker::PhantomData<u32>, [std::marker::PhantomData]);
    candidate!(t, (u8, u16, u32, u64, i8, i16, i32), [(1, 300, 70_000, 1 << 40, -1, -300, -70_000)]);
    candidate!(t, (u8, u8, u8, u8, u8, u8, u8, String), [(1, 2, 3, 4, 5, 6, 7, "x".to_string())]);
    candidate!(t, std::num::Saturating<i16>, [std::num::Saturating(-5)]);
    candidate!(t, std::sync::atomic::AtomicU32, [std::sync::atomic::AtomicU32::new(70_000)]);
    candidate!(t, std::time::SystemTime, [std::time::UNIX_EPOCH, std::time::UNIX_EPOCH + Duration::new(1_700_000_000, 5)]);
}

pub fn run(cfg: &Cfg) -> Report {
    let mut rep = Report::new("C14");
    let s = parallel(cfg, 1, |t| {
        let mut i = 0u64;
        macro_rules! one {
            ($ty:ty) => {
                i += 1;
                if t.mine(i) {
                    shaped::<$ty>(t, stringify!($ty));
                }
            };
        }
        crate::for_each_shaped_schema_type!(one);
        // ---- types without a HasShape description: values built by hand
        let n = t.cfg.scale(3, 2000, 40_000);
        for k in 0..n {
            if t.cfg.expired() {
                break;
            }
            let r = &mut t.rng;
            // str / slices / references
            let s = pcv_core::gen::gen_string(r, 40);
            let words: Vec<u16> = (0..r.range(0, 6)).map(|_| r.next() as u16).collect();
            let bytes = r.bytes(r.clone().range(0, 9));
            let u = uuid::Uuid::from_bytes(r.u128().to_le_bytes());
            let secs = (r.next() % 4_000_000_000) as i64;
            let nanos = (r.next() % 1_000_000_000) as u32;
            let dt = chrono::DateTime::<chrono::Utc>::from_timestamp(secs, nanos).unwrap_or_default();
            let fixed = dt.with_timezone(&chrono::FixedOffset::east_opt(((r.next() % 24) as i32 - 12) * 3600).unwrap());
            let m33 = nalgebra::SMatrix::<u8, 3, 3>::from_fn(|a, b| ((a * 3 + b) as u8) ^ (k as u8));
            let m24 = nalgebra::SMatrix::<f32, 2, 4>::from_fn(|a, b| (a * 4 + b) as f32 * 0.5 - k as f32);
            let m11 = nalgebra::SMatrix::<i16, 1, 1>::from_fn(|_, _| (k as i16).wrapping_sub(7));
            let mut hv = heapless_v0_8::Vec::<u16, 4>::new();
            for w in words.iter().take(4) {
                let _ = hv.push(*w);
            }
            let mut hs = heapless_v0_8::String::<8>::new();
            for c in s.chars().take(2) {
                let _ = hs.push(c);
            }
            let key = postcard_schema::key::Key::for_owned_schema_path(&s, &OwnedDataModelType::U8);
            let n32 = r.next() as u32;
            let life = crate::corpus::SLife { s: &s, b: &bytes, n: &n32, o: if k % 2 == 0 { Some(&s) } else { None } };
            macro_rules! hand {
                ($ty:ty, $v:expr, $flat:expr) => {{
                    let schema: OwnedDataModelType = <$ty as Schema>::SCHEMA.into();
                    t.st.count("hand_built_values");
                    check_value::<$ty>(t, stringify!($ty), $v, &schema, $flat);
                }};
            }
            hand!(str, &s[..], false);
            hand!([u8], &bytes[..], false);
            hand!(&str, &&s[..], false);
            hand!(&[u16], &&words[..], false);
            hand!(uuid::Uuid, &u, false);
            hand!(chrono::DateTime<chrono::Utc>, &dt, false);
            hand!(chrono::DateTime<chrono::FixedOffset>, &fixed, false);
            hand!(nalgebra::SMatrix<u8, 3, 3>, &m33, true);
            hand!(nalgebra::SMatrix<f32, 2, 4>, &m24, true);
            hand!(nalgebra::SMatrix<i16, 1, 1>, &m11, true);
            hand!(heapless_v0_8::Vec<u16, 4>, &hv, false);
            hand!(heapless_v0_8::String<8>, &hs, false);
            hand!(postcard_schema::key::Key, &key, false);
            hand!(crate::corpus::SLife, &life, false);
            // the schema types themselves: random trees, borrowed and owned
            let o = SchemaOpts { max_depth: 4, max_fan: 4, unique_names: false, allow_schema_kind: true };
            let d = t.rng.range(0, 4) as u32;
            let tree = gen_schema_shape(&mut t.rng, d, &o);
            let owned = shape_to_owned(&tree);
            let mut arena = Arena::new();
            let borrowed = arena.build(&tree);
            hand!(postcard_schema::schema::owned::OwnedDataModelType, &owned, false);
            hand!(postcard_schema::schema::DataModelType, borrowed, false);
        }
        if t.tid == 0 {
            t.st.add("types", 16);
            schema_candidates(t);
        }
    });
    rep.stats.merge(s);
    rep.rule = "cases = (type with Schema + Serialize, value): every built-in Schema impl (ints, NonZero*, floats, char, str/String/PathBuf, unit, tuples to 6, arrays, slices/Vec/sets, maps, Option, Result, \
                references, four range types, heapless 0.7/0.8, uuid, chrono, nalgebra, Key, DataModelType/OwnedDataModelType) and a derived corpus (unit/newtype/tuple/named/generic/lifetime/nested structs, enums with all \
                variant forms) x values covering every top-level variant plus random values; the recorded serializer call tree must conform structurally to T::SCHEMA (kinds, field names and order, variant names and \
                indices, arity, element types) and an independent schema-directed wire walker must consume each encoding exactly. distinct = (type, encoding)."
        .into();
    rep.assumptions = vec![
        "type names are not compared (the statement lists field and variant names; e.g. Range<T> vs serde's Range)".into(),
        "nalgebra matrices: nested arrays are compared after flattening (the crate's own test pins SMatrix<u8,3,3> == [u8; 9])".into(),
        "values of shaped types come from decoding reference encodings generated from the harness's own (schema-independent) description of the type".into(),
    ];
    rep.floor("types", 60);
    rep.floor("conformance_checks", 1000);
    rep.floor("wire_walks_exact", 1000);
    rep.floor("variant_values_seen", 100);
    rep.floor("hand_built_values", 100);
    rep
}
