//! C14: a type's Schema describes exactly what its Serialize writes.
//!  (1) structural conformance of the recorded serde call tree to `T::SCHEMA`
//!  (2) a schema-directed wire walker that knows nothing but the schema consumes every
//!      encoding exactly.

use crate::conv::*;
use pcv_core::bridge::record;
use pcv_core::corpus::{corpus_value, HasShape};
use pcv_core::gen::ValGen;
use pcv_core::json::{hex, J};
use pcv_core::mem::catch;
use pcv_core::model::*;
use pcv_core::rng::{fp, fp_mix};
use pcv_core::run::*;
use postcard_schema::schema::owned::{OwnedData, OwnedDataModelType, OwnedNamedField};
use postcard_schema::Schema;
use serde::{Deserialize, Serialize};

/// Does the recorded value conform to the schema?  Err(path: reason).
pub fn conforms(v: &Val, s: &OwnedDataModelType, flatten_tuples: bool) -> Result<(), String> {
    use OwnedDataModelType as O;
    fn fields(got: &[(Name, Val)], want: &[OwnedNamedField], fl: bool, what: &str) -> Result<(), String> {
        if got.len() != want.len() {
            return Err(format!("{}: {} fields serialised, schema lists {}", what, got.len(), want.len()));
        }
        for (i, ((gn, gv), w)) in got.iter().zip(want.iter()).enumerate() {
            if *gn != &*w.name {
                return Err(format!("{}: field #{} is serialised as '{}' but the schema names it '{}'", what, i, gn, w.name));
            }
            conforms(gv, &w.ty, fl).map_err(|e| format!("{}.{}: {}", what, gn, e))?;
        }
        Ok(())
    }
    fn list(got: &[Val], want: &[OwnedDataModelType], fl: bool, what: &str) -> Result<(), String> {
        if got.len() != want.len() {
            return Err(format!("{}: arity {} serialised, schema says {}", what, got.len(), want.len()));
        }
        for (i, (g, w)) in got.iter().zip(want.iter()).enumerate() {
            conforms(g, w, fl).map_err(|e| format!("{}.{}: {}", what, i, e))?;
        }
        Ok(())
    }
    let mismatch = |what: &str| Err(format!("serialised as {} but the schema says {:?}", what, s));
    match (s, v) {
        (O::Bool, Val::Bool(_)) => Ok(()),
        (O::I8, Val::I8(_)) | (O::U8, Val::U8(_)) => Ok(()),
        (O::I16, Val::I16(_)) | (O::I32, Val::I32(_)) | (O::I64, Val::I64(_)) | (O::I128, Val::I128(_)) => Ok(()),
        (O::U16, Val::U16(_)) | (O::U32, Val::U32(_)) | (O::U64, Val::U64(_)) | (O::U128, Val::U128(_)) => Ok(()),
        (O::Usize, Val::U64(_)) | (O::Isize, Val::I64(_)) => Ok(()),
        (O::F32, Val::F32(_)) | (O::F64, Val::F64(_)) => Ok(()),
        (O::Char, Val::Char(_)) => Ok(()),
        (O::String, Val::Str(_)) => Ok(()),
        (O::ByteArray, Val::Bytes(_)) => Ok(()),
        (O::Option(_), Val::None) => Ok(()),
        (O::Option(i), Val::Some(x)) => conforms(x, i, flatten_tuples).map_err(|e| format!("Some: {}", e)),
        (O::Unit, Val::Unit) => Ok(()),
        (O::Seq(e), Val::Seq(items)) => {
            for (i, x) in items.iter().enumerate() {
                conforms(x, e, flatten_tuples).map_err(|er| format!("[{}]: {}", i, er))?;
            }
            Ok(())
        }
        (O::Tuple(w), Val::Tuple(items)) => {
            if flatten_tuples {
                // nalgebra: matrix storage serialises as nested arrays, schema is the flattened tuple
                fn flat(v: &Val, out: &mut Vec<Val>) {
                    match v {
                        Val::Tuple(x) => x.iter().for_each(|i| flat(i, out)),
                        o => out.push(o.clone()),
                    }
                }
                let mut f = Vec::new();
                flat(v, &mut f);
                list(&f, w, false, "tuple(flattened)")
            } else {
                list(items, w, false, "tuple")
            }
        }
        (O::Map { key, val }, Val::Map(m)) => {
            for (k, x) in m {
                conforms(k, key, flatten_tuples).map_err(|e| format!("map key: {}", e))?;
                conforms(x, val, flatten_tuples).map_err(|e| format!("map value: {}", e))?;
            }
            Ok(())
        }
        (O::Struct { data: OwnedData::Unit, .. }, Val::UnitStruct(_)) => Ok(()),
        (O::Struct { data: OwnedData::Newtype(i), .. }, Val::NewtypeStruct(_, x)) => conforms(x, i, flatten_tuples).map_err(|e| format!("newtype: {}", e)),
        (O::Struct { data: OwnedData::Tuple(w), .. }, Val::TupleStruct(_, items)) => list(items, w, flatten_tuples, "tuple struct"),
        (O::Struct { data: OwnedData::Struct(w), .. }, Val::Struct(_, f)) => fields(f, w, flatten_tuples, "struct"),
        (O::Enum { variants, .. }, Val::UnitVariant(_, i, vn))
        | (O::Enum { variants, .. }, Val::NewtypeVariant(_, i, vn, _))
        | (O::Enum { variants, .. }, Val::TupleVariant(_, i, vn, _))
        | (O::Enum { variants, .. }, Val::StructVariant(_, i, vn, _)) => {
            let w = variants.get(*i as usize).ok_or_else(|| format!("variant index {} serialised, schema lists {} variants", i, variants.len()))?;
            if &*w.name != *vn {
                return Err(format!("variant index {} is serialised as '{}' but the schema names it '{}'", i, vn, w.name));
            }
            match (&w.data, v) {
                (OwnedData::Unit, Val::UnitVariant(..)) => Ok(()),
                (OwnedData::Newtype(ty), Val::NewtypeVariant(_, _, _, x)) => conforms(x, ty, flatten_tuples).map_err(|e| format!("{}: {}", vn, e)),
                (OwnedData::Tuple(ws), Val::TupleVariant(_, _, _, items)) => list(items, ws, flatten_tuples, vn),
                (OwnedData::Struct(ws), Val::StructVariant(_, _, _, f)) => fields(f, ws, flatten_tuples, vn),
                (d, _) => Err(format!("variant '{}' is serialised as a {} but the schema says {:?}", vn, v.kind(), d)),
            }
        }
        (O::Schema, _) => conforms_meta(v),
        _ => mismatch(v.kind()),
    }
}

/// The schema-of-schema kind: the value must be a serialised (Owned)DataModelType.  Checked
/// against a hand-written description of that meta format (names, not numbers).
fn conforms_meta(v: &Val) -> Result<(), String> {
    let leaf = [
        "Bool", "I8", "U8", "I16", "I32", "I64", "I128", "U16", "U32", "U64", "U128", "Usize", "Isize", "F32", "F64", "Char", "String", "ByteArray", "Unit", "Schema",
    ];
    fn data(v: &Val) -> Result<(), String> {
        match v {
            Val::UnitVariant(_, _, "Unit") => Ok(()),
            Val::NewtypeVariant(_, _, "Newtype", x) => conforms_meta(x),
            Val::NewtypeVariant(_, _, "Tuple", x) => match &**x {
                Val::Seq(items) => items.iter().try_for_each(conforms_meta),
                o => Err(format!("Data::Tuple payload is a {}", o.kind())),
            },
            Val::NewtypeVariant(_, _, "Struct", x) => match &**x {
                Val::Seq(items) => items.iter().try_for_each(|f| match f {
                    Val::Struct(_, fl) if fl.len() == 2 && fl[0].0 == "name" && fl[1].0 == "ty" && matches!(fl[0].1, Val::Str(_)) => conforms_meta(&fl[1].1),
                    o => Err(format!("NamedField serialised as {}", o.show())),
                }),
                o => Err(format!("Data::Struct payload is a {}", o.kind())),
            },
            o => Err(format!("not a Data value: {}", o.show())),
        }
    }
    match v {
        Val::UnitVariant(_, _, n) if leaf.contains(n) => Ok(()),
        Val::NewtypeVariant(_, _, "Option", x) | Val::NewtypeVariant(_, _, "Seq", x) => conforms_meta(x),
        Val::NewtypeVariant(_, _, "Tuple", x) => match &**x {
            Val::Seq(items) => items.iter().try_for_each(conforms_meta),
            o => Err(format!("Tuple payload is a {}", o.kind())),
        },
        Val::StructVariant(_, _, "Map", f) if f.len() == 2 && f[0].0 == "key" && f[1].0 == "val" => {
            conforms_meta(&f[0].1)?;
            conforms_meta(&f[1].1)
        }
        Val::StructVariant(_, _, "Struct", f) if f.len() == 2 && f[0].0 == "name" && f[1].0 == "data" && matches!(f[0].1, Val::Str(_)) => data(&f[1].1),
        Val::StructVariant(_, _, "Enum", f) if f.len() == 2 && f[0].0 == "name" && f[1].0 == "variants" && matches!(f[0].1, Val::Str(_)) => match &f[1].1 {
            Val::Seq(items) => items.iter().try_for_each(|x| match x {
                Val::Struct(_, fl) if fl.len() == 2 && fl[0].0 == "name" && fl[1].0 == "data" && matches!(fl[0].1, Val::Str(_)) => data(&fl[1].1),
                o => Err(format!("Variant serialised as {}", o.show())),
            }),
            o => Err(format!("variants is a {}", o.kind())),
        },
        o => Err(format!("not a serialised schema: {}", o.show())),
    }
}

/// One value of one type: conformance + wire walker.
pub fn check_value<T: Serialize + ?Sized>(t: &mut Tctx, name: &str, v: &T, schema: &OwnedDataModelType, flatten: bool) -> bool {
    t.st.eval();
    let rec = match record(v) {
        Ok(r) => r,
        Err(e) => {
            t.st.inconclusive(format!("Recorder failed on {}: {}", name, e));
            return false;
        }
    };
    let bytes = match catch(|| postcard::to_allocvec(v)) {
        Ok(Ok(b)) => b,
        _ => {
            t.st.inconclusive(format!("{}: to_allocvec failed in the C14 harness", name));
            return false;
        }
    };
    t.st.nontrivial(fp_mix(fp(name.as_bytes()), fp(&bytes)));
    rec.walk(&mut |x| {
        if let Val::UnitVariant(..) | Val::NewtypeVariant(..) | Val::TupleVariant(..) | Val::StructVariant(..) = x {
            t.st.count("variant_values_seen");
        }
    });
    let rp = || vec![kv("kind", "c14"), kv("type", name), kv("value", rec.show()), kv("bytes", hex(&bytes)), kv("schema", format!("{:?}", schema))];
    if let Err(e) = conforms(&rec, schema, flatten) {
        t.st.violation(
            &format!("C14:serialisation-does-not-conform-to-schema:{}", name.replace(' ', "")),
            format!("{}: {} (value {})", name, e, rec.show()),
            rp(),
        );
        return false;
    }
    t.st.count("conformance_checks");
    match walk_by_schema(schema, &bytes) {
        Ok(n) if n == bytes.len() => {
            t.st.count("wire_walks_exact");
            true
        }
        other => {
            t.st.violation(
                &format!("C14:schema-driven-reader-does-not-consume-encoding:{}", name.replace(' ', "")),
                format!("{}: a reader that knows only the schema gave {:?} on the {}-byte encoding {}", name, other, bytes.len(), hex(&bytes)),
                rp(),
            );
            false
        }
    }
}

fn shaped<T>(t: &mut Tctx, name: &str)
where
    T: Serialize + for<'de> Deserialize<'de> + HasShape + Schema,
{
    let schema: OwnedDataModelType = T::SCHEMA.into();
    let shape = T::shape();
    t.st.count("types");
    let rounds = t.cfg.scale(3, 1500, 30_000);
    // every enum variant of the top-level type (and nested ones by random generation)
    let mut done = 0;
    for i in 0..rounds {
        if t.cfg.expired() {
            break;
        }
        let got = {
            let mut g = if i % 4 == 0 { ValGen::new(&mut t.rng) } else { ValGen::small(&mut t.rng) };
            g.max_str = 300;
            if let (Shape::Enum(n, vs), true) = (&shape, (i as usize) < 4 * 64) {
                // force variant i % nvariants
                let k = (i as usize) % vs.len().max(1);
                if vs.is_empty() {
                    None
                } else {
                    let v = g.gen_variant(n, vs, k);
                    let b = pcv_core::spec::encode(&v);
                    postcard::from_bytes::<T>(&b).ok().map(|x| (x, b))
                }
            } else {
                corpus_value::<T>(&shape, &mut g)
            }
        };
        if let Some((v, _)) = got {
            done += 1;
            if !check_value(t, name, &v, &schema, false) {
                return;
            }
            if t.st.want_sample() && done == 2 {
                let mut j = J::obj();
                j.set("type", J::s(name)).set("schema", J::s(format!("{}", schema))).set("value", J::s(record(&v).map(|r| r.show()).unwrap_or_default()));
                t.st.sample(j);
            }
        } else {
            t.st.count("values_rejected_by_type");
        }
    }
    if done == 0 {
        t.st.inconclusive(format!("no value of {} could be generated", name));
    }
}

pub fn run(cfg: &Cfg) -> Report {
    let mut rep = Report::new("C14");
    let s = parallel(cfg, 1, |t| {
        let mut i = 0u64;
        macro_rules! one {
            ($ty:ty) => {
                i += 1;
                if t.mine(i) {
                    shaped::<$ty>(t, stringify!($ty));
                }
            };
        }
        crate::for_each_shaped_schema_type!(one);
        // ---- types without a HasShape description: values built by hand
        let n = t.cfg.scale(3, 2000, 40_000);
        for k in 0..n {
            if t.cfg.expired() {
                break;
            }
            let r = &mut t.rng;
            // str / slices / references
            let s = pcv_core::gen::gen_string(r, 40);
            let words: Vec<u16> = (0..r.range(0, 6)).map(|_| r.next() as u16).collect();
            let bytes = r.bytes(r.clone().range(0, 9));
            let u = uuid::Uuid::from_bytes(r.u128().to_le_bytes());
            let secs = (r.next() % 4_000_000_000) as i64;
            let nanos = (r.next() % 1_000_000_000) as u32;
            let dt = chrono::DateTime::<chrono::Utc>::from_timestamp(secs, nanos).unwrap_or_default();
            let fixed = dt.with_timezone(&chrono::FixedOffset::east_opt(((r.next() % 24) as i32 - 12) * 3600).unwrap());
            let m33 = nalgebra::SMatrix::<u8, 3, 3>::from_fn(|a, b| ((a * 3 + b) as u8) ^ (k as u8));
            let m24 = nalgebra::SMatrix::<f32, 2, 4>::from_fn(|a, b| (a * 4 + b) as f32 * 0.5 - k as f32);
            let m11 = nalgebra::SMatrix::<i16, 1, 1>::from_fn(|_, _| (k as i16).wrapping_sub(7));
            let mut hv = heapless_v0_8::Vec::<u16, 4>::new();
            for w in words.iter().take(4) {
                let _ = hv.push(*w);
            }
            let mut hs = heapless_v0_8::String::<8>::new();
            for c in s.chars().take(2) {
                let _ = hs.push(c);
            }
            let key = postcard_schema::key::Key::for_owned_schema_path(&s, &OwnedDataModelType::U8);
            let n32 = r.next() as u32;
            let life = crate::corpus::SLife { s: &s, b: &bytes, n: &n32, o: if k % 2 == 0 { Some(&s) } else { None } };
            macro_rules! hand {
                ($ty:ty, $v:expr, $flat:expr) => {{
                    let schema: OwnedDataModelType = <$ty as Schema>::SCHEMA.into();
                    t.st.count("hand_built_values");
                    check_value::<$ty>(t, stringify!($ty), $v, &schema, $flat);
                }};
            }
            hand!(str, &s[..], false);
            hand!([u8], &bytes[..], false);
            hand!(&str, &&s[..], false);
            hand!(&[u16], &&words[..], false);
            hand!(uuid::Uuid, &u, false);
            hand!(chrono::DateTime<chrono::Utc>, &dt, false);
            hand!(chrono::DateTime<chrono::FixedOffset>, &fixed, false);
            hand!(nalgebra::SMatrix<u8, 3, 3>, &m33, true);
            hand!(nalgebra::SMatrix<f32, 2, 4>, &m24, true);
            hand!(nalgebra::SMatrix<i16, 1, 1>, &m11, true);
            hand!(heapless_v0_8::Vec<u16, 4>, &hv, false);
            hand!(heapless_v0_8::String<8>, &hs, false);
            hand!(postcard_schema::key::Key, &key, false);
            hand!(crate::corpus::SLife, &life, false);
            // the schema types themselves: random trees, borrowed and owned
            let o = SchemaOpts { max_depth: 4, max_fan: 4, unique_names: false, allow_schema_kind: true };
            let d = t.rng.range(0, 4) as u32;
            let tree = gen_schema_shape(&mut t.rng, d, &o);
            let owned = shape_to_owned(&tree);
            let mut arena = Arena::new();
            let borrowed = arena.build(&tree);
            hand!(postcard_schema::schema::owned::OwnedDataModelType, &owned, false);
            hand!(postcard_schema::schema::DataModelType, borrowed, false);
        }
        if t.tid == 0 {
            t.st.add("types", 16);
        }
    });
    rep.stats.merge(s);
    rep.rule = "cases = (type with Schema + Serialize, value): every built-in Schema impl (ints, NonZero*, floats, char, str/String/PathBuf, unit, tuples to 6, arrays, slices/Vec/sets, maps, Option, Result, \
                references, four range types, heapless 0.7/0.8, uuid, chrono, nalgebra, Key, DataModelType/OwnedDataModelType) and a derived corpus (unit/newtype/tuple/named/generic/lifetime/nested structs, enums with all \
                variant forms) x values covering every top-level variant plus random values; the recorded serializer call tree must conform structurally to T::SCHEMA (kinds, field names and order, variant names and \
                indices, arity, element types) and an independent schema-directed wire walker must consume each encoding exactly. distinct = (type, encoding)."
        .into();
    rep.assumptions = vec![
        "type names are not compared (the statement lists field and variant names; e.g. Range<T> vs serde's Range)".into(),
        "nalgebra matrices: nested arrays are compared after flattening (the crate's own test pins SMatrix<u8,3,3> == [u8; 9])".into(),
        "values of shaped types come from decoding reference encodings generated from the harness's own (schema-independent) description of the type".into(),
    ];
    rep.floor("types", 60);
    rep.floor("conformance_checks", 1000);
    rep.floor("wire_walks_exact", 1000);
    rep.floor("variant_values_seen", 100);
    rep.floor("hand_built_values", 100);
    rep
}
