//! C15 (borrowed and owned schemas coincide on the wire), C16 (schema keys: both hashers
//! agree with each other and with the documented FNV-1a stream), C19 (inspection helpers
//! are total and faithful) - all over random schema trees built from one harness-side
//! description (`Shape` with a marker for the schema-of-schema kind).

use crate::conv::*;
use crate::corpus::for_each_schema_type;
use pcv_core::gen::{deep_case, DEEP_DEPTHS};
use pcv_core::json::{hex, J};
use pcv_core::mem::catch;
use pcv_core::model::*;
use pcv_core::rng::{fp, fp_mix, Rng};
use pcv_core::run::*;
use postcard_schema::key::Key;
use postcard_schema::schema::owned::{OwnedData, OwnedDataModelType};
use postcard_schema::Schema;
use std::collections::{BTreeSet, HashSet};

fn opts(t: &Tctx) -> SchemaOpts {
    let _ = t;
    SchemaOpts { max_depth: 6, max_fan: 6, unique_names: false, allow_schema_kind: true }
}

fn gen_tree(t: &mut Tctx) -> Shape {
    let o = opts(t);
    let hi = if t.rng.chance(1, 4) { 6 } else { 3 };
            let depth = t.rng.range(0, hi) as u32;
    gen_schema_shape(&mut t.rng, depth, &o)
}

fn rp_tree(kind: &str, shape: &Shape, extra: Vec<(String, String)>) -> Vec<(String, String)> {
    let mut v = vec![kv("kind", kind), kv("shape", shape.text()), kv("schema", format!("{:?}", shape_to_owned(shape)))];
    v.extend(extra);
    v
}

fn note_kinds(t: &mut Tctx, shape: &Shape) {
    let mut ks = BTreeSet::new();
    kind_labels(shape, &mut ks);
    for k in ks {
        t.st.count(k);
    }
}


/// Trees far wider and names far longer than any generator draws: 20 000 .. 30 000 children under one node (what
/// `[T; 30000]` or a generated register map looks like), names of 1 KiB .. 70 KiB, ASCII and multi-byte.
fn extreme_trees() -> Vec<(&'static str, Shape)> {
    use pcv_core::model::intern;
    let long = |n: usize, unit: &str| -> Name { intern(&unit.repeat(n / unit.len() + 1)) };
    let mut out: Vec<(&'static str, Shape)> = Vec::new();
    out.push(("tuple of 30000 u8", Shape::Tuple(vec![Shape::U8; 30_000])));
    out.push(("tuple of 27000 mixed leaves", Shape::Tuple((0..27_000).map(|i| [Shape::U8, Shape::Str, Shape::Bool, Shape::I64][i % 4].clone()).collect())));
    out.push(("tuple struct of 30000", Shape::TupleStruct("Wide", vec![Shape::U16; 30_000])));
    out.push(("struct of 20000 fields", Shape::Struct("Regs", (0..20_000).map(|i| (intern(&format!("r{}", i)), if i % 2 == 0 { Shape::U32 } else { Shape::Bool })).collect())));
    out.push(("enum of 20000 unit variants", Shape::Enum("Op", (0..20_000).map(|i| VariantShape { name: intern(&format!("V{}", i)), data: VData::Unit }).collect())));
    out.push(("enum with a 19000-field variant", Shape::Enum("E", vec![VariantShape { name: "Small", data: VData::Unit }, VariantShape { name: "Big", data: VData::Struct((0..19_000).map(|i| (intern(&format!("f{}", i)), Shape::U8)).collect()) }, VariantShape { name: "T", data: VData::Tuple(vec![Shape::U8; 27_000]) }])));
    for n in [1024usize, 1025, 1100, 5000, 70_000] {
        out.push(("long type name", Shape::Struct(long(n, "N"), vec![("a", Shape::U8)])));
        out.push(("long field name", Shape::Struct("S", vec![("a", Shape::U8), (long(n, "f"), Shape::U16), ("z", Shape::Bool)])));
        out.push(("long variant name", Shape::Enum("E", vec![VariantShape { name: "A", data: VData::Unit }, VariantShape { name: long(n, "k\u{e4}se"), data: VData::Newtype(Box::new(Shape::U8)) }])));
        out.push(("long unit struct name", Shape::UnitStruct(long(n, "\u{540d}"))));
    }
    out
}

// ------------------------------------------------------------------ C15

fn c15_tree(t: &mut Tctx, shape: &Shape, origin: &str) {
    t.st.eval();
    note_kinds(t, shape);
    let expected = shape_to_owned(shape);
    let mut arena = Arena::new();
    let borrowed = arena.build(shape);
    let r = catch(|| {
        let conv = OwnedDataModelType::from(borrowed);
        let bb = postcard::to_allocvec(borrowed);
        let bo = postcard::to_allocvec(&conv);
        (conv, bb, bo)
    });
    let (conv, bb, bo) = match r {
        Ok(x) => x,
        Err(p) => {
            t.st.violation("C15:panic", format!("converting / serialising a schema panicked: {}", p), rp_tree("c15", shape, vec![]));
            return;
        }
    };
    if shape.nodes() > 1 {
        t.st.nontrivial(fp(format!("{:?}", expected).as_bytes()));
    }
    if conv != expected {
        t.st.violation(
            "C15:conversion-differs",
            format!("OwnedDataModelType::from(borrowed) = {:?} but the tree was built as {:?} ({})", conv, expected, origin),
            rp_tree("c15", shape, vec![]),
        );
        return;
    }
    let (bb, bo) = match (bb, bo) {
        (Ok(a), Ok(b)) => (a, b),
        _ => {
            t.st.violation("C15:serialise-failed", "serialising a schema failed".into(), rp_tree("c15", shape, vec![]));
            return;
        }
    };
    if bb != bo {
        t.st.violation(
            "C15:bytes-differ",
            format!("borrowed schema serialises to {} but its owned conversion to {}", hex(&bb), hex(&bo)),
            rp_tree("c15", shape, vec![]),
        );
        return;
    }
    match catch(|| postcard::take_from_bytes::<OwnedDataModelType>(&bb)) {
        Ok(Ok((back, rest))) if back == conv && rest.is_empty() => t.st.count("decoded_back"),
        other => {
            t.st.violation(
                "C15:does-not-decode-back",
                format!("deserialising the borrowed schema's bytes gave {:?}", other.map(|r| r.map(|x| (x.0, x.1.len())).map_err(|e| format!("{:?}", e)))),
                rp_tree("c15", shape, vec![kv("bytes", hex(&bb))]),
            );
            return;
        }
    }
    // informational only: the absolute variant numbering (a consistent renumbering of both enums keeps the statement true)
    match walk_meta(&bb, 0) {
        Ok(n) if n == bb.len() => t.st.count("wire_matches_declared_variant_numbering"),
        _ => t.st.count("wire_differs_from_declared_variant_numbering"),
    }
    if t.st.want_sample() && shape.nodes() > 3 && shape.nodes() < 12 {
        let mut j = J::obj();
        j.set("schema", J::s(format!("{:?}", expected))).set("bytes", J::s(hex(&bb)));
        t.st.sample(j);
    }
}

pub fn run_c15(cfg: &Cfg) -> Report {
    let mut rep = Report::new("C15");
    let s = parallel(cfg, 1, |t| {
        let n = t.cfg.scale(50, 30_000, 800_000);
        for _ in 0..n {
            if t.cfg.expired() {
                break;
            }
            let shape = gen_tree(t);
            c15_tree(t, &shape, "random tree");
        }
        // deeply nested trees
        let mut di = 0u64;
        for kind in 0..7 {
            for &depth in &DEEP_DEPTHS {
                di += 1;
                if t.mine(di) {
                    let (shape, _) = deep_case(kind, depth);
                    t.st.count("deep_trees");
                    c15_tree(t, &shape, "deep tree");
                }
            }
        }
        // very wide nodes and very long names
        if t.cfg.tier != Tier::Tiny {
            for (what, shape) in extreme_trees() {
                di += 1;
                if t.mine(di) {
                    t.st.count("extreme_trees");
                    c15_tree(t, &shape, what);
                }
            }
        }
        // schemas of the concrete corpus
        if t.tid == 0 {
            macro_rules! one {
                ($ty:ty) => {{
                    let owned: OwnedDataModelType = <$ty as Schema>::SCHEMA.into();
                    let shape = owned_to_shape(&owned);
                    t.st.count("corpus_schemas");
                    // borrowed side is the real static schema here
                    t.st.eval();
                    let bb = postcard::to_allocvec(<$ty as Schema>::SCHEMA);
                    let bo = postcard::to_allocvec(&owned);
                    let ok = match (&bb, &bo) {
                        (Ok(a), Ok(b)) => a == b && matches!(postcard::take_from_bytes::<OwnedDataModelType>(a), Ok((back, rest)) if back == owned && rest.is_empty()),
                        _ => false,
                    };
                    if !ok || shape_to_owned(&shape) != owned {
                        t.st.violation("C15:corpus-schema-differs", format!("static schema of {} and its owned conversion disagree on the wire", stringify!($ty)), vec![kv("kind", "c15-corpus"), kv("type", stringify!($ty))]);
                    }
                }};
            }
            for_each_schema_type!(one);
        }
    });
    rep.stats.merge(s);
    rep.rule = "cases = schema tree: random trees over all 26 node kinds and 4 data kinds (names empty / ASCII / multi-byte / with spaces, depth <= 6, fan-out <= 6) built from one harness description both \
                as a borrowed (&'static, arena-allocated) tree and as the expected owned tree; plus the static schemas of the concrete type corpus. Non-trivial = more than one node; distinct = fingerprint of the owned tree."
        .into();
    rep.assumptions = vec!["the absolute variant numbering of the two enums is recorded (wire_matches_declared_variant_numbering) but not judged".into()];
    for k in KINDS30 {
        rep.floor(k, 1);
    }
    rep.floor("decoded_back", 100);
    rep.floor("deep_trees", 7);
    rep.floor("extreme_trees", 10);
    rep
}

pub const KINDS30: [&str; 30] = [
    "node_bool", "node_i8", "node_u8", "node_i16", "node_i32", "node_i64", "node_i128", "node_u16", "node_u32", "node_u64", "node_u128", "node_usize", "node_isize", "node_f32", "node_f64",
    "node_char", "node_string", "node_bytearray", "node_option", "node_unit", "node_seq", "node_tuple", "node_map", "node_struct", "node_enum", "node_schema", "data_unit", "data_newtype",
    "data_tuple", "data_struct",
];

// ------------------------------------------------------------------ C16

fn gen_path(rng: &mut Rng) -> String {
    if rng.chance(1, 6) {
        // paths whose first / last scalars are ones a "clean-up" step might treat specially
        let lead = *rng.pick(&["\u{FEFF}", "\u{FFFE}", " ", "/", "\u{0}", "\t", "\u{200B}", "r#", "\u{FEFF}\u{FEFF}"]);
        let trail = *rng.pick(&["", "", "/", " ", "\u{0}", "\n", "\u{FEFF}"]);
        return format!("{}topic{}{}", lead, rng.below(50), trail);
    }
    match rng.below(6) {
        0 => String::new(),
        1 => "test_path".into(),
        2 => "topic/🦀/käse".into(),
        3 => "x".repeat(1024),
        4 => pcv_core::gen::gen_string(rng, 40),
        _ => format!("endpoint/{}", rng.below(1000)),
    }
}

/// Rename only struct / enum *type* names.
fn rename_types(s: &Shape) -> Shape {
    fn l(v: &[Shape]) -> Vec<Shape> {
        v.iter().map(rename_types).collect()
    }
    fn f(v: &[(Name, Shape)]) -> Vec<(Name, Shape)> {
        v.iter().map(|(n, s)| (*n, rename_types(s))).collect()
    }
    match s {
        Shape::Option(a) => Shape::Option(Box::new(rename_types(a))),
        Shape::Seq(a) => Shape::Seq(Box::new(rename_types(a))),
        Shape::Map(k, v) => Shape::Map(Box::new(rename_types(k)), Box::new(rename_types(v))),
        Shape::Tuple(v) => Shape::Tuple(l(v)),
        Shape::UnitStruct(n) if *n == SCHEMA_MARKER => s.clone(),
        Shape::UnitStruct(_) => Shape::UnitStruct("RenamedType"),
        Shape::NewtypeStruct(_, a) => Shape::NewtypeStruct("RenamedType", Box::new(rename_types(a))),
        Shape::TupleStruct(_, v) => Shape::TupleStruct("RenamedType", l(v)),
        Shape::Struct(_, fl) => Shape::Struct("RenamedType", f(fl)),
        Shape::Enum(_, vs) => Shape::Enum(
            "RenamedEnum",
            vs.iter()
                .map(|v| VariantShape {
                    name: v.name,
                    data: match &v.data {
                        VData::Unit => VData::Unit,
                        VData::Newtype(a) => VData::Newtype(Box::new(rename_types(a))),
                        VData::Tuple(t) => VData::Tuple(l(t)),
                        VData::Struct(fl) => VData::Struct(f(fl)),
                    },
                })
                .collect(),
        ),
        o => o.clone(),
    }
}

/// Single-node mutations: (description, mutated tree).
fn mutations(rng: &mut Rng, s: &Shape) -> Vec<(&'static str, Shape)> {
    // enumerate node paths, mutate one node at a time by rebuilding
    fn count(s: &Shape) -> usize {
        s.nodes()
    }
    fn leaf_swap(s: &Shape) -> Option<Shape> {
        Some(match s {
            Shape::Bool => Shape::U8,
            Shape::U8 => Shape::I8,
            Shape::I8 => Shape::U8,
            Shape::I16 => Shape::I32,
            Shape::I32 => Shape::I16,
            Shape::I64 => Shape::U64,
            Shape::U64 => Shape::I64,
            Shape::U16 => Shape::U32,
            Shape::U32 => Shape::U16,
            Shape::I128 => Shape::U128,
            Shape::U128 => Shape::I128,
            Shape::Usize => Shape::Isize,
            Shape::Isize => Shape::Usize,
            Shape::F32 => Shape::F64,
            Shape::F64 => Shape::F32,
            Shape::Char => Shape::Str,
            Shape::Str => Shape::Bytes,
            Shape::Bytes => Shape::Str,
            Shape::Unit => Shape::Bool,
            _ => return None,
        })
    }
    // apply `f` to the k-th node (pre-order); returns the rebuilt tree
    fn map_nth(s: &Shape, k: &mut isize, f: &dyn Fn(&Shape) -> Option<Shape>) -> Shape {
        if *k == 0 {
            *k -= 1;
            if let Some(m) = f(s) {
                return m;
            }
            return s.clone();
        }
        *k -= 1;
        let l = |v: &[Shape], k: &mut isize| -> Vec<Shape> { v.iter().map(|x| map_nth(x, k, f)).collect() };
        let fl = |v: &[(Name, Shape)], k: &mut isize| -> Vec<(Name, Shape)> { v.iter().map(|(n, x)| (*n, map_nth(x, k, f))).collect() };
        match s {
            Shape::Option(a) => Shape::Option(Box::new(map_nth(a, k, f))),
            Shape::Seq(a) => Shape::Seq(Box::new(map_nth(a, k, f))),
            Shape::NewtypeStruct(n, a) => Shape::NewtypeStruct(n, Box::new(map_nth(a, k, f))),
            Shape::Map(a, b) => {
                let x = map_nth(a, k, f);
                let y = map_nth(b, k, f);
                Shape::Map(Box::new(x), Box::new(y))
            }
            Shape::Tuple(v) => Shape::Tuple(l(v, k)),
            Shape::TupleStruct(n, v) => Shape::TupleStruct(n, l(v, k)),
            Shape::Struct(n, v) => Shape::Struct(n, fl(v, k)),
            Shape::Enum(n, vs) => Shape::Enum(
                n,
                vs.iter()
                    .map(|v| VariantShape {
                        name: v.name,
                        data: match &v.data {
                            VData::Unit => VData::Unit,
                            VData::Newtype(a) => VData::Newtype(Box::new(map_nth(a, k, f))),
                            VData::Tuple(t) => VData::Tuple(l(t, k)),
                            VData::Struct(x) => VData::Struct(fl(x, k)),
                        },
                    })
                    .collect(),
            ),
            o => o.clone(),
        }
    }
    let n = count(s);
    let mut out = Vec::new();
    let picks: Vec<usize> = if n <= 24 { (0..n).collect() } else { (0..24).map(|_| rng.below(n as u64) as usize).collect() };
    for k in picks {
        let mut kk = k as isize;
        out.push(("leaf kind changed", map_nth(s, &mut kk, &leaf_swap)));
        let mut kk = k as isize;
        out.push((
            "field renamed",
            map_nth(s, &mut kk, &|x| match x {
                Shape::Struct(n, f) if !f.is_empty() => {
                    let mut f = f.clone();
                    f[0].0 = "renamed_field_q";
                    Some(Shape::Struct(n, f))
                }
                _ => None,
            }),
        ));
        let mut kk = k as isize;
        out.push((
            "variant renamed",
            map_nth(s, &mut kk, &|x| match x {
                Shape::Enum(n, vs) if !vs.is_empty() => {
                    let mut vs = vs.clone();
                    let last = vs.len() - 1;
                    vs[last].name = "RenamedVariantQ";
                    Some(Shape::Enum(n, vs))
                }
                _ => None,
            }),
        ));
        let mut kk = k as isize;
        out.push((
            "adjacent fields swapped",
            map_nth(s, &mut kk, &|x| match x {
                Shape::Struct(n, f) if f.len() >= 2 && f[0] != f[1] => {
                    let mut f = f.clone();
                    f.swap(0, 1);
                    Some(Shape::Struct(n, f))
                }
                Shape::Tuple(f) if f.len() >= 2 && f[0] != f[1] => {
                    let mut f = f.clone();
                    f.swap(0, 1);
                    Some(Shape::Tuple(f))
                }
                _ => None,
            }),
        ));
        let mut kk = k as isize;
        out.push((
            "adjacent variants swapped",
            map_nth(s, &mut kk, &|x| match x {
                Shape::Enum(n, vs) if vs.len() >= 2 && vs[0] != vs[1] => {
                    let mut vs = vs.clone();
                    vs.swap(0, 1);
                    Some(Shape::Enum(n, vs))
                }
                _ => None,
            }),
        ));
        let mut kk = k as isize;
        out.push((
            "wrapped in option",
            map_nth(s, &mut kk, &|x| Some(Shape::Option(Box::new(x.clone())))),
        ));
    }
    out.retain(|(_, m)| m != s);
    out
}

fn keys_of(path: &str, shape: &Shape) -> Result<([u8; 8], [u8; 8]), String> {
    let mut arena = Arena::new();
    let borrowed = arena.build(shape);
    let owned = shape_to_owned(shape);
    catch(|| {
        let kc = postcard_schema::key::hash::fnv1a64::verif_hash_schema_path(path, borrowed);
        let ko = Key::for_owned_schema_path(path, &owned).to_bytes();
        (kc, ko)
    })
}

fn c16_tree(t: &mut Tctx, shape: &Shape, path: &str) {
    t.st.eval();
    note_kinds(t, shape);
    let kr = reference_key(path, shape);
    let rp = |extra: Vec<(String, String)>| rp_tree("c16", shape, [vec![kv("path", path)], extra].concat());
    let (kc, ko) = match keys_of(path, shape) {
        Ok(k) => k,
        Err(p) => {
            t.st.violation("C16:panic", format!("key computation panicked: {}", p), rp(vec![]));
            return;
        }
    };
    t.st.nontrivial(fp_mix(fp(path.as_bytes()), u64::from_le_bytes(kr)));
    if kc != ko {
        t.st.violation("C16:hashers-disagree", format!("compile-time hasher gives {} but the run-time (owned) hasher gives {}", hex(&kc), hex(&ko)), rp(vec![]));
        return;
    }
    if kc != kr {
        t.st.violation(
            "C16:differs-from-documented-stream",
            format!("both hashers give {} but FNV-1a over path ++ documented tag stream is {}", hex(&kc), hex(&kr)),
            rp(vec![]),
        );
        return;
    }
    t.st.count("three_way_agreements");
    if t.st.want_sample() && shape.nodes() > 2 && shape.nodes() < 10 && path.len() < 30 {
        let mut j = J::obj();
        j.set("path", J::s(path)).set("schema", J::s(format!("{}", shape_to_owned(shape)))).set("key", J::s(hex(&kc)));
        let mut st = Vec::new();
        key_stream(shape, &mut st);
        j.set("documented_tag_stream", J::s(hex(&st)));
        t.st.sample(j);
    }
    // type names do not matter
    let rn = rename_types(shape);
    if rn != *shape {
        t.st.count("type_rename_checks");
        match keys_of(path, &rn) {
            Ok((a, b)) if a == kc && b == kc => {}
            _ => {
                t.st.violation("C16:type-name-affects-key", "renaming struct/enum type names changed the key".into(), rp(vec![]));
                return;
            }
        }
    }
    // sensitivity
    if t.rng.chance(1, 4) {
        let mut orig_stream = path.as_bytes().to_vec();
        key_stream(shape, &mut orig_stream);
        for (what, m) in mutations(&mut t.rng, shape) {
            let mut ms = path.as_bytes().to_vec();
            key_stream(&m, &mut ms);
            if ms == orig_stream {
                t.st.count("mutations_with_identical_stream_not_judged");
                continue;
            }
            t.st.count("sensitivity_mutations");
            t.st.eval();
            match keys_of(path, &m) {
                Ok((a, b)) => {
                    if a == kc || b == kc {
                        t.st.violation(
                            "C16:key-insensitive-to-change",
                            format!("mutation '{}' changes the documented stream but not the key ({})", what, hex(&kc)),
                            rp(vec![kv("mutation", what), kv("mutated", format!("{:?}", shape_to_owned(&m)))]),
                        );
                        return;
                    }
                    if a != b || a != reference_key(path, &m) {
                        t.st.violation("C16:hashers-disagree", format!("after mutation '{}' the hashers / reference disagree", what), rp(vec![kv("mutation", what), kv("mutated", format!("{:?}", shape_to_owned(&m)))]));
                        return;
                    }
                }
                Err(p) => {
                    t.st.violation("C16:panic", format!("key computation panicked: {}", p), rp(vec![]));
                    return;
                }
            }
        }
        // path mutations
        for (what, p2) in [("path byte appended", format!("{}x", path)), ("path byte changed", {
            let mut b = path.as_bytes().to_vec();
            if b.is_empty() || !b[0].is_ascii() {
                "y".to_string()
            } else {
                b[0] = if b[0] == b'q' { b'r' } else { b'q' };
                String::from_utf8(b).unwrap_or_else(|_| "y".into())
            }
        })] {
            if p2 == path {
                continue;
            }
            t.st.count("sensitivity_mutations");
            match keys_of(&p2, shape) {
                Ok((a, b)) if a != kc && b != kc && a == b => {}
                _ => {
                    t.st.violation("C16:key-insensitive-to-change", format!("'{}' did not change the key", what), rp(vec![kv("mutation", what)]));
                    return;
                }
            }
        }
    }
}

pub fn run_c16(cfg: &Cfg) -> Report {
    let mut rep = Report::new("C16");
    if cfg.tier == Tier::Tiny && cfg.knob_u64("lean", 0) == 1 {
        // lean interpreter workload (other byte orders): small trees x paths through the three-way key comparison
        let s = parallel(cfg, 1, |t| {
            let mut n = 0u64;
            let limit = t.cfg.knob_u64("lean_shapes", 300);
            let o = SchemaOpts { max_depth: 3, max_fan: 3, unique_names: false, allow_schema_kind: true };
            while !t.cfg.expired() && n < limit {
                n += 1;
                let depth = t.rng.range(0, 2) as u32;
                let shape = gen_schema_shape(&mut t.rng, depth, &o);
                let path = gen_path(&mut t.rng);
                if path.len() > 64 {
                    continue;
                }
                c16_tree(t, &shape, &path);
            }
            t.st.add("lean_trees", n);
        });
        rep.stats.merge(s);
        rep.rule = "lean interpreter workload: small schema trees x paths; const hasher, owned hasher and reference FNV-1a stream must coincide".into();
        return rep;
    }
    let s = parallel(cfg, 1, |t| {
        let n = t.cfg.scale(30, 25_000, 600_000);
        for _ in 0..n {
            if t.cfg.expired() {
                break;
            }
            let shape = gen_tree(t);
            let path = gen_path(&mut t.rng);
            c16_tree(t, &shape, &path);
        }
        let mut di = 0u64;
        for kind in 0..7 {
            for &depth in &DEEP_DEPTHS {
                di += 1;
                if t.mine(di) {
                    let (shape, _) = deep_case(kind, depth);
                    t.st.count("deep_trees");
                    c16_tree(t, &shape, "deep/path");
                    // sensitivity at the bottom of the tree: the innermost leaf differs
                    let (s2, _) = deep_case(kind, depth);
                    fn swap_leaf(s: &Shape) -> Shape {
                        match s {
                            Shape::U16 => Shape::U32,
                            Shape::Option(a) => Shape::Option(Box::new(swap_leaf(a))),
                            Shape::Seq(a) => Shape::Seq(Box::new(swap_leaf(a))),
                            Shape::NewtypeStruct(n, a) => Shape::NewtypeStruct(n, Box::new(swap_leaf(a))),
                            Shape::Map(k, v) => Shape::Map(k.clone(), Box::new(swap_leaf(v))),
                            Shape::Struct(n, f) => Shape::Struct(n, f.iter().map(|(fnm, x)| (*fnm, swap_leaf(x))).collect()),
                            Shape::Enum(n, vs) => Shape::Enum(
                                n,
                                vs.iter()
                                    .map(|v| VariantShape {
                                        name: v.name,
                                        data: match &v.data {
                                            VData::Newtype(a) => VData::Newtype(Box::new(swap_leaf(a))),
                                            o => o.clone(),
                                        },
                                    })
                                    .collect(),
                            ),
                            o => o.clone(),
                        }
                    }
                    let m = swap_leaf(&s2);
                    if let (Ok((a, b)), Ok((c, d))) = (keys_of("deep/path", &s2), keys_of("deep/path", &m)) {
                        t.st.count("sensitivity_mutations");
                        if a == c || b == d || c != d || c != reference_key("deep/path", &m) {
                            t.st.violation(
                                "C16:key-insensitive-to-change",
                                format!("changing the innermost leaf of a {}-deep tree does not change the key consistently (const {} -> {}, owned {} -> {})", depth, hex(&a), hex(&c), hex(&b), hex(&d)),
                                rp_tree("c16", &s2, vec![kv("path", "deep/path"), kv("mutation", "innermost leaf kind changed")]),
                            );
                        }
                    }
                }
            }
        }
        if t.tid == 0 {
            // corpus types: Key::for_path::<T> in a const item and at run time vs the owned hasher
            macro_rules! one {
                ($ty:ty) => {{
                    const K: Key = Key::for_path::<$ty>("corpus/path");
                    let rt = Key::for_path::<$ty>("corpus/path");
                    let owned: OwnedDataModelType = <$ty as Schema>::SCHEMA.into();
                    let ko = Key::for_owned_schema_path("corpus/path", &owned);
                    let kr = reference_key("corpus/path", &owned_to_shape(&owned));
                    t.st.eval();
                    t.st.count("corpus_keys");
                    if K.to_bytes() != rt.to_bytes() || K.to_bytes() != ko.to_bytes() || K.to_bytes() != kr {
                        t.st.violation(
                            "C16:corpus-key-differs",
                            format!("{}: const {} run-time {} owned {} reference {}", stringify!($ty), hex(&K.to_bytes()), hex(&rt.to_bytes()), hex(&ko.to_bytes()), hex(&kr)),
                            vec![kv("kind", "c16-corpus"), kv("type", stringify!($ty))],
                        );
                    }
                }};
            }
            for_each_schema_type!(one);
        }
    });
    rep.stats.merge(s);
    rep.rule = "cases = (path, schema tree): random trees as in C15 x paths (empty, ASCII, multi-byte, 1 KiB, random); key from the const hasher (hook, on the arena-built borrowed tree), key from the owned hasher \
                and FNV-1a over path ++ documented tag stream must coincide; type-name renaming must not change the key; every single-node mutation (leaf kind, field/variant rename, adjacent swap, wrap in option, path byte) \
                whose documented stream differs must change both keys. Corpus types additionally through Key::for_path::<T> (const item and run time). distinct = (path, reference key)."
        .into();
    rep.assumptions = vec![
        "tag table transcribed from the comment block in key/hash.rs".into(),
        "mutations whose documented stream is identical to the original's (the stream has no arity delimiters) are counted, not judged".into(),
        "64-bit FNV collisions between distinct streams are assumed not to occur in the sample (probability ~2^-64 per pair)".into(),
    ];
    rep.floor("three_way_agreements", 100);
    rep.floor("sensitivity_mutations", 100);
    rep.floor("type_rename_checks", 20);
    rep.floor("corpus_keys", 10);
    rep.floor("deep_trees", 7);
    for k in KINDS30 {
        rep.floor(k, 1);
    }
    rep
}

// ------------------------------------------------------------------ C19

fn all_nested(o: &OwnedDataModelType, set: &mut HashSet<OwnedDataModelType>) {
    set.insert(o.clone());
    let data = |d: &OwnedData, set: &mut HashSet<OwnedDataModelType>| match d {
        OwnedData::Unit => {}
        OwnedData::Newtype(a) => all_nested(a, set),
        OwnedData::Tuple(v) => v.iter().for_each(|x| all_nested(x, set)),
        OwnedData::Struct(f) => f.iter().for_each(|x| all_nested(&x.ty, set)),
    };
    match o {
        OwnedDataModelType::Option(a) | OwnedDataModelType::Seq(a) => all_nested(a, set),
        OwnedDataModelType::Tuple(v) => v.iter().for_each(|x| all_nested(x, set)),
        OwnedDataModelType::Map { key, val } => {
            all_nested(key, set);
            all_nested(val, set)
        }
        OwnedDataModelType::Struct { data: d, .. } => data(d, set),
        OwnedDataModelType::Enum { variants, .. } => variants.iter().for_each(|v| data(&v.data, set)),
        _ => {}
    }
}

fn c19_tree(t: &mut Tctx, owned: &OwnedDataModelType, origin: &str) {
    t.st.eval();
    t.st.nontrivial(fp(format!("{:?}", owned).as_bytes()));
    let rp = || vec![kv("kind", "c19"), kv("shape", owned_to_shape(owned).text()), kv("schema", format!("{:?}", owned)), kv("origin", origin)];
    let pc = match catch(|| owned.to_pseudocode()) {
        Ok(s) => s,
        Err(p) => {
            t.st.violation("C19:to_pseudocode-panic", format!("to_pseudocode panicked: {}", p), rp());
            return;
        }
    };
    match catch(|| format!("{}", owned)) {
        Ok(s) if s == pc => {}
        Ok(_) => {
            t.st.violation("C19:display-differs", "Display differs from to_pseudocode".into(), rp());
            return;
        }
        Err(p) => {
            t.st.violation("C19:display-panic", format!("Display panicked: {}", p), rp());
            return;
        }
    }
    // the primitive-or-not classifier used by renderers: total, and a struct / enum / seq / tuple is never primitive
    match catch(|| postcard_schema::schema::fmt::is_prim(owned)) {
        Ok(p) => {
            t.st.count("is_prim_checked");
            let compound = matches!(owned, OwnedDataModelType::Struct { .. } | OwnedDataModelType::Enum { .. } | OwnedDataModelType::Seq(_) | OwnedDataModelType::Tuple(_));
            if p && compound {
                t.st.violation("C19:is_prim-wrong", "is_prim reports a struct / enum / sequence / tuple as primitive".into(), rp());
                return;
            }
        }
        Err(p) => {
            t.st.violation("C19:is_prim-panic", format!("is_prim panicked: {}", p), rp());
            return;
        }
    }
    let used = match catch(|| owned.all_used_types()) {
        Ok(s) => s,
        Err(p) => {
            // classify by the node kind that is present (for known-findings bookkeeping)
            let mut want = HashSet::new();
            all_nested(owned, &mut want);
            let has = |k: &OwnedDataModelType| want.contains(k);
            let which = if has(&OwnedDataModelType::Schema) {
                "schema-kind"
            } else if has(&OwnedDataModelType::Usize) || has(&OwnedDataModelType::Isize) {
                "pointer-sized-kind"
            } else {
                "other"
            };
            t.st.violation(&format!("C19:all_used_types-panic:{}", which), format!("all_used_types panicked: {}", p), rp());
            return;
        }
    };
    let mut want = HashSet::new();
    all_nested(owned, &mut want);
    t.st.count("sets_compared");
    if used != want {
        let missing: Vec<_> = want.difference(&used).take(3).collect();
        let extra: Vec<_> = used.difference(&want).take(3).collect();
        t.st.violation(
            "C19:used-types-set-differs",
            format!("all_used_types has {} entries, independent traversal {}; missing {:?} extra {:?}", used.len(), want.len(), missing, extra),
            rp(),
        );
        return;
    }
    // rendering mentions the top-level names
    match owned {
        OwnedDataModelType::Struct { name, data } => {
            t.st.count("renderings_checked");
            let mut ok = pc.contains(&**name);
            if let OwnedData::Struct(f) = data {
                ok &= f.iter().all(|x| pc.contains(&*x.name));
            }
            if !ok {
                t.st.violation("C19:rendering-omits-name", format!("rendering {:?} does not mention the struct's name and field names", pc), rp());
            }
        }
        OwnedDataModelType::Enum { name, variants } => {
            t.st.count("renderings_checked");
            let mut ok = pc.contains(&**name) && variants.iter().all(|v| pc.contains(&*v.name));
            for v in variants.iter() {
                if let OwnedData::Struct(f) = &v.data {
                    ok &= f.iter().all(|x| pc.contains(&*x.name));
                }
            }
            if !ok {
                t.st.violation("C19:rendering-omits-name", format!("rendering {:?} does not mention the enum's name and variant names", pc), rp());
            }
        }
        _ => {}
    }
    if t.st.want_sample() && pc.len() > 20 && pc.len() < 200 {
        let mut j = J::obj();
        j.set("pseudocode", J::s(pc)).set("used_types", J::i(used.len() as u64));
        t.st.sample(j);
    }
}

pub fn run_c19(cfg: &Cfg) -> Report {
    let mut rep = Report::new("C19");
    let s = parallel(cfg, 1, |t| {
        let n = t.cfg.scale(50, 40_000, 1_000_000);
        for _ in 0..n {
            if t.cfg.expired() {
                break;
            }
            let shape = gen_tree(t);
            note_kinds(t, &shape);
            let owned = shape_to_owned(&shape);
            c19_tree(t, &owned, "random tree");
            // schemas as they arrive from a peer: through the wire
            if t.rng.chance(1, 8) {
                if let Ok(b) = postcard::to_allocvec(&owned) {
                    if let Ok(back) = postcard::from_bytes::<OwnedDataModelType>(&b) {
                        t.st.count("trees_received_over_the_wire");
                        c19_tree(t, &back, "received over the wire");
                    }
                }
            }
        }
        let mut di = 0u64;
        for kind in 0..7 {
            for &depth in &DEEP_DEPTHS {
                di += 1;
                if t.mine(di) {
                    let (shape, _) = deep_case(kind, depth);
                    t.st.count("deep_trees");
                    c19_tree(t, &shape_to_owned(&shape), "deep tree");
                }
            }
        }
        if t.cfg.tier != Tier::Tiny {
            for (what, shape) in extreme_trees() {
                di += 1;
                if t.mine(di) && shape.nodes() < 1000 {
                    // wide nodes are left to C15: the name-mention monitor is quadratic in the number of names
                    t.st.count("extreme_trees");
                    c19_tree(t, &shape_to_owned(&shape), what);
                }
            }
            di += 1;
            if t.mine(di) {
                // a rendering of more than 16 MiB: a 17 MiB field name, then two short ones
                let huge = pcv_core::model::intern(&"x".repeat(17 << 20));
                let s1 = Shape::Struct("Big", vec![(huge, Shape::U8), ("second_field", Shape::U16), ("third_field", Shape::Bool)]);
                let s2 = Shape::Enum("BigE", vec![VariantShape { name: huge, data: VData::Unit }, VariantShape { name: "SecondVariant", data: VData::Newtype(Box::new(Shape::U8)) }, VariantShape { name: "ThirdVariant", data: VData::Struct(vec![("inner_a", Shape::U8)]) }]);
                for s in [s1, s2] {
                    t.st.count("extreme_trees");
                    c19_tree(t, &shape_to_owned(&s), "rendering beyond 16 MiB");
                }
            }
        }
        if t.tid == 0 {
            macro_rules! one {
                ($ty:ty) => {{
                    let owned: OwnedDataModelType = <$ty as Schema>::SCHEMA.into();
                    t.st.count("corpus_schemas");
                    c19_tree(t, &owned, stringify!($ty));
                }};
            }
            for_each_schema_type!(one);
        }
    });
    rep.stats.merge(s);
    rep.rule = "cases = owned schema tree: random trees over every node kind incl. Usize, Isize and the schema-of-schema kind (as in C15), trees that went through the wire, and the corpus types' schemas; \
                to_pseudocode / Display / all_used_types under catch_unwind; the collected set is compared with an independent traversal; top-level struct/enum renderings must contain the names. distinct = fingerprint of the tree."
        .into();
    rep.assumptions = vec!["termination is by construction (finite trees); the watchdog only yields inconclusive".into()];
    rep.floor("sets_compared", 100);
    rep.floor("renderings_checked", 50);
    rep.floor("node_usize", 1);
    rep.floor("node_isize", 1);
    rep.floor("node_schema", 1);
    rep.floor("deep_trees", 7);
    rep
}

// ------------------------------------------------------------------ replay of one recorded tree

pub fn replay(cfg: &Cfg, prop: &str) -> Report {
    let mut rep = Report::new(prop);
    let p = cfg.replay.clone().unwrap();
    let m = read_replay(&p).unwrap_or_default();
    let prop_s = prop.to_string();
    let s = parallel(&Cfg { threads: 1, ..cfg.clone() }, 9, |t| {
        let shape = match m.get("shape").map(|s| Shape::parse(s)) {
            Some(Ok(s)) => s,
            other => {
                t.st.inconclusive(format!("replay file has no parsable shape ({:?}); corpus-type cases are reproduced by re-running the check", other.map(|r| r.err())));
                return;
            }
        };
        match prop_s.as_str() {
            "C15" => c15_tree(t, &shape, "replay"),
            "C16" => {
                let path = m.get("path").cloned().unwrap_or_default();
                c16_tree(t, &shape, &path);
                // sensitivity is sampled with probability 1/4 in c16_tree: repeat to make the replay deterministic enough
                for _ in 0..16 {
                    c16_tree(t, &shape, &path);
                }
            }
            _ => c19_tree(t, &shape_to_owned(&shape), "replay"),
        }
    });
    rep.stats.merge(s);
    rep.rule = "replay of one recorded schema tree".into();
    if rep.stats.violations.is_empty() && rep.stats.inconclusive.is_empty() {
        // the recorded tree alone is clean: the violation may depend on what the same thread converted, hashed or
        // rendered before (caches, state kept across calls); re-run the quick workload that produced it
        let c = Cfg { replay: None, tier: Tier::Quick, ..cfg.clone() };
        let mut r = match prop {
            "C15" => run_c15(&c),
            "C16" => run_c16(&c),
            _ => run_c19(&c),
        };
        r.floors.clear();
        r.rule = "replay: the recorded tree alone no longer violates; the quick workload was re-run to cover history-dependent behaviour".into();
        return r;
    }
    rep
}
