//! Concrete types with both `Serialize` and `Schema` (built-in impls and the in-tree derive).

use pcv_core::corpus::HasShape;
use pcv_core::corpus_types;
use pcv_core::model::*;
use postcard_schema::Schema;
use serde::{Deserialize, Serialize};
use std::collections::{BTreeMap, BTreeSet, HashMap, HashSet};

corpus_types! {
    #[derives(Serialize, Deserialize, Debug, Clone, PartialEq, Schema)]
    struct SUnit;

    #[derives(Serialize, Deserialize, Debug, Clone, PartialEq, Schema)]
    struct SNew(u32);

    #[derives(Serialize, Deserialize, Debug, Clone, PartialEq, Schema)]
    struct STup(u8, i64, String);

    #[derives(Serialize, Deserialize, Debug, Clone, PartialEq, Schema)]
    struct SUnsorted { zz: u8, aa: u16, mm: String, bb: Option<u8> }

    #[derives(Serialize, Deserialize, Debug, Clone, PartialEq, Schema)]
    struct SEmptyTup();

    #[derives(Serialize, Deserialize, Debug, Clone, PartialEq, Schema)]
    struct SNamed { a: bool, b: u8, c: i8, d: u16, e: i16, f: u32, g: i32, h: u64, i: i64, j: u128, k: i128, l: f32, m: f64, n: char, o: String, p: () }

    #[derives(Serialize, Deserialize, Debug, Clone, PartialEq, Schema)]
    struct SEmptyNamed {}

    #[derives(Serialize, Deserialize, Debug, Clone, PartialEq, Schema)]
    enum SBasic { A, B, C }

    #[derives(Serialize, Deserialize, Debug, Clone, PartialEq, Schema)]
    enum SData { Unit, New(u16), Tup(u8, i32), Rec { a: u64, b: Option<bool> }, Zero(), ZeroRec {}, Nested(SBasic), Str(String), Seq(Vec<SNew>), One { only: u32 }, Unsorted { zeta: u8, alpha: u16, mid: bool } }

    #[derives(Serialize, Deserialize, Debug, Clone, PartialEq, Schema)]
    struct SNested { p: SNamed, d: SData, v: Vec<SData>, o: Option<SNew>, t: (u8, (u16, u32), [i16; 3]), u: SUnit, r: Result<SBasic, STup> }

    #[derives(Serialize, Deserialize, Debug, Clone, PartialEq, Schema)]
    struct SColls { m: BTreeMap<u16, String>, h: HashMap<String, u8>, s: BTreeSet<i32>, hs: HashSet<u8>, v: Vec<Vec<u8>>, z: Vec<()> }

    #[derives(Serialize, Deserialize, Debug, Clone, PartialEq, Schema)]
    struct SStd { r: std::ops::Range<u32>, ri: std::ops::RangeInclusive<i8>, rf: std::ops::RangeFrom<u16>, rt: std::ops::RangeTo<i64>, nz: std::num::NonZeroU32, nzi: std::num::NonZeroI16, pb: std::path::PathBuf }

    #[derives(Serialize, Deserialize, Debug, Clone, PartialEq, Schema)]
    struct SHeap7 { v: heapless_v0_7::Vec<u16, 8>, s: heapless_v0_7::String<12> }

    #[derives(Serialize, Deserialize, Debug, Clone, PartialEq, Schema)]
    struct SOpts { a: Option<Option<u8>>, b: Option<()>, c: Option<Vec<Option<bool>>>, d: Result<Option<u8>, ()> }

    #[derives(Serialize, Deserialize, Debug, Clone, PartialEq, Schema)]
    struct SArrays { a0: [u8; 0], a1: [u16; 1], a4: [i32; 4], t6: (u8, i8, u16, i16, u32, i32) }
}

/// explicit discriminants that are not in declaration order (serde numbers variants by position)
#[derive(Serialize, Deserialize, Debug, Clone, PartialEq, Schema)]
pub enum SLevel {
    High = 2,
    Low = 1,
    Off = 0,
    Mid = 7,
}
impl HasShape for SLevel {
    fn shape() -> Shape {
        Shape::Enum(
            "SLevel",
            ["High", "Low", "Off", "Mid"].iter().map(|n| VariantShape { name: n, data: VData::Unit }).collect(),
        )
    }
}
/// raw-identifier field names
#[derive(Serialize, Deserialize, Debug, Clone, PartialEq, Schema)]
pub struct SRaw {
    pub r#type: u8,
    pub r#match: Option<u16>,
    pub plain: String,
}
impl HasShape for SRaw {
    fn shape() -> Shape {
        Shape::Struct("SRaw", vec![("type", Shape::U8), ("match", Shape::Option(Box::new(Shape::U16))), ("plain", Shape::Str)])
    }
}

#[derive(Serialize, Deserialize, Debug, Clone, PartialEq, Schema)]
pub struct SGen<T> {
    pub a: T,
    pub b: Vec<T>,
    pub c: Option<T>,
}
impl<T: HasShape> HasShape for SGen<T> {
    fn shape() -> Shape {
        Shape::Struct("SGen", vec![("a", T::shape()), ("b", Shape::Seq(Box::new(T::shape()))), ("c", Shape::Option(Box::new(T::shape())))])
    }
    const REFINED: bool = T::REFINED;
    const UNORDERED: bool = T::UNORDERED;
}

/// lifetime-carrying derived type (serialise-only in the checks)
#[derive(Serialize, Debug, Clone, PartialEq, Schema)]
pub struct SLife<'a> {
    pub s: &'a str,
    pub b: &'a [u8],
    pub n: &'a u32,
    pub o: Option<&'a str>,
}

/// attribute "noise" next to the Schema derive: representation hints, lints and docs are not serde attributes and
/// must not change the schema
#[derive(Serialize, Deserialize, Debug, Clone, PartialEq, Schema)]
#[repr(transparent)]
pub struct SReprT(pub u32);
impl HasShape for SReprT {
    fn shape() -> Shape {
        Shape::NewtypeStruct("SReprT", Box::new(Shape::U32))
    }
}
/// A handle.
#[derive(Serialize, Deserialize, Debug, Clone, PartialEq, Schema)]
#[repr(transparent)]
#[must_use]
pub struct SReprField {
    /// the raw value
    pub raw: u64,
}
impl HasShape for SReprField {
    fn shape() -> Shape {
        Shape::Struct("SReprField", vec![("raw", Shape::U64)])
    }
}
#[derive(Serialize, Deserialize, Debug, Clone, PartialEq, Schema)]
#[repr(u8)]
#[non_exhaustive]
pub enum SReprE {
    A = 7,
    B(u16) = 3,
    #[allow(dead_code)]
    C { x: u8 } = 200,
}
impl HasShape for SReprE {
    fn shape() -> Shape {
        Shape::Enum(
            "SReprE",
            vec![
                VariantShape { name: "A", data: VData::Unit },
                VariantShape { name: "B", data: VData::Newtype(Box::new(Shape::U16)) },
                VariantShape { name: "C", data: VData::Struct(vec![("x", Shape::U8)]) },
            ],
        )
    }
}

/// Types that have Serialize + Deserialize + HasShape + Schema.
#[macro_export]
macro_rules! for_each_shaped_schema_type {
    ($m:ident) => {
        $m!(bool); $m!(u8); $m!(i8); $m!(u16); $m!(i16); $m!(u32); $m!(i32); $m!(u64); $m!(i64); $m!(u128); $m!(i128);
        $m!(f32); $m!(f64); $m!(char); $m!(String); $m!(()); $m!(std::path::PathBuf);
        $m!(std::num::NonZeroU8); $m!(std::num::NonZeroI8); $m!(std::num::NonZeroU16); $m!(std::num::NonZeroI16); $m!(std::num::NonZeroU32); $m!(std::num::NonZeroI32);
        $m!(std::num::NonZeroU64); $m!(std::num::NonZeroI64); $m!(std::num::NonZeroU128); $m!(std::num::NonZeroI128);
        $m!((u8,)); $m!((u8, i16)); $m!((u8, i16, String)); $m!((u8, i16, String, f32)); $m!((u8, i16, String, f32, char)); $m!((u8, i16, String, f32, char, u128));
        $m!([u8; 0]); $m!([u8; 1]); $m!([u32; 4]); $m!([String; 2]);
        $m!(Vec<u8>); $m!(Vec<String>); $m!(Vec<()>); $m!(Vec<Vec<u16>>); $m!(std::collections::BTreeSet<u16>); $m!(std::collections::HashSet<i8>);
        $m!(std::collections::BTreeMap<u8, String>); $m!(std::collections::HashMap<String, u16>);
        $m!(Option<u8>); $m!(Option<Option<u16>>); $m!(Option<String>); $m!(Result<u16, String>); $m!(Result<(), ()>);
        $m!(std::ops::Range<u16>); $m!(std::ops::RangeInclusive<i32>); $m!(std::ops::RangeFrom<u8>); $m!(std::ops::RangeTo<u64>);
        $m!(heapless_v0_7::Vec<u8, 4>); $m!(heapless_v0_7::String<8>);
        $m!($crate::corpus::SUnit); $m!($crate::corpus::SNew); $m!($crate::corpus::STup); $m!($crate::corpus::SEmptyTup); $m!($crate::corpus::SNamed);
        $m!($crate::corpus::SEmptyNamed); $m!($crate::corpus::SUnsorted); $m!($crate::corpus::SBasic); $m!($crate::corpus::SData); $m!($crate::corpus::SNested); $m!($crate::corpus::SColls);
        $m!($crate::corpus::SStd); $m!($crate::corpus::SHeap7); $m!($crate::corpus::SOpts); $m!($crate::corpus::SArrays);
        $m!($crate::corpus::SGen<u16>); $m!($crate::corpus::SGen<$crate::corpus::SData>); $m!($crate::corpus::SLevel); $m!($crate::corpus::SRaw);
        $m!(Vec<$crate::corpus::SLevel>); $m!(Vec<$crate::corpus::SUnit>); $m!(Vec<[u8; 0]>);
        $m!($crate::corpus::SReprT); $m!($crate::corpus::SReprField); $m!($crate::corpus::SReprE);
    };
}

/// Every type with a Schema in the corpus (incl. those without HasShape).
#[macro_export]
macro_rules! for_each_schema_type_impl {
    ($m:ident) => {
        $crate::for_each_shaped_schema_type!($m);
        $m!(str); $m!([u8]); $m!(&'static str); $m!(&'static [u16]);
        $m!(uuid::Uuid); $m!(chrono::DateTime<chrono::Utc>); $m!(chrono::DateTime<chrono::FixedOffset>);
        $m!(nalgebra::SMatrix<u8, 3, 3>); $m!(nalgebra::SMatrix<f32, 2, 4>); $m!(nalgebra::SMatrix<i16, 1, 1>);
        $m!(heapless_v0_8::Vec<u16, 4>); $m!(heapless_v0_8::String<8>);
        $m!(postcard_schema::key::Key);
        $m!(postcard_schema::schema::DataModelType); $m!(postcard_schema::schema::owned::OwnedDataModelType);
        $m!($crate::corpus::SLife<'static>);
    };
}
pub use for_each_schema_type_impl as for_each_schema_type;
