//! Conversions between the harness's `Shape` and postcard-schema's owned / borrowed
//! schema trees, an arena for building `&'static`-typed borrowed trees that can be freed,
//! the reference tag stream for keys (transcribed from the documentation comment of
//! key/hash.rs), and the hand-written walker for the schema-of-schema wire format.

use pcv_core::model::*;
use postcard_schema::schema::owned::{OwnedData, OwnedDataModelType, OwnedNamedField, OwnedVariant};
use postcard_schema::schema::{Data, DataModelType, NamedField, Variant};

/// Marker shape standing for the `Schema` node kind.
pub const SCHEMA_MARKER: &str = "__SCHEMA_OF_SCHEMA__";
pub fn schema_marker() -> Shape {
    Shape::UnitStruct(SCHEMA_MARKER)
}

/// Independent conversion Shape -> expected owned schema.
pub fn shape_to_owned(s: &Shape) -> OwnedDataModelType {
    use OwnedDataModelType as O;
    fn list(v: &[Shape]) -> Box<[OwnedDataModelType]> {
        v.iter().map(shape_to_owned).collect()
    }
    fn fields(v: &[(Name, Shape)]) -> Box<[OwnedNamedField]> {
        v.iter().map(|(n, s)| OwnedNamedField { name: (*n).into(), ty: shape_to_owned(s) }).collect()
    }
    match s {
        Shape::Bool => O::Bool,
        Shape::I8 => O::I8,
        Shape::I16 => O::I16,
        Shape::I32 => O::I32,
        Shape::I64 => O::I64,
        Shape::I128 => O::I128,
        Shape::U8 => O::U8,
        Shape::U16 => O::U16,
        Shape::U32 => O::U32,
        Shape::U64 => O::U64,
        Shape::U128 => O::U128,
        Shape::Usize => O::Usize,
        Shape::Isize => O::Isize,
        Shape::F32 => O::F32,
        Shape::F64 => O::F64,
        Shape::Char => O::Char,
        Shape::Str => O::String,
        Shape::Bytes => O::ByteArray,
        Shape::Option(a) => O::Option(Box::new(shape_to_owned(a))),
        Shape::Unit => O::Unit,
        Shape::UnitStruct(n) if *n == SCHEMA_MARKER => O::Schema,
        Shape::UnitStruct(n) => O::Struct { name: (*n).into(), data: OwnedData::Unit },
        Shape::NewtypeStruct(n, a) => O::Struct { name: (*n).into(), data: OwnedData::Newtype(Box::new(shape_to_owned(a))) },
        Shape::Seq(a) => O::Seq(Box::new(shape_to_owned(a))),
        Shape::Tuple(v) => O::Tuple(list(v)),
        Shape::TupleStruct(n, v) => O::Struct { name: (*n).into(), data: OwnedData::Tuple(list(v)) },
        Shape::Map(k, v) => O::Map { key: Box::new(shape_to_owned(k)), val: Box::new(shape_to_owned(v)) },
        Shape::Struct(n, f) => O::Struct { name: (*n).into(), data: OwnedData::Struct(fields(f)) },
        Shape::Enum(n, vs) => O::Enum {
            name: (*n).into(),
            variants: vs
                .iter()
                .map(|v| OwnedVariant {
                    name: v.name.into(),
                    data: match &v.data {
                        VData::Unit => OwnedData::Unit,
                        VData::Newtype(a) => OwnedData::Newtype(Box::new(shape_to_owned(a))),
                        VData::Tuple(t) => OwnedData::Tuple(list(t)),
                        VData::Struct(f) => OwnedData::Struct(fields(f)),
                    },
                })
                .collect(),
        },
    }
}

/// Owned schema -> Shape (for the schema-directed wire walker and value generation).
/// `Schema` nodes become the marker shape.  Note: a 1-element `Data::Tuple` stays a tuple.
pub fn owned_to_shape(o: &OwnedDataModelType) -> Shape {
    use OwnedDataModelType as O;
    fn n(s: &str) -> Name {
        intern(s)
    }
    fn list(v: &[OwnedDataModelType]) -> Vec<Shape> {
        v.iter().map(owned_to_shape).collect()
    }
    fn fields(v: &[OwnedNamedField]) -> Vec<(Name, Shape)> {
        v.iter().map(|f| (n(&f.name), owned_to_shape(&f.ty))).collect()
    }
    match o {
        O::Bool => Shape::Bool,
        O::I8 => Shape::I8,
        O::U8 => Shape::U8,
        O::I16 => Shape::I16,
        O::I32 => Shape::I32,
        O::I64 => Shape::I64,
        O::I128 => Shape::I128,
        O::U16 => Shape::U16,
        O::U32 => Shape::U32,
        O::U64 => Shape::U64,
        O::U128 => Shape::U128,
        O::Usize => Shape::Usize,
        O::Isize => Shape::Isize,
        O::F32 => Shape::F32,
        O::F64 => Shape::F64,
        O::Char => Shape::Char,
        O::String => Shape::Str,
        O::ByteArray => Shape::Bytes,
        O::Option(a) => Shape::Option(Box::new(owned_to_shape(a))),
        O::Unit => Shape::Unit,
        O::Seq(a) => Shape::Seq(Box::new(owned_to_shape(a))),
        O::Tuple(v) => Shape::Tuple(list(v)),
        O::Map { key, val } => Shape::Map(Box::new(owned_to_shape(key)), Box::new(owned_to_shape(val))),
        O::Struct { name, data } => match data {
            OwnedData::Unit => Shape::UnitStruct(n(name)),
            OwnedData::Newtype(a) => Shape::NewtypeStruct(n(name), Box::new(owned_to_shape(a))),
            OwnedData::Tuple(v) => Shape::TupleStruct(n(name), list(v)),
            OwnedData::Struct(f) => Shape::Struct(n(name), fields(f)),
        },
        O::Enum { name, variants } => Shape::Enum(
            n(name),
            variants
                .iter()
                .map(|v| VariantShape {
                    name: n(&v.name),
                    data: match &v.data {
                        OwnedData::Unit => VData::Unit,
                        OwnedData::Newtype(a) => VData::Newtype(Box::new(owned_to_shape(a))),
                        OwnedData::Tuple(t) => VData::Tuple(list(t)),
                        OwnedData::Struct(f) => VData::Struct(fields(f)),
                    },
                })
                .collect(),
        ),
        O::Schema => schema_marker(),
    }
}

// ------------------------------------------------------------------ arena-built borrowed trees

/// Owns every node of a borrowed (`&'static`-typed) schema tree so that it can be freed.
/// SAFETY contract: the `&'static` references handed out are only valid while the arena
/// lives; the harness never lets them escape the scope of the arena.
#[derive(Default)]
pub struct Arena {
    // nodes are kept as raw pointers obtained from `Box::into_raw` (moving a `Box` would invalidate the
    // references handed out under the aliasing model the interpreter checks); `Drop` turns them back into boxes
    dmt: Vec<*mut DataModelType>,
    dmt_slices: Vec<*mut [&'static DataModelType]>,
    nf: Vec<*mut NamedField>,
    nf_slices: Vec<*mut [&'static NamedField]>,
    var: Vec<*mut Variant>,
    var_slices: Vec<*mut [&'static Variant]>,
}

impl Drop for Arena {
    fn drop(&mut self) {
        unsafe {
            for p in self.var_slices.drain(..) {
                drop(Box::from_raw(p));
            }
            for p in self.var.drain(..) {
                drop(Box::from_raw(p));
            }
            for p in self.nf_slices.drain(..) {
                drop(Box::from_raw(p));
            }
            for p in self.nf.drain(..) {
                drop(Box::from_raw(p));
            }
            for p in self.dmt_slices.drain(..) {
                drop(Box::from_raw(p));
            }
            for p in self.dmt.drain(..) {
                drop(Box::from_raw(p));
            }
        }
    }
}

impl Arena {
    pub fn new() -> Arena {
        Arena::default()
    }
    fn put(&mut self, d: DataModelType) -> &'static DataModelType {
        let p = Box::into_raw(Box::new(d));
        self.dmt.push(p);
        unsafe { &*p }
    }
    fn put_list(&mut self, v: Vec<&'static DataModelType>) -> &'static [&'static DataModelType] {
        let p: *mut [&'static DataModelType] = Box::into_raw(v.into_boxed_slice());
        self.dmt_slices.push(p);
        unsafe { &*p }
    }
    fn put_fields(&mut self, f: &[(Name, Shape)]) -> &'static [&'static NamedField] {
        let mut v: Vec<&'static NamedField> = Vec::new();
        for (n, s) in f {
            let ty = self.build(s);
            let p = Box::into_raw(Box::new(NamedField { name: n, ty }));
            self.nf.push(p);
            v.push(unsafe { &*p });
        }
        let p: *mut [&'static NamedField] = Box::into_raw(v.into_boxed_slice());
        self.nf_slices.push(p);
        unsafe { &*p }
    }
    fn list(&mut self, v: &[Shape]) -> &'static [&'static DataModelType] {
        let items: Vec<&'static DataModelType> = v.iter().map(|s| self.build(s)).collect();
        self.put_list(items)
    }
    /// Build the borrowed tree of `s`.
    pub fn build(&mut self, s: &Shape) -> &'static DataModelType {
        use DataModelType as D;
        let d = match s {
            Shape::Bool => D::Bool,
            Shape::I8 => D::I8,
            Shape::I16 => D::I16,
            Shape::I32 => D::I32,
            Shape::I64 => D::I64,
            Shape::I128 => D::I128,
            Shape::U8 => D::U8,
            Shape::U16 => D::U16,
            Shape::U32 => D::U32,
            Shape::U64 => D::U64,
            Shape::U128 => D::U128,
            Shape::Usize => D::Usize,
            Shape::Isize => D::Isize,
            Shape::F32 => D::F32,
            Shape::F64 => D::F64,
            Shape::Char => D::Char,
            Shape::Str => D::String,
            Shape::Bytes => D::ByteArray,
            Shape::Option(a) => D::Option(self.build(a)),
            Shape::Unit => D::Unit,
            Shape::UnitStruct(n) if *n == SCHEMA_MARKER => D::Schema,
            Shape::UnitStruct(n) => D::Struct { name: n, data: Data::Unit },
            Shape::NewtypeStruct(n, a) => D::Struct { name: n, data: Data::Newtype(self.build(a)) },
            Shape::Seq(a) => D::Seq(self.build(a)),
            Shape::Tuple(v) => D::Tuple(self.list(v)),
            Shape::TupleStruct(n, v) => D::Struct { name: n, data: Data::Tuple(self.list(v)) },
            Shape::Map(k, v) => D::Map { key: self.build(k), val: self.build(v) },
            Shape::Struct(n, f) => D::Struct { name: n, data: Data::Struct(self.put_fields(f)) },
            Shape::Enum(n, vs) => {
                let mut out: Vec<&'static Variant> = Vec::new();
                for v in vs {
                    let data = match &v.data {
                        VData::Unit => Data::Unit,
                        VData::Newtype(a) => Data::Newtype(self.build(a)),
                        VData::Tuple(t) => Data::Tuple(self.list(t)),
                        VData::Struct(f) => Data::Struct(self.put_fields(f)),
                    };
                    let p = Box::into_raw(Box::new(Variant { name: v.name, data }));
                    self.var.push(p);
                    out.push(unsafe { &*p });
                }
                let p: *mut [&'static Variant] = Box::into_raw(out.into_boxed_slice());
                self.var_slices.push(p);
                D::Enum { name: n, variants: unsafe { &*p } }
            }
        };
        self.put(d)
    }
}

// ------------------------------------------------------------------ random schema shapes

use pcv_core::rng::Rng;

pub fn name_pool() -> &'static [&'static str] {
    &[
        "", "a", "b", "x", "y", "id", "name", "value", "Foo", "Bar", "Baz", "Point", "Outer", "Inner", "Result<T, E>", "Range<T>", "käse", "名前", "🦀", "with space",
        "a_very_long_identifier_name_that_goes_on_and_on_0123456789", "r#type", "r#", "type", "abc", "A", "B", "C", "Alpha", "Beta", "Gamma", "Delta", "f0", "f1", "f2", "zeta", "eta", "Ok", "Err", "Key", "\u{0}",
        // names that differ only in case, path-like names, raw-identifier spellings, names with syntax characters
        "Kb", "KB", "kb", "Mb", "MB", "TYPE", "Type", "r#Move", "r#match", "r#a", "proto::v2::Header", "Header::", "::x", "a::b", "core::option::Option<T>", "\u{FEFF}bom", "<T>", "Vec<u8>",
        "line\nbreak", "\"quoted\"", "{", "}", "a.b", "a/b", "#", "0", "-1", "null", "true",
    ]
}

#[derive(Clone, Copy)]
pub struct SchemaOpts {
    pub max_depth: u32,
    pub max_fan: usize,
    pub unique_names: bool,
    pub allow_schema_kind: bool,
}

fn pick_name(rng: &mut Rng) -> Name {
    let p = name_pool();
    p[rng.below(p.len() as u64) as usize]
}

fn names(rng: &mut Rng, n: usize, unique: bool) -> Vec<Name> {
    let mut out: Vec<Name> = Vec::new();
    let mut guard = 0;
    while out.len() < n {
        let c = pick_name(rng);
        guard += 1;
        if unique && out.contains(&c) && guard < 200 {
            continue;
        }
        out.push(c);
    }
    out
}

/// Wide tuples (7..40 elements - wider than any built-in tuple impl, like a flattened array or matrix) whose
/// elements are of one kind but not identical, with equal first and last elements: anything that treats
/// "long and uniform-looking" as "an array of the first element" shows here.
fn wide_elements(rng: &mut Rng, d: u32, o: &SchemaOpts) -> Vec<Shape> {
    let n = *rng.pick(&[7usize, 8, 9, 12, 16, 17, 18, 24, 33, 40]);
    let d = d.min(1);
    let first = gen_schema_shape(rng, d, o);
    let style = rng.below(3);
    (0..n)
        .map(|i| {
            if i == 0 || i + 1 == n || style == 0 {
                return first.clone();
            }
            if style == 2 && rng.chance(1, 3) {
                return gen_schema_shape(rng, d, o);
            }
            // same outer kind, different inside
            match &first {
                Shape::Option(_) => Shape::Option(Box::new(gen_schema_shape(rng, d, o))),
                Shape::Seq(_) => Shape::Seq(Box::new(gen_schema_shape(rng, d, o))),
                Shape::Map(..) => Shape::Map(Box::new(gen_schema_shape(rng, d, o)), Box::new(gen_schema_shape(rng, d, o))),
                Shape::Tuple(_) => Shape::Tuple((0..rng.range(0, 3)).map(|_| gen_schema_shape(rng, 0, o)).collect()),
                Shape::UnitStruct(x) if *x != SCHEMA_MARKER => Shape::UnitStruct(pick_name(rng)),
                Shape::NewtypeStruct(..) => Shape::NewtypeStruct(pick_name(rng), Box::new(gen_schema_shape(rng, d, o))),
                Shape::TupleStruct(..) => Shape::TupleStruct(pick_name(rng), (0..rng.range(0, 3)).map(|_| gen_schema_shape(rng, 0, o)).collect()),
                Shape::Struct(_, fs) => Shape::Struct(pick_name(rng), fs.iter().map(|(_, _)| (pick_name(rng), gen_schema_shape(rng, 0, o))).collect()),
                Shape::Enum(_, vs) => Shape::Enum(pick_name(rng), vs.iter().map(|v| VariantShape { name: pick_name(rng), data: v.data.clone() }).collect()),
                _ => gen_schema_shape(rng, 0, o),
            }
        })
        .collect()
}

/// Random schema tree over all 26 node kinds and 4 data kinds (as a Shape with the Schema marker).
pub fn gen_schema_shape(rng: &mut Rng, depth: u32, o: &SchemaOpts) -> Shape {
    if depth == 0 || rng.chance(1, 4) {
        return match rng.below(21) {
            0 => Shape::Bool,
            1 => Shape::I8,
            2 => Shape::U8,
            3 => Shape::I16,
            4 => Shape::I32,
            5 => Shape::I64,
            6 => Shape::I128,
            7 => Shape::U16,
            8 => Shape::U32,
            9 => Shape::U64,
            10 => Shape::U128,
            11 => Shape::Usize,
            12 => Shape::Isize,
            13 => Shape::F32,
            14 => Shape::F64,
            15 => Shape::Char,
            16 => Shape::Str,
            17 => Shape::Bytes,
            18 => Shape::Unit,
            19 => Shape::UnitStruct(pick_name(rng)),
            _ => {
                if o.allow_schema_kind {
                    schema_marker()
                } else {
                    Shape::U8
                }
            }
        };
    }
    let d = depth - 1;
    let fan = |rng: &mut Rng| rng.range(0, o.max_fan);
    match rng.below(12) {
        0 => Shape::Option(Box::new(gen_schema_shape(rng, d, o))),
        1 => Shape::Seq(Box::new(gen_schema_shape(rng, d, o))),
        2 => {
            if rng.chance(1, 6) {
                Shape::Tuple(wide_elements(rng, d, o))
            } else {
                let n = fan(rng);
                Shape::Tuple((0..n).map(|_| gen_schema_shape(rng, d, o)).collect())
            }
        }
        3 => Shape::Map(Box::new(gen_schema_shape(rng, d, o)), Box::new(gen_schema_shape(rng, d, o))),
        4 => Shape::UnitStruct(pick_name(rng)),
        5 => Shape::NewtypeStruct(pick_name(rng), Box::new(gen_schema_shape(rng, d, o))),
        6 => {
            if rng.chance(1, 8) {
                Shape::TupleStruct(pick_name(rng), wide_elements(rng, d, o))
            } else {
                let n = fan(rng);
                Shape::TupleStruct(pick_name(rng), (0..n).map(|_| gen_schema_shape(rng, d, o)).collect())
            }
        }
        7 | 8 => {
            let n = fan(rng);
            let ns = names(rng, n, o.unique_names);
            Shape::Struct(pick_name(rng), ns.into_iter().map(|f| (f, gen_schema_shape(rng, d, o))).collect())
        }
        _ => {
            let n = rng.range(if o.unique_names { 1 } else { 0 }, o.max_fan);
            let ns = names(rng, n, o.unique_names);
            Shape::Enum(
                pick_name(rng),
                ns.into_iter()
                    .map(|vn| VariantShape {
                        name: vn,
                        data: match rng.below(4) {
                            0 => VData::Unit,
                            1 => VData::Newtype(Box::new(gen_schema_shape(rng, d, o))),
                            2 => {
                                let k = rng.range(0, o.max_fan);
                                VData::Tuple((0..k).map(|_| gen_schema_shape(rng, d, o)).collect())
                            }
                            _ => {
                                let k = rng.range(0, o.max_fan);
                                let fs = names(rng, k, o.unique_names);
                                VData::Struct(fs.into_iter().map(|f| (f, gen_schema_shape(rng, d, o))).collect())
                            }
                        },
                    })
                    .collect(),
            )
        }
    }
}

/// Kind labels present in a schema shape (30 = 26 node kinds + 4 data kinds) for coverage floors.
pub fn kind_labels(s: &Shape, out: &mut std::collections::BTreeSet<&'static str>) {
    s.walk(&mut |n| {
        let l: &'static str = match n {
            Shape::UnitStruct(x) if *x == SCHEMA_MARKER => "node_schema",
            Shape::UnitStruct(_) => "data_unit",
            Shape::NewtypeStruct(..) => "data_newtype",
            Shape::TupleStruct(..) => "data_tuple",
            Shape::Struct(..) => "data_struct",
            Shape::Bool => "node_bool",
            Shape::I8 => "node_i8",
            Shape::U8 => "node_u8",
            Shape::I16 => "node_i16",
            Shape::I32 => "node_i32",
            Shape::I64 => "node_i64",
            Shape::I128 => "node_i128",
            Shape::U16 => "node_u16",
            Shape::U32 => "node_u32",
            Shape::U64 => "node_u64",
            Shape::U128 => "node_u128",
            Shape::Usize => "node_usize",
            Shape::Isize => "node_isize",
            Shape::F32 => "node_f32",
            Shape::F64 => "node_f64",
            Shape::Char => "node_char",
            Shape::Str => "node_string",
            Shape::Bytes => "node_bytearray",
            Shape::Option(_) => "node_option",
            Shape::Unit => "node_unit",
            Shape::Seq(_) => "node_seq",
            Shape::Tuple(_) => "node_tuple",
            Shape::Map(..) => "node_map",
            Shape::Enum(..) => "node_enum",
        };
        out.insert(l);
        if let Shape::Enum(_, vs) = n {
            for v in vs {
                out.insert(match v.data {
                    VData::Unit => "data_unit",
                    VData::Newtype(_) => "data_newtype",
                    VData::Tuple(_) => "data_tuple",
                    VData::Struct(_) => "data_struct",
                });
            }
        }
        if matches!(n, Shape::UnitStruct(_) | Shape::NewtypeStruct(..) | Shape::TupleStruct(..) | Shape::Struct(..)) {
            out.insert("node_struct");
        }
    });
}

// ------------------------------------------------------------------ reference key stream

/// The documented tag-and-name stream of a schema (table transcribed from the comment block
/// in key/hash.rs: "shuffled primes"), independent of both hasher implementations.
pub fn key_stream(s: &Shape, out: &mut Vec<u8>) {
    fn data_struct(tag_unit: u8, tag_new: u8, tag_tup: u8, tag_struct: u8, d: &VData, out: &mut Vec<u8>) {
        match d {
            VData::Unit => out.push(tag_unit),
            VData::Newtype(a) => {
                out.push(tag_new);
                key_stream(a, out)
            }
            VData::Tuple(v) => {
                out.push(tag_tup);
                for x in v {
                    key_stream(x, out)
                }
            }
            VData::Struct(f) => {
                out.push(tag_struct);
                for (n, x) in f {
                    out.extend_from_slice(n.as_bytes());
                    key_stream(x, out)
                }
            }
        }
    }
    match s {
        Shape::Bool => out.push(0x11),
        Shape::I8 => out.push(0xC5),
        Shape::U8 => out.push(0x3D),
        Shape::I16 => out.push(0x1D),
        Shape::I32 => out.push(0x0D),
        Shape::I64 => out.push(0x0B),
        Shape::I128 => out.push(0x02),
        Shape::U16 => out.push(0x83),
        Shape::U32 => out.push(0xD3),
        Shape::U64 => out.push(0x13),
        Shape::U128 => out.push(0x8B),
        Shape::Usize => out.push(0x6B),
        Shape::Isize => out.push(0xAD),
        Shape::F32 => out.push(0xEF),
        Shape::F64 => out.push(0x71),
        Shape::Char => out.push(0xC1),
        Shape::Str => out.push(0x25),
        Shape::Bytes => out.push(0x65),
        Shape::Option(a) => {
            out.push(0x6D);
            key_stream(a, out)
        }
        Shape::Unit => out.push(0x47),
        Shape::Seq(a) => {
            out.push(0x03);
            key_stream(a, out)
        }
        Shape::Tuple(v) => {
            out.push(0xA7);
            for x in v {
                key_stream(x, out)
            }
        }
        Shape::Map(k, v) => {
            out.push(0x4F);
            key_stream(k, out);
            key_stream(v, out)
        }
        // structs: the type name is NOT hashed
        Shape::UnitStruct(n) if *n == SCHEMA_MARKER => out.push(0xE5),
        Shape::UnitStruct(_) => out.push(0xBF),
        Shape::NewtypeStruct(_, a) => {
            out.push(0x9D);
            key_stream(a, out)
        }
        Shape::TupleStruct(_, v) => {
            out.push(0x05);
            for x in v {
                key_stream(x, out)
            }
        }
        Shape::Struct(_, f) => {
            out.push(0x7F);
            for (n, x) in f {
                out.extend_from_slice(n.as_bytes());
                key_stream(x, out)
            }
        }
        Shape::Enum(_, vs) => {
            out.push(0xE9);
            for v in vs {
                out.extend_from_slice(v.name.as_bytes());
                data_struct(0xB5, 0xDF, 0xC7, 0x67, &v.data, out);
            }
        }
    }
}

pub fn reference_key(path: &str, s: &Shape) -> [u8; 8] {
    let mut stream = path.as_bytes().to_vec();
    key_stream(s, &mut stream);
    pcv_core::refs::fnv1a64(&stream).to_le_bytes()
}

// ------------------------------------------------------------------ schema-of-schema wire walker

/// Walks the wire form of a serialised `DataModelType` / `OwnedDataModelType` (variant order
/// of the enum declaration); returns bytes consumed.  Written from the declaration, not from
/// serde's generated code.
pub fn walk_meta(b: &[u8], depth: u32) -> Result<usize, String> {
    if depth > 200 {
        return Err("meta nesting too deep".into());
    }
    let (idx, mut i) = varint(b, 32)?;
    let str_at = |b: &[u8], i: usize| -> Result<usize, String> {
        let (n, c) = varint(&b[i..], 64)?;
        let n = n as usize;
        if b.len() - i - c < n {
            return Err("string runs past the end".into());
        }
        std::str::from_utf8(&b[i + c..i + c + n]).map_err(|_| "bad utf8".to_string())?;
        Ok(c + n)
    };
    fn data(b: &[u8], depth: u32, str_at: &dyn Fn(&[u8], usize) -> Result<usize, String>) -> Result<usize, String> {
        let (k, mut i) = varint(b, 32)?;
        match k {
            0 => {}
            1 => i += walk_meta(&b[i..], depth + 1)?,
            2 => {
                let (n, c) = varint(&b[i..], 64)?;
                i += c;
                for _ in 0..n {
                    i += walk_meta(&b[i..], depth + 1)?;
                }
            }
            3 => {
                let (n, c) = varint(&b[i..], 64)?;
                i += c;
                for _ in 0..n {
                    i += str_at(b, i)?;
                    i += walk_meta(&b[i..], depth + 1)?;
                }
            }
            _ => return Err(format!("unknown Data variant {}", k)),
        }
        Ok(i)
    }
    match idx {
        0..=17 | 19 | 25 => {}
        18 | 20 => i += walk_meta(&b[i..], depth + 1)?,
        21 => {
            let (n, c) = varint(&b[i..], 64)?;
            i += c;
            for _ in 0..n {
                i += walk_meta(&b[i..], depth + 1)?;
            }
        }
        22 => {
            i += walk_meta(&b[i..], depth + 1)?;
            i += walk_meta(&b[i..], depth + 1)?;
        }
        23 => {
            i += str_at(b, i)?;
            i += data(&b[i..], depth, &str_at)?;
        }
        24 => {
            i += str_at(b, i)?;
            let (n, c) = varint(&b[i..], 64)?;
            i += c;
            for _ in 0..n {
                i += str_at(b, i)?;
                i += data(&b[i..], depth, &str_at)?;
            }
        }
        _ => return Err(format!("unknown DataModelType variant {}", idx)),
    }
    Ok(i)
}

fn varint(b: &[u8], bits: u32) -> Result<(u128, usize), String> {
    pcv_core::spec::decode_varint(bits, b).map_err(|e| format!("varint: {}", e.label()))
}

/// Schema-directed wire walker: consumes one value of `schema` from `b`, knowing nothing but
/// the schema.  Uses the reference decoder for everything except the schema-of-schema kind.
pub fn walk_by_schema(schema: &OwnedDataModelType, b: &[u8]) -> Result<usize, String> {
    let shape = owned_to_shape(schema);
    walk_shape(&shape, b)
}

fn contains_marker(s: &Shape) -> bool {
    let mut found = false;
    s.walk(&mut |n| {
        if matches!(n, Shape::UnitStruct(x) if *x == SCHEMA_MARKER) {
            found = true
        }
    });
    found
}

pub fn walk_shape(shape: &Shape, b: &[u8]) -> Result<usize, String> {
    if !contains_marker(shape) {
        return pcv_core::spec::decode(shape, b).map(|d| d.consumed).map_err(|e| format!("{:?}", e));
    }
    // shapes that embed a schema-of-schema: walk structurally
    fn seq_of(elem: &Shape, b: &[u8]) -> Result<usize, String> {
        let (n, mut i) = varint(b, 64)?;
        for _ in 0..n {
            i += walk_shape(elem, &b[i..])?;
        }
        Ok(i)
    }
    match shape {
        Shape::UnitStruct(x) if *x == SCHEMA_MARKER => walk_meta(b, 0),
        Shape::Option(a) => match b.first() {
            Some(0) => Ok(1),
            Some(1) => Ok(1 + walk_shape(a, &b[1..])?),
            _ => Err("bad option".into()),
        },
        Shape::NewtypeStruct(_, a) => walk_shape(a, b),
        Shape::Seq(a) => seq_of(a, b),
        Shape::Tuple(v) | Shape::TupleStruct(_, v) => {
            let mut i = 0;
            for s in v {
                i += walk_shape(s, &b[i..])?;
            }
            Ok(i)
        }
        Shape::Struct(_, f) => {
            let mut i = 0;
            for (_, s) in f {
                i += walk_shape(s, &b[i..])?;
            }
            Ok(i)
        }
        Shape::Map(k, v) => {
            let (n, mut i) = varint(b, 64)?;
            for _ in 0..n {
                i += walk_shape(k, &b[i..])?;
                i += walk_shape(v, &b[i..])?;
            }
            Ok(i)
        }
        Shape::Enum(_, vs) => {
            let (idx, mut i) = varint(b, 32)?;
            let v = vs.get(idx as usize).ok_or("unknown variant")?;
            match &v.data {
                VData::Unit => {}
                VData::Newtype(a) => i += walk_shape(a, &b[i..])?,
                VData::Tuple(t) => {
                    for s in t {
                        i += walk_shape(s, &b[i..])?;
                    }
                }
                VData::Struct(f) => {
                    for (_, s) in f {
                        i += walk_shape(s, &b[i..])?;
                    }
                }
            }
            Ok(i)
        }
        other => pcv_core::spec::decode(other, b).map(|d| d.consumed).map_err(|e| format!("{:?}", e)),
    }
}
