//! pcv_alloc: the C14 oracle against postcard-schema's alloc-only configuration
//! (`--features alloc`, no `use-std`), where Vec / String / BTreeMap / BTreeSet get their
//! Schema from impls/builtins_alloc.rs.
#[path = "../../pcv_schema/src/conform.rs"]
mod conform;
#[path = "../../pcv_schema/src/conv.rs"]
#[allow(dead_code)]
mod conv;

use conform::*;
use pcv_core::corpus_types;
use pcv_core::run::*;
use pcv_core::{cli, mem, run};
use postcard_schema::schema::owned::OwnedDataModelType;
use postcard_schema::Schema;
use serde::{Deserialize, Serialize};
use std::collections::{BTreeMap, BTreeSet};

corpus_types! {
    #[derives(Serialize, Deserialize, Debug, Clone, PartialEq, Schema)]
    struct AColls { m: BTreeMap<u16, String>, r: BTreeMap<String, u8>, s: BTreeSet<i32>, v: Vec<Vec<u8>>, t: String, z: Vec<()> }

    #[derives(Serialize, Deserialize, Debug, Clone, PartialEq, Schema)]
    enum AData { Unit, Map(BTreeMap<u8, String>), Rec { names: Vec<String>, index: BTreeMap<String, u16> }, Set(BTreeSet<u16>), Pair(String, Vec<u8>) }

    #[derives(Serialize, Deserialize, Debug, Clone, PartialEq, Schema)]
    struct ANested { c: AColls, d: Vec<AData>, o: Option<BTreeMap<u8, String>>, t: (String, BTreeSet<u16>), r: Result<Vec<u8>, String> }
}

fn run_c14(cfg: &Cfg) -> Report {
    let mut rep = Report::new("C14");
    // this configuration must really be the alloc-only one
    let std_on = postcard_schema_has_std();
    let s = parallel(cfg, 1, |t| {
        let mut i = 0u64;
        macro_rules! one {
            ($ty:ty) => {
                i += 1;
                if t.mine(i) {
                    shaped::<$ty>(t, stringify!($ty));
                }
            };
        }
        one!(String); one!(Vec<u8>); one!(Vec<String>); one!(Vec<()>); one!(Vec<Vec<u16>>);
        one!(BTreeSet<u16>); one!(BTreeMap<u8, String>);
        one!(Option<String>); one!(Result<u16, String>); one!((u8, i16, String)); one!([String; 2]);
        one!(Option<u8>); one!(std::ops::Range<u16>); one!(u64); one!(char); one!(());
        one!(AColls); one!(AData); one!(ANested); one!(Vec<AData>);
        // hand-built: maps whose key and value types differ in width and kind
        let n = t.cfg.scale(3, 2000, 40_000);
        for k in 0..n {
            if t.cfg.expired() {
                break;
            }
            let r = &mut t.rng;
            let mut m1: BTreeMap<String, u32> = BTreeMap::new();
            let mut m2: BTreeMap<u64, Vec<String>> = BTreeMap::new();
            let mut m3: BTreeMap<(u8, String), Option<i64>> = BTreeMap::new();
            let mut s1: BTreeSet<String> = BTreeSet::new();
            for _ in 0..r.range(0, 5) {
                let s = pcv_core::gen::gen_string(r, 12);
                m1.insert(s.clone(), r.next() as u32);
                m2.insert(r.next(), vec![s.clone(); (k % 3) as usize]);
                m3.insert((r.next() as u8, s.clone()), if r.chance(1, 2) { Some(r.next() as i64) } else { None });
                s1.insert(s);
            }
            macro_rules! hand {
                ($ty:ty, $v:expr) => {{
                    let schema: OwnedDataModelType = <$ty as Schema>::SCHEMA.into();
                    t.st.count("hand_built_values");
                    check_value::<$ty>(t, stringify!($ty), $v, &schema, false);
                }};
            }
            hand!(BTreeMap<String, u32>, &m1);
            hand!(BTreeMap<u64, Vec<String>>, &m2);
            hand!(BTreeMap<(u8, String), Option<i64>>, &m3);
            hand!(BTreeSet<String>, &s1);
            let o: OwnedDataModelType = <AData as Schema>::SCHEMA.into();
            hand!(OwnedDataModelType, &o);
        }
    });
    rep.stats.merge(s);
    if std_on {
        rep.stats.inconclusive("pcv_alloc was linked against a postcard-schema built with use-std; build it alone (-p pcv_alloc)".into());
    }
    rep.rule = "alloc-only configuration of postcard-schema (feature alloc, no use-std: impls/builtins_alloc.rs): cases = (type, value) over String, Vec, BTreeMap, BTreeSet (key and value types of \
                different kinds and widths), the no_std built-ins they nest in, and derived structs/enums containing them; same oracle as the full build: recorded serializer call tree conforms to T::SCHEMA and a \
                schema-directed wire walker consumes each encoding exactly. distinct = (type, encoding)."
        .into();
    rep.floor("types", 15);
    rep.floor("conformance_checks", 300);
    rep.floor("wire_walks_exact", 300);
    rep.floor("hand_built_values", 50);
    rep
}

/// `std::path::PathBuf: Schema` exists only in the use-std configuration; detect it without
/// naming the impl (so this file compiles either way).
fn postcard_schema_has_std() -> bool {
    struct W<T>(core::marker::PhantomData<T>);
    trait Fallback {
        fn has() -> bool {
            false
        }
    }
    impl<T> Fallback for W<T> {}
    impl<T: Schema> W<T> {
        #[allow(dead_code)]
        fn has() -> bool {
            true
        }
    }
    let _ = <W<u8> as Fallback>::has();
    W::<std::path::PathBuf>::has()
}

fn main() {
    let cfg = match cli::parse_args() {
        Ok(c) => c,
        Err(e) => {
            eprintln!("{}", e);
            std::process::exit(3);
        }
    };
    if cfg.prop == "NOOP" {
        return;
    }
    run::mark_start();
    mem::install_panic_hook();
    let _ = std::fs::create_dir_all(&cfg.out_dir);
    let t0 = std::time::Instant::now();
    let mut rep = match cfg.prop.as_str() {
        "C14" => run_c14(&cfg),
        other => {
            eprintln!("unknown property {} (pcv_alloc implements C14 only)", other);
            std::process::exit(3);
        }
    };
    if cfg.replay.is_some() {
        rep.stats.notes.push("C14 replay files name the concrete type and value; the whole check is re-run to reproduce".into());
    }
    let (nviol, inconclusive) = rep.finish(&cfg, t0.elapsed().as_secs_f64());
    if nviol > 0 {
        std::process::exit(1);
    }
    if inconclusive {
        std::process::exit(2);
    }
}
