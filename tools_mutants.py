#!/usr/bin/env python3
"""Mutation-campaign helper (development aid, not part of any registered check).

  tools_mutants.py confirm <worktree> <patch.diff> <demo.rs>
        in a scratch worktree: the patch applies, the workspace test suite still passes,
        the demo fails with the patch and passes without it.
  tools_mutants.py detect <patch.diff> <PROP>[,<PROP>...] [--stages native,plain,...] [--tier quick]
        apply the patch to /repo, run the listed checks, ALWAYS restore /repo afterwards.
  tools_mutants.py keep <id> <prop> <patch.diff> <demo.rs> <needs> <ran...>
        store a confirmed change under /verif/seeded/<id>/
"""
import json, os, re, shutil, subprocess, sys, time

REPO = "/repo"
VERIF = "/verif"


def sh(cmd, cwd=None, env=None, timeout=3600):
    p = subprocess.run(cmd, shell=True, cwd=cwd, env=env, stdout=subprocess.PIPE, stderr=subprocess.STDOUT, text=True, timeout=timeout)
    return p.returncode, p.stdout


def demo_crate(demo):
    first = open(demo).readline()
    m = re.search(r"crate:\s*([\w-]+)", first)
    return m.group(1) if m else "postcard"


def suite(wt):
    rc, out = sh("cargo test --workspace --no-fail-fast --offline 2>&1", cwd=wt)
    passed = sum(int(x) for x in re.findall(r"test result: \w+\. (\d+) passed", out))
    failed = sum(int(x) for x in re.findall(r"test result: \w+\. \d+ passed; (\d+) failed", out))
    compiled = "error: could not compile" not in out and "error[E" not in out
    return compiled, passed, failed, out


def confirm(wt, patch, demo):
    res = {"patch": patch, "demo": demo}
    sh("git checkout -- . && git clean -fdq -e target", cwd=wt)
    rc, out = sh("git apply --check %s" % patch, cwd=wt)
    if rc != 0:
        res["error"] = "patch does not apply: " + out[-400:]
        return res
    crate = demo_crate(demo)
    tdir = os.path.join(wt, "source", crate, "tests")
    os.makedirs(tdir, exist_ok=True)
    name = "demo_" + re.sub(r"\W", "_", os.path.basename(os.path.dirname(os.path.abspath(patch))) + "_" + os.path.basename(demo).replace(".rs", ""))
    # 1. suite with the patch (demo excluded)
    sh("git apply %s" % patch, cwd=wt)
    compiled, passed, failed, out = suite(wt)
    res["with_patch_suite"] = {"compiled": compiled, "passed": passed, "failed": failed}
    # 2. demo with the patch
    shutil.copy(demo, os.path.join(tdir, name + ".rs"))
    # candidate invocations: workspace-unified features first, then crate-specific feature sets
    cands = ["cargo test --workspace --offline --test %s" % name,
             "cargo test -p %s --test %s --offline --features use-std,heapless,use-crc,experimental-derive" % (crate, name),
             "cargo test -p %s --test %s --offline --features use-std,derive" % (crate, name),
             "cargo test -p postcard-schema --offline --features derive,use-std,postcard/experimental-derive --test %s" % name,
             "cargo test -p postcard --offline --features use-std,embedded-io-06 --test %s" % name,
             "cargo test -p postcard-schema --offline --features uuid-v1_0,uuid_v1_0/serde,derive,use-std --test %s" % name,
             "cargo test -p postcard-schema --offline --features nalgebra-v0_33,derive,use-std --test %s" % name,
             "cargo test -p %s --test %s --offline" % (crate, name)]
    # explicit command (feature configuration the demo needs), e.g. an alloc-only build:  MUT_DEMO_CMD='cargo test -p postcard-schema --no-default-features --features alloc,derive --offline --test {name}'
    if os.environ.get("MUT_DEMO_CMD"):
        cands = [os.environ["MUT_DEMO_CMD"].format(name=name)]
    chosen = None
    for c in cands:
        rc_with, out_with = sh(c + " 2>&1", cwd=wt)
        ran = re.findall(r"running (\d+) tests?", out_with)
        if "error: could not compile" in out_with or "error[E" in out_with or not any(int(x) > 0 for x in ran):
            continue
        chosen = c
        break
    res["demo_command"] = chosen
    if chosen is None:
        chosen = cands[0]
    res["demo_with_patch_fails"] = rc_with != 0 and ("test result: FAILED" in out_with or "panicked" in out_with)
    res["demo_with_patch_tail"] = out_with[-600:]
    # 3. demo without the patch
    sh("git apply -R %s" % patch, cwd=wt)
    rc_wo, out_wo = sh(chosen + " 2>&1", cwd=wt)
    res["demo_without_patch_passes"] = rc_wo == 0 and "test result: ok" in out_wo
    res["demo_without_patch_tail"] = out_wo[-300:]
    sh("git checkout -- . && git clean -fdq -e target", cwd=wt)
    res["confirmed"] = bool(compiled and failed == 0 and passed >= 75 and res["demo_with_patch_fails"] and res["demo_without_patch_passes"])
    return res


def detect(patch, props, stages="native", tier="quick", seed="1"):
    rc, out = sh("git status --porcelain", cwd=REPO)
    if out.strip():
        return {"error": "/repo is not clean: " + out}
    rc, out = sh("git apply %s" % os.path.abspath(patch), cwd=REPO)
    if rc != 0:
        return {"error": "patch does not apply to /repo: " + out}
    res = {}
    try:
        for p in props:
            env = dict(os.environ)
            if stages:
                env["VERIF_STAGES"] = stages
            env["VERIF_SEED"] = seed
            t0 = time.time()
            rc, out = sh("./check %s --tier %s" % (p, tier), cwd=VERIF, env=env, timeout=7200)
            sigs = re.findall(r"^\s+\[\w+\] ([^ ]+): ", out, re.M)
            replay_ok = None
            m = re.search(r"^VIOLATION property=\S+ replay=(\S+)", out, re.M)
            if m and os.path.exists(m.group(1)):
                # the replay command must reproduce the violation on the changed tree ...
                os.makedirs("/tmp/pcv_replays", exist_ok=True)
                # file name keeps the stage marker (_native_) so the orchestrator replays on that stage
                keep = os.path.join("/tmp/pcv_replays", "%s_%d_%s" % (p, int(time.time()), os.path.basename(m.group(1))))
                shutil.copy(m.group(1), keep)
                rc2, out2 = sh("./check %s --replay %s" % (p, keep), cwd=VERIF, env=env, timeout=3600)
                replay_ok = {"with_change_exit": rc2}
                res.setdefault("_replays", []).append((p, keep))
            res[p] = {"exit": rc, "violations": len(re.findall(r"^VIOLATION", out, re.M)), "signatures": sorted(set(sigs))[:6], "replay": replay_ok,
                      "inconclusive": "INCONCLUSIVE" in out, "wall_s": round(time.time() - t0, 1),
                      "tail": out[-500:] if rc not in (0, 1) else ""}
    finally:
        sh("git checkout -- .", cwd=REPO)
        # ... and be silent on the restored tree
        for p, keep in res.pop("_replays", []):
            if os.environ.get("MUT_SKIP_RESTORED") == "1":
                continue
            env = dict(os.environ)
            if stages:
                env["VERIF_STAGES"] = stages
            rc3, out3 = sh("./check %s --replay %s" % (p, keep), cwd=VERIF, env=env, timeout=3600)
            if isinstance(res.get(p), dict) and res[p].get("replay") is not None:
                res[p]["replay"]["restored_exit"] = rc3
        rc, out = sh("git status --porcelain", cwd=REPO)
        if out.strip():
            res["RESTORE_PROBLEM"] = out
    return res


def main():
    if len(sys.argv) < 2:
        print(__doc__)
        return 2
    cmd = sys.argv[1]
    if cmd == "confirm":
        r = confirm(sys.argv[2], os.path.abspath(sys.argv[3]), os.path.abspath(sys.argv[4]))
        print(json.dumps(r, indent=1))
        return 0 if r.get("confirmed") else 1
    if cmd == "detect":
        patch = sys.argv[2]
        props = sys.argv[3].split(",")
        stages, tier, seed = "native", "quick", "1"
        a = sys.argv[4:]
        i = 0
        while i < len(a):
            if a[i] == "--stages":
                stages = a[i + 1]
            elif a[i] == "--tier":
                tier = a[i + 1]
            elif a[i] == "--seed":
                seed = a[i + 1]
            i += 2
        r = detect(patch, props, stages if stages != "all" else "", tier, seed)
        print(json.dumps(r, indent=1))
        return 0
    if cmd == "keep":
        mid, prop, patch, demo, needs = sys.argv[2:7]
        ran = sys.argv[7:]
        d = os.path.join(VERIF, "seeded", mid)
        os.makedirs(d, exist_ok=True)
        shutil.copy(patch, os.path.join(d, "patch.diff"))
        shutil.copy(demo, os.path.join(d, os.path.basename(demo) if os.path.basename(demo).startswith("demo") else "demo.rs"))
        meta = {"id": mid, "breaks_property": prop, "needs_to_manifest": needs, "what_was_run": ran}
        with open(os.path.join(d, "meta.json"), "w") as f:
            json.dump(meta, f, indent=1)
        print("kept", d)
        return 0
    print(__doc__)
    return 2


if __name__ == "__main__":
    sys.exit(main())
