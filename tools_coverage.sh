#!/bin/bash
# Source coverage of the monitored workloads over the crates under /repo/source.
# Not a check: it answers "which lines of postcard did the monitors actually drive", so that
# unreached code can be turned into new workload lanes.  Output: /verif/coverage/summary.txt and
# /verif/coverage/uncovered.txt (line ranges never executed by any property's quick native stage).
#
#   ./tools_coverage.sh [quick|thorough] [PROPS...]
set -u
VERIF=$(cd "$(dirname "$0")" && pwd)
H=$VERIF/harness
TIER=${1:-quick}; shift || true
PROPS=${*:-C01 C02 C03 C04 C05 C06 C07 C08 C09 C10 C11 C12 C13 C14 C15 C16 C17 C18 C19 C20}
export CARGO_NET_OFFLINE=true
SYSROOT=$(rustc +nightly --print sysroot)
BIN=$SYSROOT/lib/rustlib/x86_64-unknown-linux-gnu/bin
T=$H/target-cov
PROF=$VERIF/work/coverage
rm -rf "$PROF"; mkdir -p "$PROF" "$VERIF/coverage"
cd "$H" || exit 2
LLVM_PROFILE_FILE="$PROF/build-%p-%m.profraw" RUSTFLAGS="-Cinstrument-coverage" CARGO_TARGET_DIR=$T cargo +nightly build --release -p pcv_core -p pcv_schema 2>&1 | tail -3
rm -f "$PROF"/build-*.profraw
for p in $PROPS; do
  case $p in C14|C15|C16|C17|C18|C19) crate=pcv_schema;; *) crate=pcv_core;; esac
  mkdir -p "$PROF/$p"
  LLVM_PROFILE_FILE="$PROF/$p/%p-%m.profraw" "$T/release/$crate" "$p" --tier "$TIER" --seed "${VERIF_SEED:-1}" \
      --threads 16 --out "$PROF/$p" --stage cov --repo /repo > "$PROF/$p/worker.log" 2>&1
  echo "$p rc=$?"
done
"$BIN/llvm-profdata" merge -sparse $(find "$PROF" -name '*.profraw') -o "$PROF/all.profdata" || exit 2
find "$PROF" -name '*.profraw' -delete
OBJ="$T/release/pcv_core -object $T/release/pcv_schema"
SRC=$(find /repo/source -path '*/src/*.rs' -not -path '*/target/*' | sort)
"$BIN/llvm-cov" report -instr-profile "$PROF/all.profdata" $OBJ $SRC 2>/dev/null \
   | awk '{print}' > "$VERIF/coverage/summary.txt"
"$BIN/llvm-cov" show -instr-profile "$PROF/all.profdata" $OBJ $SRC -show-line-counts-or-regions=false \
   -show-instantiations=false -show-expansions=false 2>/dev/null > "$PROF/show.txt"
python3 - "$PROF/show.txt" > "$VERIF/coverage/uncovered.txt" <<'EOF'
import re, sys
cur = None; runs = []; start = None; last = None
def flush():
    global start, last
    if start is not None:
        runs.append((cur, start, last))
    start = None; last = None
for line in open(sys.argv[1], errors="replace"):
    m = re.match(r"^(/repo/\S+):$", line.strip())
    if m:
        flush(); cur = m.group(1); continue
    m = re.match(r"^\s*(\d+)\|\s*([0-9.kMG]*)\|(.*)$", line)
    if not m:
        continue
    n = int(m.group(1)); cnt = m.group(2)
    if cnt == "0":
        if start is None:
            start = n
        last = n
    elif cnt != "":
        flush()
flush()
for f, a, b in runs:
    print("%s:%d-%d" % (f, a, b))
EOF
rm -f "$PROF/show.txt"
tail -5 "$VERIF/coverage/summary.txt"
wc -l "$VERIF/coverage/uncovered.txt"
