#!/bin/bash
cd /verif
for p in "$@"; do
  git -C /repo status --short | grep -q . && { echo "repo dirty"; exit 1; }
  python3 tools_mutants.py detect /tmp/w5/m/$p-5A/patch.diff $p > /tmp/w5/out_$p/detect.json 2>&1
  echo "$p done $(date +%T)"
done
