import json,os,shutil,sys
NEEDS = {
 'C01':"std IOReader::try_take_n replaced by a hand-written read loop that always writes at the start of the field: a short read whose boundary falls strictly inside a str / bytes / char / float body garbles that field (from_io only)",
 'C02':"collect_str's counting pass overrides write_char with ct += 1: a Display impl that emits a non-ASCII char through Formatter::write_char (char's Display, a non-ASCII fill character) gets a length prefix that is too small",
 'C03':"deserialize_map rejects a map early when size_hint()/2 < len (assumes 2+ bytes per entry): maps whose values or keys are zero-sized and that end the message are refused, and acceptance depends on the trailing bytes",
 'C05':"ser Slice::try_extend bumps the cursor before the bounds check and leaves it beyond end on BufferFull: a later single-byte try_push on the same flavour is accepted outside the buffer (two cooperating sites)",
 'C06':"to_allocvec_cobs serialises to a plain Vec and encodes it with cobs::encode in one pass; cobs' finalize writes nothing for an empty payload: zero-length messages are framed [00] instead of [01 00] on the growable storage only",
 'C07':"from_bytes_cobs / take_from_bytes_cobs get a single-block fast path that trusts s[c] == 0 without checking that it is the first zero: ill-formed input with an earlier zero inside the block is accepted",
 'C08':"feed_ref finds the sentinel with a word-at-a-time has-zero scan (big-endian load): 0x01 bytes directly in front of the zero inside one usize block of the CHUNK are reported as the zero (depends on chunk offset, last payload byte and pointer width)",
 'C09':"a `truncated` flag set by an overflow without sentinel is not cleared by the overflow-with-sentinel branch: one segment longer than about 2N that overflows twice swallows the next well-formed frame",
 'C10':"CrcModifier::finalize compares the checksum bytewise but accumulates the differences with XOR instead of OR: wrong checksums whose byte differences cancel are accepted (widths >= 16)",
 'C11':"std IOReader::pop uses one read() instead of read_exact: ErrorKind::Interrupted at a single-byte fetch becomes DeserializeUnexpectedEnd (block reads still retry)",
 'C12':"derive(MaxSize) folds the variant maxima pairwise with chunks_exact(2) and drops the remainder: enums whose variant count is not a power of two ignore the trailing variants",
 'C13':"LE/BE decode through a const-generic visitor that fails fast when SeqAccess::size_hint() is None: through from_io / from_eio the hint is the free scratch space, so a fixint field fails whenever less scratch than its width is free",
 'C14':"derive(Schema) sorts enum variants by explicit discriminant (serde numbers by position); same kind of change as C17-4B, produced independently",
 'C15':"OwnedDataModelType::Enum.variants gets serde(default, skip_serializing_if = is_empty): an enum node with zero variants loses its length byte in the owned encoding only",
 'C16':"the const hasher's named-field loops are folded into a helper that returns before mixing the tag when the field list is empty: struct / struct variant with zero named fields loses its 0x7F / 0x67 tag (run-time hasher untouched)",
 'C17':"dynamic decoder rejects a seq / map count larger than the bytes left (assumes 1+ byte per element): sequences of zero-sized elements at the end of a message are refused",
 'C18':"postcard-dyn starts to support integer-keyed maps: the encoder parses the JSON key text leniently (07, +7, -0), the decoder prints the canonical decimal; two spellings of one integer in one object encode to duplicate entries that do not survive decode / re-encode",
 'C19':"discover_tys records a tuple element for which is_prim() holds without walking it; is_prim looks through Option and primitive-keyed Map: nested types of Option<leaf> / Map<leaf,leaf> directly inside a tuple or array are missing from all_used_types",
 'C20':"ser Cobs gets a block-write override that patches a header before the block holding its placeholder has reached the storage: one block write of 16+ bytes with two or more zeros (no rollover between) corrupts the frame over Slice and panics over HVec / AllocVec",
}
for p in sys.argv[1:]:
    o='/tmp/w5/out_%s/'%p
    mid=p+'-5A'
    c=json.load(open(o+'confirm.json')); d=json.load(open(o+'detect.json'))
    assert c['confirmed'], p
    dst='/verif/seeded/%s/'%mid
    os.makedirs(dst,exist_ok=True)
    shutil.copy(o+'patch.diff',dst+'patch.diff'); shutil.copy(o+'demo.rs',dst+'demo.rs'); shutil.copy(o+'notes.txt',dst+'notes.txt')
    fired={}; silent=[]; rep={}
    for k,v in d.items():
        if not isinstance(v,dict): continue
        if v.get('exit')==1: fired[k]=v['signatures']; rep[k]=v.get('replay')
        else: silent.append(k)
    extra=os.path.exists(o+'detect_before.json')
    meta={"id":mid,"breaks_property":p,"wave":5,
     "origin":"independent sub-agent (fifth round: told only the property text and, in one paragraph, the kinds of change the earlier rounds had produced; asked for something different in kind - cooperating sites, relations between independent quantities, rare magnitudes, zero-sized values in unusual positions, rarely used serde paths, multi-step histories, pointer width, feature combinations)",
     "needs_to_manifest":NEEDS[p],
     "confirmed":{"ok":True,"demo_command":c['demo_command'],"suite_with_patch":c['with_patch_suite'],"note":""},
     "detection":{"how":"git -C /repo apply patch.diff; VERIF_STAGES=native ./check %s --tier quick (seed 1); replay of the first reported case with the change applied and again after git -C /repo checkout -- ."%p,
       "fired":fired,"also_run_silent":silent,"replay_exit_codes":rep,
       "note": ("missed by the checks as they stood when the change arrived (detect_before.json); detected after the strengthening described in DESIGN 15.8" if extra else "")}}
    if extra: shutil.copy(o+'detect_before.json',dst+'detect_before.json')
    json.dump(meta,open(dst+'meta.json','w'),indent=1)
    print('kept',mid,list(fired))
