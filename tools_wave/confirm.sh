#!/bin/bash
# usage: confirm.sh P   -> /tmp/w5/out_P/confirm.json
P=$1
mkdir -p /tmp/w5/m/$P-5A
cp /tmp/w5/out_$P/patch.diff /tmp/w5/m/$P-5A/patch.diff
cp /tmp/w5/out_$P/demo.rs /tmp/w5/m/$P-5A/demo.rs
cd /verif && python3 tools_mutants.py confirm /tmp/w5/wt_$P /tmp/w5/m/$P-5A/patch.diff /tmp/w5/m/$P-5A/demo.rs > /tmp/w5/out_$P/confirm.json 2>&1
echo "$P confirm exit $?"
